#!/usr/bin/env python3
"""Engine self-tests: (1) no rule mutates the fact base (results must not depend on rule order);
(2) every rule gives the same verdicts when run alone and after all others."""
import hashlib, importlib, json, os, sys
sys.path.insert(0, os.path.dirname(os.path.dirname(os.path.abspath(__file__))))
from rules import core, registry
registry._register_all()
need = set()
for p, spec in registry.PROPS.items():
    for r in spec["rules"]:
        need.update(r["configs"])
facts = {c: core.Facts.load(c) for c in sorted(need)}
def digest(f): return hashlib.sha256(json.dumps(f.data, sort_keys=True).encode()).hexdigest()
before = {c: digest(f) for c, f in facts.items()}
def run(r, fs):
    mod = importlib.import_module("rules." + r["module"]); fn = getattr(mod, r["fn"])
    if len(r["configs"]) > 1 and not r.get("per_config"):
        res = fn({c: fs[c] for c in r["configs"]}); res = res if isinstance(res, list) else [res]
    else:
        res = []
        for c in r["configs"]:
            x = fn(fs[c]); res += x if isinstance(x, list) else [x]
    return sorted((i["key"], i["verdict"]) for x in res for i in x.instances) + sorted(e for x in res for e in x.errors)
seen = {}
bad = 0
rules = []
for p, spec in sorted(registry.PROPS.items()):
    for r in spec["rules"]:
        k = (r["module"], r["fn"], r["configs"])
        if k not in seen:
            seen[k] = None; rules.append(r)
# pass 1: shared facts, all rules in order
first = {}
for r in rules:
    if r["module"] == "types": continue  # runs cargo for the witness; independent of the fact base
    first[(r["module"], r["fn"], r["configs"])] = run(r, facts)
after = {c: digest(f) for c, f in facts.items()}
for c in facts:
    if before[c] != after[c]:
        print("FAIL: the fact base of configuration %s was mutated by a rule" % c); bad += 1
# pass 2: fresh facts per rule
for r in rules:
    if r["module"] == "types": continue
    fresh = {c: core.Facts(json.loads(json.dumps(facts[c].data))) for c in r["configs"]}
    again = run(r, fresh)
    if again != first[(r["module"], r["fn"], r["configs"])]:
        print("FAIL: rule %s.%s gives different verdicts alone and after other rules" % (r["module"], r["fn"])); bad += 1
print("selftest: %d rules, %d configurations, %d problems" % (len(rules), len(facts), bad))
sys.exit(1 if bad else 0)

"""Per-property wording for MANIFEST.json (level text, trusted base, technique)."""

NOTES = ("Static analysis only. Every claimed check decides a named structural clause (a necessary condition) of its "
         "property from the type-checked program; the behavioural remainder of each property is declared out of reach "
         "in DESIGN.md §4 and in level_note. Known findings are listed by exact key in KNOWN_FINDINGS.txt.")

COMMON_NOTE = ("Trusted: rustc nightly (type checking, trait resolution, MIR construction), the fact extractor in driver/, "
               "the rule engine in rules/, reviewed tables in tables/. ")

CLAIMS = {
    "C01": {
        "text": "Decides, for every control-flow path of the backtracking interpreter, that each write to shared capture/loop "
                "state is preceded by an undo record (UNDO). This is the structural condition behind the quoted counter-examples; "
                "it is necessary, not sufficient, for ES-conformant first matches.",
        "note": COMMON_NOTE + "Not decided: conformance of match results with ECMAScript for all patterns x haystacks (value semantics of an interpreter).",
        "technique": "MIR dataflow + dominators: save-before-write typestate over GroupData/LoopData (custom rustc_private driver)",
    },
    "C02": {
        "text": "Decides that the backtracker restores on backtracking exactly the state the PikeVM clones at a split: every shared-state "
                "write has an undo record on all paths (UNDO).",
        "note": COMMON_NOTE + "Not decided: equality of match sequences for all programs and haystacks; choice-point priority order is data-dependent.",
        "technique": "MIR dataflow + dominators: save-before-write over backtracker state",
    },
    "C05": {
        "text": "Decides that loop bookkeeping (LoopData.iters/entry), which the empty-iteration check relies on, is saved before every "
                "mutation (UNDO on LoopData): the mechanism whose absence produced the quoted hang.",
        "note": COMMON_NOTE + "Not decided: a ranking argument over bytecode programs or the K x step bound.",
        "technique": "MIR dataflow + dominators over LoopData writes",
    },
}

CLAIMS["C19"] = {
    "text": "Proof by the type system that no state is shared between searches: Regex/Match/Error/Flags are Send+Sync (compile-pass witness "
            "with a compile-fail twin), a deep type walk from Regex/Match/Error/CompiledRegex reaches no UnsafeCell, raw pointer, &mut or dyn "
            "(third-party fields included), no static is mutable / non-Freeze / thread-local, every public method takes &self, executors hold "
            "&CompiledRegex, and user-written *mut casts / transmutes are exactly the triaged set. With these, safe or audited-unsafe code cannot "
            "write through &Regex and nothing outlives a search, so concurrent results equal sequential ones.",
    "note": COMMON_NOTE + "Assumes std's own unsafe code is sound and that the one triaged cast (RefPosition::new, haystack pointer) is never written through. The proof covers sharing through &Regex (threads, clones); history carried by one Matches iterator from search to search is decided structurally by GROUPSCLEAN (capture slots reset on every handed-out match, per configuration) and EXECSTATE (the executor structs have only reviewed fields).",
    "technique": "type-level proof: trait-solver auto-trait queries + deep field-type walk + compile-pass/compile-fail witness + MIR cast inventory",
    "design_ref": "DESIGN.md §3 TYPES, §4 C19",
}

CLAIMS["C12"] = {
    "text": "Decides that no parsed class member is silently dropped: on every path of every parser function to a successful return, "
            "each operand/atom/set/node value produced by a parsing call is used (MUSTUSE, path-sensitive must-use over MIR with "
            "reference aliasing). A dropped operand is exactly the /[a&b]/v defect class. Also: string alternatives are sorted longest first "
            "(STRSORT) and a class set is complemented only after its string alternatives were checked (NEGSTR).",
    "note": COMMON_NOTE + "Also decided: `inverted` pushes an interval exactly where its sibling inverted_interval_count counts one (COUNTSIB); the polarity of \\P reaches the set built from it at every parse site (PROPNEG); operand membership tests look at the other operand (CROSSMEMB). Not decided: the rest of the interval algebra of CodePointSet (add/remove/intersect) and the v+i complement rule, which are value-level.",
    "technique": "MIR path-sensitive must-use dataflow over parsed-fragment types",
}

CLAIMS["C07"] = {
    "text": "Decides three structural conditions of total compilation: (RECGUARD) every recursion cycle on the compile path passes a call "
            "edge dominated by a bounded-counter guard (nesting depth, duplicate depth, unroll budget) or a checked triage reason; "
            "(LIMITS) the group and loop counters are compared with MAX_* before every increment, failing edge = Err; (PANICS) every "
            "explicit panic site on the compile path is triaged with an invariant. Unguarded IR-depth recursion (walkers, drop glue) is "
            "reported as the known stack-overflow finding.",
    "note": COMMON_NOTE + "Not decided: termination of the optimizer fixpoint, implicit arithmetic/bounds panics, and the truth of each triaged invariant "
            "(tables/panic_triage.json states them; some are cross-checked by other rules).",
    "technique": "call-graph SCC analysis with dominator-based guard recognition + explicit-panic inventory over MIR",
}


CLAIMS["C03"] = {
    "text": "Decides the side conditions of the optimizer passes structurally: per ir::Node variant, matches_exactly_one_char / match_always_fails / "
            "is_unrollable / contains_capture_groups are summarised from HIR and compared with what the node kind's semantics allow (ARM); the "
            "1-char-loop promotion does not change behaviour for unencodable characters (NARROW); sequences are direction-aware in the emitter (LBSEQ).",
    "note": COMMON_NOTE + "Not decided: semantic equivalence of each rewrite on all IR shapes (value-level).",
    "technique": "HIR per-variant symbolic arm summaries vs. a reviewed semantics table; MIR path rule for Option propagation; loop/dominator rule in the emitter",
}
CLAIMS["C04"] = {
    "text": "Decides that the start-predicate abstraction is sound per node kind: for each ir::Node variant the arm of compute_start_predicate and "
            "is_start_anchored is summarised (delegation, guards, disjunction, first-non-None) and must be one of the shapes the node's semantics "
            "allow (zero-width => None/Arbitrary, loops delegate only under min >= 1, Alt = disjunction of both or Arbitrary, Alt anchored only if both are).",
    "note": COMMON_NOTE + "Also decided: the join of two start predicates treats (A,B) like (B,A) (COMMUTE), every ByteBitmap accessor uses the bit geometry `set` writes with and whole-array loops sweep 0..len (BITGEOM), a prefilter hit is only a candidate (PLUMB). Not decided: the remaining byte arithmetic (utf8_first_byte, shared-prefix computation).",
    "technique": "HIR per-variant symbolic arm summaries vs. a reviewed semantics table",
}
CLAIMS["C11"] = {
    "text": "Decides name -> enum -> table wiring (every accepted spelling normalises to its variant; accepted binary-property, General_Category and "
            "property names equal the ECMAScript tables; each dispatcher arm returns its own table; string properties gated by v), well-formedness of "
            "all 372 interval tables, ~60 UAX #44 identities between tables (gc leaves partition the code space, groups = unions, scripts partition, "
            "scx >= sc, derived properties contain their definitions, stable closed forms), and that every Node::StringSet is sorted longest-first (STRSORT).",
    "note": COMMON_NOTE + "Not decided: table contents against UCD 17 (no copy offline).",
    "technique": "MIR dominator + value-flow rule with comparator-closure recognition",
}
CLAIMS["C13"] = {
    "text": "Decides that narrowing a pattern character to the input's element type can only mean 'this character does not match' (NARROW): the one "
            "place where the ASCII and UTF-8 executors diverged structurally.",
    "note": COMMON_NOTE + "Also decided: the ASCII entry points hand text/start on unchanged like their UTF-8 siblings (PLUMB entry clause), ASCII folding is to_ascii_lowercase/uppercase (ASCIIFOLD), no unreviewed truncating cast exists (TRUNCAST). Not decided: agreement of decoding and folding between AsciiInput and Utf8Input on all inputs (value-level).",
    "technique": "MIR path rule: Option None-edge must not propagate straight to a failure return",
}


CLAIMS["C06"] = {
    "text": "Decides structural conditions of memory safety in the unchecked build: element/position twins of every decoder step identically on all "
            "paths (SIBPOS, symbolic path summaries); direction-generic code steps with mirror-image primitives under `Dir::FORWARD` (MIRROR); the "
            "single-char-loop dispatch is total, so no unreachable!() is reachable (SCM); explicit panic sites on the match path are triaged (PANICS).",
    "note": COMMON_NOTE + "Not decided: that indices carried by bytecode are in range and that positions stay on boundaries for all inputs (the emitter/interpreter contract is value-level).",
    "technique": "symbolic path summaries of sibling step functions + control-dependence rule on direction switches + explicit-panic inventory",
}
CLAIMS["C14"] = {
    "text": "Decides, in the utf16 configuration (never compiled by the baseline), that Utf16Input and Ucs2Input element/position twins step "
            "identically on all paths including lone surrogates and both ends (SIBPOS), that Ucs2Input never pairs surrogates, and that the "
            "configuration's explicit panic sites are triaged (PANICS); no byte-level IR node is constructed under utf16 (UTF16BYTES), the "
            "code-point lowering is direction-aware (LBSEQ), match-time folding honours the unicode flag (ASCIIFOLD clause), and the iterator "
            "plumbing holds in this configuration (PLUMB).",
    "note": COMMON_NOTE + "Not decided: offset translation and agreement of results with the UTF-8 entry points (value-level).",
    "technique": "symbolic path summaries of sibling step functions under --features utf16",
}


CLAIMS["C16"] = {
    "text": "Decides the structural conditions behind the accessor identities: group names are stored at the index flowing from the group's id "
            "(not emission order), both duplicate-name code paths test participation of a capture, both executors build `captures` by one "
            "in-order pass over the whole group store, and capture groups are only created by the parser (NAMES).",
    "note": COMMON_NOTE + "Not decided: the one-line identities group(0)/groups() length, which the suite covers.",
    "technique": "MIR value-flow (index derives from CaptureGroup.id), call-site inventory and sibling cross-check of the two duplicate-name lookups",
}


CLAIMS["C09"] = {
    "text": "Decides the iterator plumbing on all paths: every path from a successful attempt to a Some(Match) return stores through next_start, "
            "the value is Some(end) if end != start else next_right_pos(end) selected by exactly that comparison (progress), find_from reaches the "
            "matcher only through the boundary check, the whole text and the unmodified start reach the executor, Matches::next feeds `position` "
            "back as the out-parameter, initial_position is try_move_right(left_end, offset) (PLUMB).",
    "note": COMMON_NOTE + "Not decided: equality of the sequence with the unfold of first-match, which inherits C01.",
    "technique": "MIR must-pass-through (dominators / reachability with cut sets) + value-flow of the stored cursor",
}


CLAIMS["C10"] = {
    "text": "Decides, from the extracted constants, that FOLDS / TO_UPPERCASE are well-formed (sorted, disjoint, stride and packing valid: the "
            "precondition of the binary searches), that the largest equivalence class fits MAX_CHAR_SET_LENGTH, that on ASCII they equal what the "
            "ASCII executor hard-codes, that the \\b table equals {c >= 0x80 : fold(c) is an ASCII word char} derived from FOLDS, that the legacy "
            "non-ASCII-to-ASCII exclusion guards every use of TO_UPPERCASE, and UAX #44 identities tying the case tables to the binary "
            "properties. The legacy class closure (add_icase_code_points reaches only FOLDS) is reported as a known finding.",
    "note": COMMON_NOTE + "Also decided: CharSet members come only from the fold tables (CASESRC), icase backreferences are decided by folded code-point comparison and never by encoded length (BACKREFI), add_delta is only applied to stride-aligned code points (STRIDE). Not decided: equality of the tables with Unicode 17 CaseFolding.txt / UnicodeData.txt (no copy offline; identities only catch internal inconsistency).",
    "technique": "interval/table algebra over constants extracted from the type-checked crate + MIR value-flow for the legacy guard + call-graph reachability to tables",
    "design_ref": "DESIGN.md §3 TABLES/WIRING, §4 C10",
}


CLAIMS["C17"] = {
    "text": "Decides the splice loops of replace / replace_with / replace_all / replace_all_with: the haystack is only sliced as the gap before a "
            "match and the tail after the last one, the cursor only ever moves to m.end(), and gap, insertion and cursor update happen in that "
            "order on every path (SPLICE) - so unmatched text is preserved byte for byte whatever the template expands to.",
    "note": COMMON_NOTE + "Also decided: no path of the loop over matches skips the gap copy, the insertion or the cursor update (no match left unreplaced), and the `$` template scanner only discards a character it recognised through a peek test (SCANNER). Not decided: the numeric/name interpretation inside the template scanner (value-level) and the match sequence itself (C01/C09).",
    "technique": "MIR value-flow + dominators over the slicing calls and cursor updates of the four replace functions",
}
CLAIMS["C18"] = {
    "text": "Decides that escape() is sufficient and faithful by table agreement: the characters Parser::consume_term treats specially are a subset of "
            "those escape() prefixes, each of which has an unconditional identity escape in consume_character_escape and is not special after a "
            "backslash; every loop iteration of escape() pushes the character itself exactly once (ESCAPE).",
    "note": COMMON_NOTE + "Not decided: that the escaped pattern then matches like substring search (inherits C01/C10).",
    "technique": "HIR literal-pattern tables of three functions cross-checked (S <= E <= I) + push-sequence check per match arm",
}


CLAIMS["C15"] = {
    "text": "Decides that feature switches select equivalent code: both arms of every cfg!(feature) conditional are equal under the reviewed "
            "checked/unchecked idiom table (TWIN); every function has the same normalised HIR in the default, prohibit-unsafe, index-positions, "
            "both, and no-std+alloc configurations apart from two named position accessors (XCONFIG) - and a configuration that fails to type-check "
            "is itself a violation; IndexPosition and RefPosition operators normalise to the same ADD/SUB/DIFF forms (POSSIB); no HashMap iteration "
            "order leaks (HASHITER); every cfg site is classified (CFGINV); decoder twins also agree under index positions (SIBPOS) and the utf16 "
            "literal lowering is direction-aware (LBSEQ).",
    "note": COMMON_NOTE + "The non-idiom twin ByteBitmap::find_in (linear scan vs align_to chunks) is not compared as a tree; BITGEOM decides that the chunked arm uses the bit geometry of `contains`. BACKREFI decides that positions are only walked through the indexer they came from (index-positions), COMMUTE that the default-only prefilter join is symmetric. Not decided: equivalence of the two "
            "literal lowerings (utf16 vs byte), which are different algorithms.",
    "technique": "normalised-HIR tree comparison across feature configurations with a reviewed idiom table (each configuration type-checked by the driver)",
}
CLAIMS["C20"] = {
    "text": "Decides, in the nightly `pattern` configuration that the baseline never builds, the adjacency clause of the Searcher contract on every "
            "path of next/next_back: each emitted step starts at the cursor and the cursor stored equals the step's end (TILING, symbolic path "
            "summaries); the regex is only run through find_from on the whole haystack at the cursor. The empty-match advance (cursor moved past the "
            "step without emitting one) is reported as the two known findings quoted in the property.",
    "note": COMMON_NOTE + "Also decided: the searcher starts un-exhausted at 0 / haystack.len() (INIT) and every +-1 walk off a UTF-8 interior tests is_char_boundary on the offset it steps (BOUND). Not decided: that next_back visits the same matches as find_iter, and char-boundary-ness of the match bounds themselves (inherits C06/C09).",
    "technique": "symbolic path summaries of the searcher step functions (cursor value vs. emitted step bounds) under cargo +nightly --features pattern",
}

PENDING = "rules for this property are designed (DESIGN.md §3/§4) but not built yet; nothing is claimed until they exist"

NOT_APPLICABLE = {("C%02d" % i): PENDING for i in range(1, 21)}
NOT_APPLICABLE["C08"] = ("acceptance is decided character by character by a hand-written recursive-descent parser; both directions of "
                         "L(parser) = L(ES grammar) range over all strings and no clause of it is visible in code shape (DESIGN.md §4 C08)")

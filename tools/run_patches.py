#!/usr/bin/env python3
"""Fast regression over seeded/ and neutral/: like run_seeded.py / run_neutral.py but each patch is applied to its own
scratch copy of /repo (VERIF_REPO), several in parallel, so /repo is never touched.
    tools/run_patches.py seeded|neutral [id-substring ...]      (results are printed and merged into <kind>/RESULTS.json)
The registered way to try a patch remains: git -C /repo apply <patch>; bin/check ...; git -C /repo checkout -- ."""
import concurrent.futures, json, os, shutil, subprocess, sys, tempfile
VERIF = os.path.dirname(os.path.dirname(os.path.abspath(__file__)))
kind = sys.argv[1]
sel = sys.argv[2:]
# the checks are run from a snapshot of the rule set taken now, so rules can be edited while a long regression is running
SNAP = tempfile.mkdtemp(prefix="verif-snap-", dir=os.environ.get("VERIF_SCRATCH", "/tmp"))
CHK = os.path.join(SNAP, "verif")
shutil.copytree(VERIF, CHK, symlinks=True, ignore=shutil.ignore_patterns(".git", "seeded", "neutral", "evidence", "canaries", "driver", "__pycache__"))
os.symlink(os.path.join(VERIF, "driver"), os.path.join(CHK, "driver"))
man = json.load(open(os.path.join(VERIF, "MANIFEST.json")))
props = [c["property_id"] for c in man["checks"]]
sd = os.path.join(VERIF, kind)
ids = [d for d in sorted(os.listdir(sd)) if os.path.exists(os.path.join(sd, d, "patch.diff")) and (not sel or any(s in d for s in sel))]


def one(sid):
    tmp = tempfile.mkdtemp(prefix="regress-patch-", dir=os.environ.get("VERIF_SCRATCH", "/tmp"))
    try:
        repo = os.path.join(tmp, "repo")
        shutil.copytree("/repo", repo, ignore=shutil.ignore_patterns("target", ".git"))
        p = subprocess.run(["git", "apply", os.path.join(sd, sid, "patch.diff")], cwd=repo, capture_output=True, text=True)
        if p.returncode != 0:
            return sid, None, "patch does not apply: " + p.stderr[-200:]
        env = dict(os.environ, VERIF_REPO=repo, VERIF_EVIDENCE_DIR=os.path.join(tmp, "ev"))
        env.pop("VERIF_FACTS_CACHE", None)
        fired = {}

        def run(pr):
            q = subprocess.run([os.path.join(CHK, "bin", "check"), pr, "--tier", "quick"], cwd=CHK, env=env, capture_output=True, text=True)
            return pr, q
        with concurrent.futures.ThreadPoolExecutor(max_workers=4) as inner:
            for pr, q in inner.map(run, props):
                if q.returncode != 0:
                    fired[pr] = [l.strip()[5:] for l in q.stdout.splitlines() if l.strip().startswith("key: ")] or ["(fail closed)"]
        return sid, fired, None
    finally:
        shutil.rmtree(tmp, ignore_errors=True)


bad = 0
res_path = os.path.join(sd, "RESULTS.json")
results = json.load(open(res_path)) if os.path.exists(res_path) else {}
with concurrent.futures.ThreadPoolExecutor(max_workers=int(os.environ.get("VERIF_JOBS", "4"))) as ex:
    for sid, fired, err in ex.map(one, ids):
        if err:
            print(sid, "ERROR", err)
            bad += 1
        elif kind == "seeded":
            results[sid] = {"fired": fired, "caught": bool(fired)}
            print(sid, ("CAUGHT by " + ", ".join("%s[%s]" % (k, "; ".join(v)[:90]) for k, v in fired.items())) if fired else "MISSED")
            bad += 0 if fired else 1
        else:
            results[sid] = {"fired": fired, "false_alarm": bool(fired)}
            print(sid, ("FALSE ALARM by " + ", ".join("%s[%s]" % (k, "; ".join(v)[:120]) for k, v in fired.items())) if fired else "silent (correct)")
            bad += 1 if fired else 0
if os.environ.get("VERIF_WRITE_RESULTS", "1") == "1":
    json.dump(results, open(res_path, "w"), indent=1, sort_keys=True)
shutil.rmtree(SNAP, ignore_errors=True)
print("%s: %d patches, %d %s" % (kind, len(ids), bad, "missed" if kind == "seeded" else "false alarms"))

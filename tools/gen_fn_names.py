#!/usr/bin/env python3
"""Record the def-path and signature of every function of the crate in every analysed configuration
(tables/fn_names.json). The table is used for one thing only: when a function a rule is anchored to is missing, a
function that is new and has the recorded signature is recognised as the renamed/moved anchor (core.apply_renames).
It never produces a finding by itself. Regenerate after reviewing an intentional signature change:
    python3 tools/gen_fn_names.py"""
import json, os, sys
sys.path.insert(0, os.path.dirname(os.path.dirname(os.path.abspath(__file__))))
from rules import core, registry

out = {}
for cfg in registry.ALL_CONFIGS:
    data = core.extract(cfg)
    if cfg == "alloc":
        data = core.std_paths(data)
    for path, f in data["fns"].items():
        if f.get("kind") not in ("fn", "assocfn") or "{closure" in path or "unicodetables" in (f.get("file") or ""):
            continue
        e = out.setdefault(path, {"inputs": f.get("inputs"), "output": f.get("output"), "impl_self": f.get("impl_self"),
                                  "impl_trait": f.get("impl_trait"), "configs": []})
        e["configs"].append(cfg)
json.dump(out, open(os.path.join(core.VERIF, "tables", "fn_names.json"), "w"), indent=0, sort_keys=True)
fields = {}
for cfg in registry.ALL_CONFIGS:
    data = core.extract(cfg)
    if cfg == "alloc":
        data = core.std_paths(data)
    for path, a in data["adts"].items():
        if "unicodetables" in (a.get("file") or ""):
            continue
        for v in a.get("variants", []):
            fl = [[f["name"], f["ty"]] for f in v.get("fields", []) if not f["name"].isdigit()]
            if fl:
                fields.setdefault(path, {}).setdefault(v["name"], fl)
json.dump(fields, open(os.path.join(core.VERIF, "tables", "field_names.json"), "w"), indent=0, sort_keys=True)
print("recorded fields of", len(fields), "types")
print("recorded", len(out), "functions")

#!/usr/bin/env python3
"""Regenerate MANIFEST.json from rules/registrations.py and tools/manifest_text.py."""
import json, os, sys
sys.path.insert(0, os.path.dirname(os.path.dirname(os.path.abspath(__file__))))
from rules import registry
from tools import manifest_text as T

registry._register_all()
ALL = ["C%02d" % i for i in range(1, 21)]
checks = []
for p in ALL:
    if p not in registry.PROPS or p not in T.CLAIMS:
        continue
    c = T.CLAIMS[p]
    checks.append({
        "property_id": p,
        "quick_cmd": "bin/check %s --tier quick" % p,
        "thorough_cmd": "bin/check %s --tier thorough" % p,
        "evidence_file": "/verif/evidence/%s.json" % p,
        "replay_cmd_template": "bin/check %s --explain {path}" % p,
        "engine": "regress-facts + rules",
        "level_claimed": {"category": registry.PROPS[p]["level"], "text": c["text"], "design_ref": c.get("design_ref", "DESIGN.md §4 " + p)},
        "level_note": c["note"],
        "technique": c["technique"],
    })
na = [{"property_id": p, "reason": T.NOT_APPLICABLE[p]} for p in ALL if p not in [c["property_id"] for c in checks]]
m = {
    "version": 1,
    "setup_cmd": "cd driver && CARGO_NET_OFFLINE=true cargo +nightly build --release --offline",
    "hooks": {
        "guard": "regress_verif",
        "enable": "none needed: the checks only read /repo (rustc_private fact extractor injected with RUSTC_WORKSPACE_WRAPPER); no source hooks exist",
        "baseline_off_cmd": "cd /repo && cargo nextest run --workspace --no-fail-fast --tool-config-file pb:/w/lib/nextest.toml --profile pb --test-threads 8 --offline",
        "source_commits": [],
        "add_only": True,
    },
    "engines": [
        {"name": "regress-facts", "path": "driver/", "serves_properties": [c["property_id"] for c in checks],
         "kind_free_text": "rustc_private driver: type-checks /repo per feature configuration and dumps MIR/HIR/type/constant facts as JSON"},
        {"name": "rules", "path": "rules/", "serves_properties": [c["property_id"] for c in checks],
         "kind_free_text": "repository-specific static rules (dataflow, dominators, call graph, sibling cross-checks, table algebra) over the facts"},
    ],
    "checks": checks,
    "not_applicable": na,
    "notes": T.NOTES,
}
with open(os.path.join(os.path.dirname(__file__), "..", "MANIFEST.json"), "w") as fh:
    json.dump(m, fh, indent=1)
print("claimed:", [c["property_id"] for c in checks], "n/a:", [x["property_id"] for x in na])

#!/usr/bin/env python3
"""Regenerate MANIFEST.json from rules/registrations.py and tools/manifest_text.py."""
import json, os, sys
sys.path.insert(0, os.path.dirname(os.path.dirname(os.path.abspath(__file__))))
from rules import registry
from tools import manifest_text as T

registry._register_all()
ALL = ["C%02d" % i for i in range(1, 21)]
RULE_NAME = {
    ("undo", "check"): "UNDO", ("undo", "check_iddata"): "IDDATA", ("scm", "check"): "SCM", ("scm", "check_narrow"): "NARROW",
    ("lbseq", "check"): "LBSEQ", ("mirror", "check"): "MIRROR", ("mirror", "check_dirstate"): "DIRSTATE", ("arm", "check"): "ARM",
    ("plumb", "check"): "PLUMB", ("opsib", "check"): "OPSIB", ("sibpos", "check"): "SIBPOS", ("bts", "check"): "BTS",
    ("panics", "check_match"): "PANICS", ("panics", "check_compile"): "PANICS", ("recguard", "check"): "RECGUARD",
    ("recguard", "check_limits"): "LIMITS", ("mustuse", "check"): "MUSTUSE", ("strsort", "check"): "STRSORT", ("negstr", "check"): "NEGSTR",
    ("names", "check"): "NAMES", ("types", "check"): "TYPES", ("tiling", "check"): "TILING", ("backref", "check"): "BACKREFI",
    ("commute", "check"): "COMMUTE", ("propneg", "check"): "PROPNEG", ("truncast", "check"): "TRUNCAST", ("bitgeom", "check"): "BITGEOM",
    ("tables", "check_wellformed"): "TABLES", ("tables", "check_mode"): "FOLDMODE", ("tables", "check_identities"): "UAX44",
    ("tables", "check_wiring"): "WIRING", ("tables", "check_stride"): "STRIDE", ("apirules", "check_splice"): "SPLICE",
    ("apirules", "check_escape"): "ESCAPE", ("apirules", "check_scanner"): "SCANNER", ("twin", "check_twin"): "TWIN",
    ("twin", "check_xconfig"): "XCONFIG", ("twin", "check_possib"): "POSSIB", ("twin", "check_hashiter"): "HASHITER",
    ("twin", "check_cfginv"): "CFGINV", ("twin", "check_countsib"): "COUNTSIB", ("twin", "check_unfoldsib"): "UNFOLDSIB",
    ("twin", "check_surrsib"): "SURRSIB", ("peeked", "check"): "PEEKED", ("indexguard", "check"): "INDEXGUARD", ("bitpack", "check"): "BITPACK", ("rewind", "check"): "REWIND", ("classesc", "check"): "CLASSESCB", ("nestedcover", "check"): "NESTEDCOVER", ("arm", "check_removeempty"): "REMOVEEMPTY", ("sibpos", "check_crossimpl"): "CROSSIMPL", ("coverall", "check"): "COVERALL", ("flagsrc", "check"): "FLAGSRC",
}


def rules_of(p):
    out = []
    for r in registry.PROPS[p]["rules"]:
        k = (r["module"], r["fn"])
        n = RULE_NAME.get(k) or (r["fn"][len("check_"):].upper() if r["module"] == "extra" else None)
        assert n, k
        cfg = "" if r["configs"] == ("default",) else "[" + ",".join(r["configs"]) + "]"
        if n + cfg not in out:
            out.append(n + cfg)
    return out
checks = []
for p in ALL:
    if p not in registry.PROPS or p not in T.CLAIMS:
        continue
    c = T.CLAIMS[p]
    checks.append({
        "property_id": p,
        "quick_cmd": "bin/check %s --tier quick" % p,
        "thorough_cmd": "bin/check %s --tier thorough" % p,
        "evidence_file": "/verif/evidence/%s.json" % p,
        "replay_cmd_template": "bin/check %s --explain {path}" % p,
        "engine": "regress-facts + rules",
        "level_claimed": {"category": registry.PROPS[p]["level"],
                          "text": c["text"] + " Rules run (DESIGN.md §3; quick = listed configurations, thorough = every rule on all seven "
                                              "feature configurations): " + ", ".join(rules_of(p)) + ".", "design_ref": c.get("design_ref", "DESIGN.md §4 " + p)},
        "level_note": c["note"],
        "technique": c["technique"],
    })
na = [{"property_id": p, "reason": T.NOT_APPLICABLE[p]} for p in ALL if p not in [c["property_id"] for c in checks]]
m = {
    "version": 1,
    "setup_cmd": "cd driver && CARGO_NET_OFFLINE=true cargo +nightly build --release --offline",
    "hooks": {
        "guard": "regress_verif",
        "enable": "none needed: the checks only read /repo (rustc_private fact extractor injected with RUSTC_WORKSPACE_WRAPPER); no source hooks exist",
        "baseline_off_cmd": "cd /repo && cargo nextest run --workspace --no-fail-fast --tool-config-file pb:/w/lib/nextest.toml --profile pb --test-threads 8 --offline",
        "source_commits": [],
        "add_only": True,
    },
    "engines": [
        {"name": "regress-facts", "path": "driver/", "serves_properties": [c["property_id"] for c in checks],
         "kind_free_text": "rustc_private driver: type-checks /repo per feature configuration and dumps MIR/HIR/type/constant facts as JSON"},
        {"name": "rules", "path": "rules/", "serves_properties": [c["property_id"] for c in checks],
         "kind_free_text": "repository-specific static rules (dataflow, dominators, call graph, sibling cross-checks, table algebra) over the facts"},
    ],
    "checks": checks,
    "not_applicable": na,
    "notes": T.NOTES,
}
with open(os.path.join(os.path.dirname(__file__), "..", "MANIFEST.json"), "w") as fh:
    json.dump(m, fh, indent=1)
print("claimed:", [c["property_id"] for c in checks], "n/a:", [x["property_id"] for x in na])

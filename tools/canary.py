#!/usr/bin/env python3
"""Self-test of the rules: apply one small edit to a scratch copy of /repo, run a check against the
copy and require that it reports the edited instance.  tools/canary.py [name-substring ...]
Canaries never touch /repo, /verif/evidence or the exit status of a registered check."""
import json, os, shutil, subprocess, sys, tempfile, time
VERIF = os.path.dirname(os.path.dirname(os.path.abspath(__file__)))
REPO = "/repo"

def run_one(c, keep=False):
    tmp = tempfile.mkdtemp(prefix="regress-canary-", dir=os.environ.get("VERIF_SCRATCH", "/tmp"))
    repo = os.path.join(tmp, "repo")
    try:
        shutil.copytree(REPO, repo, ignore=shutil.ignore_patterns("target", ".git"))
        for e in c["edits"]:
            path = os.path.join(repo, e["file"])
            s = open(path).read()
            n = s.count(e["find"])
            if n != e.get("count", 1):
                return {"name": c["name"], "status": "skipped", "why": "edit anchor found %d times in %s" % (n, e["file"])}
            s = s.replace(e["find"], e["replace"])
            open(path, "w").write(s)
        ev = os.path.join(tmp, "evidence")
        env = dict(os.environ, VERIF_REPO=repo, VERIF_EVIDENCE_DIR=ev)
        env.pop("VERIF_FACTS_CACHE", None)
        out = []
        fired = False
        named = False
        for prop in c["properties"]:
            p = subprocess.run([os.path.join(VERIF, "bin", "check"), prop, "--tier", "quick"], env=env, cwd=VERIF,
                               stdout=subprocess.PIPE, stderr=subprocess.STDOUT, text=True)
            out.append(p.stdout)
            if p.returncode == 1 and "VIOLATION property=%s" % prop in p.stdout:
                fired = True
                if all(x in p.stdout for x in c["expect"]):
                    named = True
            if "does not type-check" in p.stdout and not c.get("may_not_compile"):
                return {"name": c["name"], "status": "broken-canary", "why": "edited tree does not compile", "out": p.stdout[-1500:]}
        st = "fired" if (fired and named) else ("fired-unnamed" if fired else "MISSED")
        return {"name": c["name"], "status": st, "rule": c.get("rule"), "out": "" if st == "fired" else "\n".join(out)[-2500:]}
    finally:
        shutil.rmtree(tmp, ignore_errors=True)

def main():
    cs = json.load(open(os.path.join(VERIF, "canaries", "canaries.json")))
    sel = sys.argv[1:]
    if sel:
        cs = [c for c in cs if any(s in c["name"] for s in sel)]
    import concurrent.futures
    t0 = time.time()
    with concurrent.futures.ThreadPoolExecutor(max_workers=6) as ex:
        res = list(ex.map(run_one, cs))
    bad = 0
    for r in res:
        print("%-14s %s%s" % (r["status"], r["name"], (" :: " + r.get("why", "")) if r.get("why") else ""))
        if r["status"] not in ("fired", "skipped"):
            bad += 1
            print(r.get("out", ""))
    print("canaries: %d run, %d not fired as expected, %.0fs" % (len(res), bad, time.time() - t0))
    json.dump(res, open(os.path.join(VERIF, "canaries", "last_run.json"), "w"), indent=1)
    return 1 if bad else 0

if __name__ == "__main__":
    sys.exit(main())

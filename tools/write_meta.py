#!/usr/bin/env python3
"""Write seeded/<id>/meta.json (from notes.txt, verify.log, seeded/RESULTS.json) and neutral/<id>/meta.json (from notes.txt, neutral/RESULTS.json)."""
import json, os, re, sys
VERIF = os.path.dirname(os.path.dirname(os.path.abspath(__file__)))
sd = os.path.join(VERIF, "seeded")
res = json.load(open(os.path.join(sd, "RESULTS.json")))
for sid in sorted(os.listdir(sd)):
    d = os.path.join(sd, sid)
    if not os.path.isdir(d):
        continue
    mp = os.path.join(d, "meta.json")
    old = json.load(open(mp)) if os.path.exists(mp) else {}
    notes = open(os.path.join(d, "notes.txt")).read() if os.path.exists(os.path.join(d, "notes.txt")) else ""
    need = old.get("needs_to_manifest")
    if not need:
        m = re.search(r"(?im)^.*(needed to manifest|needs to manifest|what it needs|to manifest)[^\n]*\n?((?:.+\n?)+)", notes)
        if m:
            head = m.group(0).split("\n")[0]
            body = " ".join(x.strip() for x in m.group(2).split("\n") if x.strip())
            need = (head.split(":", 1)[1].strip() + " " if ":" in head and head.split(":", 1)[1].strip() else "") + body
            need = need[:600]
        else:
            need = " ".join(notes.split())[:400]
    vl = os.path.join(d, "verify.log")
    vr = [l.strip() for l in open(vl) if l.startswith("RESULT")][-1] if os.path.exists(vl) else old.get("verify_result", "")
    files = sorted(set(re.findall(r"^\+\+\+ b/(\S+)", open(os.path.join(d, "patch.diff")).read(), re.M)))
    rr = res.get(sid, {})
    meta = {
        "id": sid,
        "property": sid.split("-")[0],
        "round": int(re.search(r"-r(\d+)", sid).group(1)) if re.search(r"-r(\d+)", sid) else 1,
        "origin": "independent sub-agent given only the property text and its own scratch worktree of /repo",
        "files_changed": files,
        "needs_to_manifest": need,
        "confirmed_by": "tools/verify_seed.sh %s (scratch worktree /tmp/wt-verify at the /repo HEAD of that time): patch applies, demo passes "
                        "without and fails with the change, full suite 531/531 with the change" % sid,
        "verify_result": vr,
        "checks_run": "tools/run_seeded.py (git -C /repo apply; every claimed quick check; git -C /repo checkout -- .)",
        "caught": bool(rr.get("caught")),
        "caught_by": rr.get("fired", {}),
    }
    if not meta["caught"]:
        meta["missed_because"] = old.get("missed_because", "")
    json.dump(meta, open(mp, "w"), indent=1)
print("meta written for", len([x for x in os.listdir(sd) if os.path.isdir(os.path.join(sd, x))]))

# neutral/<id>/meta.json
nd = os.path.join(VERIF, "neutral")
nres = json.load(open(os.path.join(nd, "RESULTS.json")))
n = 0
for nid in sorted(os.listdir(nd)):
    d = os.path.join(nd, nid)
    if not os.path.isdir(d) or not os.path.exists(os.path.join(d, "patch.diff")):
        continue
    notes = open(os.path.join(d, "notes.txt")).read() if os.path.exists(os.path.join(d, "notes.txt")) else ""
    files = sorted(set(re.findall(r"^\+\+\+ b/(\S+)", open(os.path.join(d, "patch.diff")).read(), re.M)))
    rr = nres.get(nid, {})
    meta = {
        "id": nid,
        "kind": "behaviour-preserving refactoring written by an independent sub-agent (saw only the repository); the agent built the "
                "feature configurations and ran the 531-test suite with it",
        "files_changed": files,
        "summary": " ".join(notes.split())[:260],
        "checks_run": "tools/run_neutral.py / tools/run_patches.py neutral (every claimed quick check against the patched tree)",
        "false_alarm_now": bool(rr.get("false_alarm")),
        "fired_now": rr.get("fired", {}),
    }
    json.dump(meta, open(os.path.join(d, "meta.json"), "w"), indent=1)
    n += 1
print("neutral meta written for", n)

#!/bin/bash
# tools/verify_seed.sh <id> <dir with patch.diff demo.rs notes.txt> [cargo test extra args for the demo...]
# Confirms a seeded change in a scratch worktree of /repo (never in /repo itself): it applies to HEAD,
# compiles, the full suite passes with it, the demo fails with it and passes without it.
set -u
ID=$1; SRC=$2; shift 2; EXTRA="$@"
WT=/tmp/wt-verify
OUT=/verif/seeded/$ID
mkdir -p $OUT
cp $SRC/patch.diff $OUT/patch.diff; cp $SRC/demo.rs $OUT/demo.rs; [ -f $SRC/notes.txt ] && cp $SRC/notes.txt $OUT/notes.txt
if [ ! -d $WT ]; then git -C /repo worktree add -q --detach $WT HEAD; fi
cd $WT && git checkout -q --detach $(git -C /repo rev-parse HEAD) && git checkout -q -- . && git clean -fdq -e target
LOG=$OUT/verify.log; : > $LOG
echo "repo HEAD: $(git rev-parse --short HEAD)" >> $LOG
cp $OUT/demo.rs tests/seed_demo.rs
echo "== demo WITHOUT the change" >> $LOG
cargo ${TOOLCHAIN:-} test --offline --test seed_demo $EXTRA >> $LOG 2>&1; RC_CLEAN=$?
echo "rc=$RC_CLEAN" >> $LOG
if ! git apply --check $OUT/patch.diff 2>>$LOG; then echo "RESULT $ID: patch does not apply to HEAD" | tee -a $LOG; rm -f tests/seed_demo.rs; exit 1; fi
git apply $OUT/patch.diff
echo "== demo WITH the change" >> $LOG
timeout 600 cargo ${TOOLCHAIN:-} test --offline --test seed_demo $EXTRA >> $LOG 2>&1; RC_MUT=$?
echo "rc=$RC_MUT" >> $LOG
rm -f tests/seed_demo.rs
echo "== full suite WITH the change" >> $LOG
cargo nextest run --workspace --no-fail-fast --tool-config-file pb:/w/lib/nextest.toml --profile pb --test-threads 8 --offline > $LOG.suite 2>&1
if grep -q "SIGTERM" $LOG.suite; then
  # a stray SIGTERM from another job in the sandbox killed a test process: not a verdict, run again
  echo "(suite run hit a stray SIGTERM; repeated)" >> $LOG
  cargo nextest run --workspace --no-fail-fast --tool-config-file pb:/w/lib/nextest.toml --profile pb --test-threads 8 --offline > $LOG.suite 2>&1
fi
tail -3 $LOG.suite >> $LOG; rm -f $LOG.suite
SUITE=$(grep -c "531 passed" $LOG)
git checkout -q -- . ; git clean -fdq -e target
echo "RESULT $ID: demo_clean_rc=$RC_CLEAN demo_mutant_rc=$RC_MUT suite_531_passed=$SUITE" | tee -a $LOG

#!/usr/bin/env python3
"""Run the registered checks against every behaviour-preserving (neutral) change: apply neutral/<id>/patch.diff to /repo,
run every claimed property's quick check, undo with `git checkout -- .`. Writes neutral/RESULTS.json."""
import json, os, subprocess, sys, tempfile
VERIF = os.path.dirname(os.path.dirname(os.path.abspath(__file__)))
man = json.load(open(os.path.join(VERIF, "MANIFEST.json")))
props = [c["property_id"] for c in man["checks"]]
sel = sys.argv[1:]
sd = os.path.join(VERIF, "neutral")
res_path = os.path.join(sd, "RESULTS.json")
results = json.load(open(res_path)) if os.path.exists(res_path) else {}
assert subprocess.run(["git", "-C", "/repo", "status", "--porcelain", "--untracked-files=no"], capture_output=True, text=True).stdout.strip() == "", "/repo not clean"
ev = tempfile.mkdtemp(prefix="neutral-ev-")
for sid in sorted(os.listdir(sd)):
    d = os.path.join(sd, sid)
    if not os.path.isdir(d) or not os.path.exists(os.path.join(d, "patch.diff")):
        continue
    if sel and not any(s in sid for s in sel):
        continue
    p = subprocess.run(["git", "-C", "/repo", "apply", os.path.join(d, "patch.diff")], capture_output=True, text=True)
    if p.returncode != 0:
        results[sid] = {"error": "patch does not apply: " + p.stderr[-300:]}
        print(sid, "PATCH DOES NOT APPLY")
        continue
    try:
        fired = {}
        env = dict(os.environ, VERIF_EVIDENCE_DIR=ev)
        env.pop("VERIF_FACTS_CACHE", None)
        import concurrent.futures
        def run(pr):
            q = subprocess.run([os.path.join(VERIF, "bin", "check"), pr, "--tier", "quick"], cwd=VERIF, env=env, capture_output=True, text=True)
            keys = [l.strip()[5:] for l in q.stdout.splitlines() if l.strip().startswith("key: ")]
            return pr, q.returncode, keys
        with concurrent.futures.ThreadPoolExecutor(max_workers=8) as ex:
            for pr, rc, keys in ex.map(run, props):
                if rc != 0:
                    fired[pr] = keys
        results[sid] = {"fired": fired, "false_alarm": bool(fired)}
        print(sid, "FALSE ALARM by " + ", ".join("%s[%s]" % (k, "; ".join(v)[:140]) for k, v in fired.items()) if fired else "silent (correct)")
    finally:
        subprocess.run(["git", "-C", "/repo", "checkout", "--", "."], check=True)
json.dump(results, open(res_path, "w"), indent=1, sort_keys=True)

#!/bin/bash
# Run every claimed check (quick tier by default) against /repo, validate evidence against the schema.
TIER=${1:-quick}
cd /verif
PROPS=$(python3 -c "import json; print(' '.join(c['property_id'] for c in json.load(open('MANIFEST.json'))['checks']))")
rc=0
for p in $PROPS; do
  out=$(bin/check $p --tier $TIER 2>&1); r=$?
  echo "$out" | grep -E "^(VIOLATION|checked)" | cut -c1-200
  if [ $r -ne 0 ]; then rc=1; fi
done
python3-vt - <<'PY'
import json, jsonschema, glob
sch = json.load(open('/root/.vp/EVIDENCE.schema.json'))
man = json.load(open('/verif/MANIFEST.json'))
jsonschema.validate(man, json.load(open('/root/.vp/MANIFEST.schema.json')))
for c in man['checks']:
    ev = json.load(open(c['evidence_file']))
    jsonschema.validate(ev, sch)
    assert ev['level'] == c['level_claimed']['category'], (c['property_id'], ev['level'])
print("manifest + %d evidence files valid" % len(man['checks']))
PY
exit $rc

//! Constants and statics: literal initialisers in compact form, plus surviving #[cfg] traces.

use crate::hirdump::{lit_json, HCx};
use crate::json::J;
use crate::jobj;
use crate::mirdump::{def_str, span_loc, ty_str};
use rustc_hir as hir;
use rustc_hir::def::{DefKind, Res};
use rustc_middle::ty::{TyCtxt, TypeckResults};

fn strip<'a, 'tcx>(mut e: &'a hir::Expr<'tcx>) -> &'a hir::Expr<'tcx> {
    loop {
        match &e.kind {
            hir::ExprKind::AddrOf(_, _, x) | hir::ExprKind::DropTemps(x) | hir::ExprKind::Use(x, _) => e = x,
            hir::ExprKind::Cast(x, _) | hir::ExprKind::Type(x, _) => e = x,
            hir::ExprKind::Block(b, _) if b.stmts.is_empty() && b.expr.is_some() => e = b.expr.unwrap(),
            _ => return e,
        }
    }
}

fn int_lit(e: &hir::Expr<'_>) -> Option<i128> {
    let e = strip(e);
    match &e.kind {
        hir::ExprKind::Lit(l) => match l.node {
            rustc_ast::ast::LitKind::Int(n, _) => Some(n.get() as i128),
            rustc_ast::ast::LitKind::Char(c) => Some(c as u32 as i128),
            rustc_ast::ast::LitKind::Byte(b) => Some(b as i128),
            _ => None,
        },
        hir::ExprKind::Unary(hir::UnOp::Neg, x) => int_lit(x).map(|v| -v),
        _ => None,
    }
}

/// Compact row encoding of one array element: a call with literal-int arguments, a nested
/// array/slice of literal ints, or a single literal int. `None` if the element is anything else.
fn row<'tcx>(tcx: TyCtxt<'tcx>, tr: &'tcx TypeckResults<'tcx>, e: &hir::Expr<'tcx>, ctor: &mut Option<String>) -> Option<J> {
    let e = strip(e);
    if let Some(v) = int_lit(e) {
        return Some(J::Num(v));
    }
    match &e.kind {
        hir::ExprKind::Call(f, args) => {
            if let hir::ExprKind::Path(qp) = &f.kind {
                if let Res::Def(_, did) = tr.qpath_res(qp, f.hir_id) {
                    let p = def_str(tcx, did);
                    *ctor = Some(p);
                    let mut vals = Vec::new();
                    for a in *args {
                        vals.push(J::Num(int_lit(a)?));
                    }
                    return Some(J::Arr(vals));
                }
            }
            None
        }
        hir::ExprKind::Array(xs) => {
            let mut vals = Vec::new();
            for x in *xs {
                vals.push(J::Num(int_lit(x)?));
            }
            Some(J::Arr(vals))
        }
        hir::ExprKind::Struct(qp, fields, _) => {
            // struct literal with literal fields: values in field-name order
            if let Res::Def(_, did) = tr.qpath_res(qp, e.hir_id) {
                let p = format!("struct:{}", def_str(tcx, did));
                *ctor = Some(p);
                let mut fs: Vec<(&str, i128)> = Vec::new();
                for f in *fields {
                    fs.push((f.ident.name.as_str(), int_lit(f.expr)?));
                }
                fs.sort();
                return Some(J::Arr(fs.into_iter().map(|(_, v)| J::Num(v)).collect()));
            }
            None
        }
        _ => None,
    }
}

pub fn consts(tcx: TyCtxt<'_>) -> J {
    let mut out = Vec::new();
    for ldid in tcx.hir_body_owners() {
        let did = ldid.to_def_id();
        let kind = tcx.def_kind(did);
        let kstr = match kind {
            DefKind::Const { .. } => "const",
            DefKind::AssocConst { .. } => "assocconst",
            DefKind::Static { .. } => "static",
            _ => continue,
        };
        let Some(body) = tcx.hir_maybe_body_owned_by(ldid) else { continue };
        let tr = tcx.typeck(ldid);
        let ty = tcx.type_of(did).instantiate_identity().skip_norm_wip();
        let (file, lo, hi) = span_loc(tcx, tcx.def_span(did).to(body.value.span));
        let mut o = vec![
            ("kind".to_string(), J::s(kstr)),
            ("ty".to_string(), J::s(ty_str(ty))),
            ("file".to_string(), J::s(file)),
            ("lo".to_string(), J::n(lo as i128)),
            ("hi".to_string(), J::n(hi as i128)),
        ];
        let v = strip(body.value);
        let mut done = false;
        if let hir::ExprKind::Array(elems) = &v.kind {
            let mut rows = Vec::new();
            let mut ctors: Vec<Option<String>> = Vec::new();
            let mut ok = true;
            for e in *elems {
                let mut ctor = None;
                match row(tcx, tr, e, &mut ctor) {
                    Some(r) => {
                        rows.push(r);
                        ctors.push(ctor);
                    }
                    None => {
                        ok = false;
                        break;
                    }
                }
            }
            if ok {
                o.push(("rows".to_string(), J::Arr(rows)));
                let uniform = ctors.windows(2).all(|w| w[0] == w[1]);
                if uniform {
                    o.push(("ctor".to_string(), ctors.first().cloned().flatten().map(J::Str).unwrap_or(J::Null)));
                } else {
                    o.push(("ctor".to_string(), J::s("mixed")));
                    o.push(("row_ctors".to_string(), J::Arr(ctors.into_iter().map(|c| c.map(J::Str).unwrap_or(J::Null)).collect())));
                }
                done = true;
            }
        }
        if !done {
            if let Some(i) = int_lit(v) {
                o.push(("int".to_string(), J::Num(i)));
                done = true;
            }
        }
        if !done {
            // Small constants: generic tree (no types to keep it compact). Large ones: mark opaque.
            let (_, blo, bhi) = span_loc(tcx, body.value.span);
            if bhi - blo < 200 {
                let cx = HCx { tcx, tr, with_types: false };
                o.push(("tree".to_string(), cx.expr(body.value)));
            } else {
                o.push(("opaque".to_string(), J::Bool(true)));
            }
        }
        // const-evaluated scalar where available
        if matches!(kind, DefKind::Const { .. }) && (ty.is_integral() || ty.is_bool() || ty.is_char()) {
            if let Ok(val) = tcx.const_eval_poly(did) {
                if let Some(s) = val.try_to_scalar_int() {
                    let size = s.size();
                    let bits = s.to_bits(size);
                    let v: i128 = if ty.is_signed() { size.sign_extend(bits) as i128 } else { bits as i128 };
                    o.push(("eval".to_string(), J::Num(v)));
                }
            }
        }
        let _ = lit_json;
        out.push((def_str(tcx, did), J::Obj(o)));
    }
    J::Obj(out)
}

/// Every `#[cfg(..)]` attribute that evaluated to true and therefore survived on an item,
/// statement or expression (rustc keeps them as CfgTrace attributes).
pub fn cfg_traces(tcx: TyCtxt<'_>) -> J {
    let mut out = Vec::new();
    let sm = tcx.sess.source_map();
    for owner in tcx.hir_crate_items(()).owners() {
        let amap = tcx.hir_attr_map(owner);
        for (local_id, attrs) in amap.map.iter() {
            for a in attrs.iter() {
                if let hir::Attribute::Parsed(hir::attrs::AttributeKind::CfgTrace(entries)) = a {
                    for (_entry, sp) in entries.iter() {
                        let hid = hir::HirId { owner, local_id: *local_id };
                        let (file, line, _) = span_loc(tcx, *sp);
                        let snippet = sm.span_to_snippet(*sp).unwrap_or_default();
                        let node = tcx.hir_node(hid);
                        let what = match node {
                            hir::Node::Item(i) => format!("item:{}", def_str(tcx, i.owner_id.to_def_id())),
                            hir::Node::ImplItem(i) => format!("implitem:{}", def_str(tcx, i.owner_id.to_def_id())),
                            hir::Node::TraitItem(i) => format!("traititem:{}", def_str(tcx, i.owner_id.to_def_id())),
                            hir::Node::Stmt(_) => "stmt".to_string(),
                            hir::Node::LetStmt(_) => "let".to_string(),
                            hir::Node::Expr(_) => "expr".to_string(),
                            hir::Node::Field(_) => "field".to_string(),
                            hir::Node::Variant(_) => "variant".to_string(),
                            hir::Node::Arm(_) => "arm".to_string(),
                            _ => "other".to_string(),
                        };
                        out.push(jobj!("owner" => J::s(def_str(tcx, owner.to_def_id())), "node" => J::s(what),
                                       "cfg" => J::s(snippet), "file" => J::s(file), "line" => J::n(line as i128)));
                    }
                }
            }
        }
    }
    J::Arr(out)
}

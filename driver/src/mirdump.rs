//! Serialise MIR bodies to JSON facts.

use crate::json::J;
use crate::jobj;
use rustc_hir::def::DefKind;
use rustc_hir::def_id::DefId;
use rustc_middle::mir::*;
use rustc_middle::ty::{self, Instance, Ty, TyCtxt, TypingEnv};
use rustc_span::Span;

pub struct Cx<'tcx> {
    pub tcx: TyCtxt<'tcx>,
    pub owner: std::cell::Cell<Option<DefId>>,
}

pub fn span_loc(tcx: TyCtxt<'_>, sp: Span) -> (String, usize, usize) {
    let sm = tcx.sess.source_map();
    // Use the outermost call site for macro-expanded spans so line numbers point at user code.
    let sp = sp.source_callsite();
    let lo = sm.lookup_char_pos(sp.lo());
    let hi = sm.lookup_char_pos(sp.hi());
    let file = match &lo.file.name {
        rustc_span::FileName::Real(r) => match r.local_path() {
            Some(p) => p.to_string_lossy().to_string(),
            None => format!("{:?}", r),
        },
        other => format!("{:?}", other),
    };
    (file, lo.line, hi.line)
}

pub fn line_of(tcx: TyCtxt<'_>, sp: Span) -> J {
    let (_, lo, _) = span_loc(tcx, sp);
    J::n(lo as i128)
}

pub fn ty_str<'tcx>(ty: Ty<'tcx>) -> String {
    ty::print::with_no_trimmed_paths!(format!("{}", ty))
}

pub fn def_str(tcx: TyCtxt<'_>, did: DefId) -> String {
    ty::print::with_no_trimmed_paths!(tcx.def_path_str(did))
}

impl<'tcx> Cx<'tcx> {
    fn place(&self, body: &Body<'tcx>, p: &Place<'tcx>) -> J {
        let mut proj = Vec::new();
        let mut cur_ty = PlaceTy::from_ty(body.local_decls[p.local].ty);
        for elem in p.projection.iter() {
            let j = match elem {
                ProjectionElem::Deref => J::s("*"),
                ProjectionElem::Field(f, fty) => {
                    // Resolve field name where the base is an ADT.
                    let mut name = format!("{}", f.index());
                    if let ty::Adt(adt, _) = cur_ty.ty.kind() {
                        let vidx = cur_ty.variant_index.unwrap_or(rustc_abi::FIRST_VARIANT);
                        if vidx.index() < adt.variants().len() {
                            let v = adt.variant(vidx);
                            if f.index() < v.fields.len() {
                                name = v.fields[f].name.to_string();
                            }
                        }
                    }
                    jobj!("f" => J::s(name), "i" => J::n(f.index() as i128), "ty" => J::s(ty_str(fty)))
                }
                ProjectionElem::Index(l) => jobj!("idx" => J::n(l.index() as i128)),
                ProjectionElem::ConstantIndex { offset, from_end, .. } => {
                    jobj!("cidx" => J::n(offset as i128), "from_end" => J::Bool(from_end))
                }
                ProjectionElem::Subslice { from, to, from_end } => {
                    jobj!("sub" => J::Arr(vec![J::n(from as i128), J::n(to as i128)]), "from_end" => J::Bool(from_end))
                }
                ProjectionElem::Downcast(name, vidx) => {
                    let mut n = name.map(|s| s.to_string()).unwrap_or_default();
                    if n.is_empty() {
                        if let ty::Adt(adt, _) = cur_ty.ty.kind() {
                            n = adt.variant(vidx).name.to_string();
                        }
                    }
                    jobj!("as" => J::s(n), "v" => J::n(vidx.index() as i128))
                }
                ProjectionElem::OpaqueCast(_) => J::s("opaque"),
                ProjectionElem::UnwrapUnsafeBinder(_) => J::s("unbind"),
            };
            proj.push(j);
            cur_ty = cur_ty.projection_ty(self.tcx, elem);
        }
        jobj!("l" => J::n(p.local.index() as i128), "p" => J::Arr(proj), "ty" => J::s(ty_str(cur_ty.ty)))
    }

    fn constant(&self, c: &ConstOperand<'tcx>) -> J {
        let ty = c.const_.ty();
        let mut o = vec![("k".to_string(), J::s("const")), ("ty".to_string(), J::s(ty_str(ty)))];
        // Function items: record the def path.
        if let ty::FnDef(did, args) = ty.kind() {
            o.push(("fn".to_string(), J::s(def_str(self.tcx, *did))));
            o.push(("args".to_string(), J::s(format!("{:?}", args))));
            if let Some(owner) = self.owner.get() {
                let env = TypingEnv::post_analysis(self.tcx, owner);
                if let Ok(Some(inst)) = Instance::try_resolve(self.tcx, env, *did, args) {
                    o.push(("fn_resolved".to_string(), J::s(def_str(self.tcx, inst.def_id()))));
                    o.push(("fn_resolved_local".to_string(), J::Bool(inst.def_id().is_local())));
                }
            }
        }
        match c.const_ {
            Const::Unevaluated(uv, _) => {
                o.push(("item".to_string(), J::s(def_str(self.tcx, uv.def))));
                if let Some(p) = uv.promoted {
                    o.push(("promoted".to_string(), J::n(p.index() as i128)));
                }
            }
            Const::Val(val, _) => {
                if let Some(s) = val.try_to_scalar_int() {
                    let size = s.size();
                    let bits = s.to_bits(size);
                    let v: i128 = if ty.is_signed() {
                        size.sign_extend(bits) as i128
                    } else {
                        bits as i128
                    };
                    o.push(("int".to_string(), J::Num(v)));
                } else {
                    o.push(("val".to_string(), J::s(ty::print::with_no_trimmed_paths!(format!("{}", c.const_)))));
                }
            }
            Const::Ty(_, ct) => {
                if let Some(v) = ct.try_to_target_usize(self.tcx) {
                    o.push(("int".to_string(), J::n(v as i128)));
                } else {
                    o.push(("val".to_string(), J::s(format!("{:?}", ct))));
                }
            }
        }
        J::Obj(o)
    }

    fn operand(&self, body: &Body<'tcx>, op: &Operand<'tcx>) -> J {
        match op {
            Operand::Copy(p) => jobj!("k" => J::s("copy"), "pl" => self.place(body, p)),
            Operand::Move(p) => jobj!("k" => J::s("move"), "pl" => self.place(body, p)),
            Operand::Constant(c) => self.constant(c),
            Operand::RuntimeChecks(rc) => jobj!("k" => J::s("rtcheck"), "what" => J::s(format!("{:?}", rc))),
        }
    }

    fn rvalue(&self, body: &Body<'tcx>, rv: &Rvalue<'tcx>) -> J {
        match rv {
            Rvalue::Use(op, _) => jobj!("k" => J::s("use"), "op" => self.operand(body, op)),
            Rvalue::Repeat(op, n) => {
                jobj!("k" => J::s("repeat"), "op" => self.operand(body, op), "n" => J::s(format!("{:?}", n)))
            }
            Rvalue::Ref(_, bk, p) => {
                let m = match bk {
                    BorrowKind::Shared => "shared",
                    BorrowKind::Fake(_) => "fake",
                    BorrowKind::Mut { .. } => "mut",
                };
                jobj!("k" => J::s("ref"), "m" => J::s(m), "pl" => self.place(body, p))
            }
            Rvalue::ThreadLocalRef(did) => jobj!("k" => J::s("tlsref"), "item" => J::s(def_str(self.tcx, *did))),
            Rvalue::RawPtr(kind, p) => {
                jobj!("k" => J::s("rawptr"), "m" => J::s(format!("{:?}", kind)), "pl" => self.place(body, p))
            }
            Rvalue::Cast(kind, op, ty) => {
                let from = op.ty(&body.local_decls, self.tcx);
                jobj!("k" => J::s("cast"), "ck" => J::s(format!("{:?}", kind)), "op" => self.operand(body, op),
                      "from" => J::s(ty_str(from)), "to" => J::s(ty_str(*ty)))
            }
            Rvalue::BinaryOp(op, ab) => {
                jobj!("k" => J::s("bin"), "op" => J::s(format!("{:?}", op)),
                      "a" => self.operand(body, &ab.0), "b" => self.operand(body, &ab.1))
            }
            Rvalue::UnaryOp(op, a) => {
                jobj!("k" => J::s("un"), "op" => J::s(format!("{:?}", op)), "a" => self.operand(body, a))
            }
            Rvalue::Discriminant(p) => {
                let pty = p.ty(&body.local_decls, self.tcx).ty;
                let mut o = vec![
                    ("k".to_string(), J::s("discr")),
                    ("pl".to_string(), self.place(body, p)),
                ];
                if let ty::Adt(adt, _) = pty.kind() {
                    o.push(("enum".to_string(), J::s(def_str(self.tcx, adt.did()))));
                    if adt.is_enum() {
                        let mut vs = Vec::new();
                        for (vidx, d) in adt.discriminants(self.tcx) {
                            vs.push(J::Arr(vec![
                                J::n(d.val as i128),
                                J::s(adt.variant(vidx).name.to_string()),
                            ]));
                        }
                        o.push(("variants".to_string(), J::Arr(vs)));
                    }
                }
                J::Obj(o)
            }
            Rvalue::Aggregate(kind, ops) => {
                let opsj = J::Arr(ops.iter().map(|o| self.operand(body, o)).collect());
                match &**kind {
                    AggregateKind::Array(t) => jobj!("k" => J::s("agg"), "ak" => J::s("array"), "ty" => J::s(ty_str(*t)), "ops" => opsj),
                    AggregateKind::Tuple => jobj!("k" => J::s("agg"), "ak" => J::s("tuple"), "ops" => opsj),
                    AggregateKind::Adt(did, vidx, args, _, active) => {
                        let adt = self.tcx.adt_def(*did);
                        let v = adt.variant(*vidx);
                        let fields: Vec<J> = match active {
                            Some(f) => vec![J::s(v.fields[*f].name.to_string())],
                            None => v.fields.iter().map(|f| J::s(f.name.to_string())).collect(),
                        };
                        jobj!("k" => J::s("agg"), "ak" => J::s("adt"), "adt" => J::s(def_str(self.tcx, *did)),
                              "variant" => J::s(v.name.to_string()), "args" => J::s(format!("{:?}", args)),
                              "fields" => J::Arr(fields), "ops" => opsj)
                    }
                    AggregateKind::Closure(did, _) => {
                        jobj!("k" => J::s("agg"), "ak" => J::s("closure"), "def" => J::s(def_str(self.tcx, *did)), "ops" => opsj)
                    }
                    AggregateKind::Coroutine(did, _) | AggregateKind::CoroutineClosure(did, _) => {
                        jobj!("k" => J::s("agg"), "ak" => J::s("coroutine"), "def" => J::s(def_str(self.tcx, *did)), "ops" => opsj)
                    }
                    AggregateKind::RawPtr(t, m) => {
                        jobj!("k" => J::s("agg"), "ak" => J::s("rawptr"), "ty" => J::s(ty_str(*t)), "m" => J::s(format!("{:?}", m)), "ops" => opsj)
                    }
                }
            }
            Rvalue::CopyForDeref(p) => jobj!("k" => J::s("use"), "op" => jobj!("k" => J::s("copy"), "pl" => self.place(body, p)), "deref_copy" => J::Bool(true)),
            Rvalue::WrapUnsafeBinder(op, _) => jobj!("k" => J::s("use"), "op" => self.operand(body, op)),
        }
    }

    fn statement(&self, body: &Body<'tcx>, st: &Statement<'tcx>) -> Option<J> {
        let line = line_of(self.tcx, st.source_info.span);
        let exp = J::Bool(st.source_info.span.from_expansion());
        match &st.kind {
            StatementKind::Assign(b) => {
                let (p, rv) = &**b;
                Some(jobj!("k" => J::s("assign"), "pl" => self.place(body, p), "rv" => self.rvalue(body, rv), "line" => line, "exp" => exp))
            }
            StatementKind::SetDiscriminant { place, variant_index } => {
                Some(jobj!("k" => J::s("setdiscr"), "pl" => self.place(body, place), "v" => J::n(variant_index.index() as i128), "line" => line))
            }
            StatementKind::Intrinsic(i) => Some(jobj!("k" => J::s("intrinsic"), "what" => J::s(format!("{:?}", i)), "line" => line)),
            StatementKind::StorageDead(l) => Some(jobj!("k" => J::s("dead"), "l" => J::n(l.index() as i128))),
            StatementKind::StorageLive(_)
            | StatementKind::FakeRead(_)
            | StatementKind::PlaceMention(_)
            | StatementKind::AscribeUserType(..)
            | StatementKind::Coverage(_)
            | StatementKind::ConstEvalCounter
            | StatementKind::Nop => None,
            #[allow(unreachable_patterns)]
            _ => None,
        }
    }

    fn terminator(&self, owner: DefId, body: &Body<'tcx>, t: &Terminator<'tcx>) -> J {
        let line = line_of(self.tcx, t.source_info.span);
        let exp = J::Bool(t.source_info.span.from_expansion());
        let bb = |b: BasicBlock| J::n(b.index() as i128);
        match &t.kind {
            TerminatorKind::Goto { target } => jobj!("k" => J::s("goto"), "t" => bb(*target)),
            TerminatorKind::SwitchInt { discr, targets } => {
                let mut ts = Vec::new();
                for (v, b) in targets.iter() {
                    ts.push(J::Arr(vec![J::n(v as i128), bb(b)]));
                }
                jobj!("k" => J::s("switch"), "discr" => self.operand(body, discr),
                      "dty" => J::s(ty_str(discr.ty(&body.local_decls, self.tcx))),
                      "targets" => J::Arr(ts), "otherwise" => bb(targets.otherwise()), "line" => line, "exp" => exp)
            }
            TerminatorKind::UnwindResume => jobj!("k" => J::s("resume")),
            TerminatorKind::UnwindTerminate(_) => jobj!("k" => J::s("terminate")),
            TerminatorKind::Return => jobj!("k" => J::s("return"), "line" => line),
            TerminatorKind::Unreachable => jobj!("k" => J::s("unreachable"), "line" => line),
            TerminatorKind::Drop { place, target, .. } => {
                jobj!("k" => J::s("drop"), "pl" => self.place(body, place), "t" => bb(*target), "line" => line)
            }
            TerminatorKind::Call { func, args, destination, target, fn_span, .. } => {
                let mut o = vec![
                    ("k".to_string(), J::s("call")),
                    ("func".to_string(), self.operand(body, func)),
                    ("args".to_string(), J::Arr(args.iter().map(|a| self.operand(body, &a.node)).collect())),
                    ("dest".to_string(), self.place(body, destination)),
                    ("t".to_string(), match target { Some(b) => bb(*b), None => J::Null }),
                    ("line".to_string(), line_of(self.tcx, *fn_span)),
                    ("exp".to_string(), J::Bool(fn_span.from_expansion())),
                ];
                if let Some((did, gargs)) = func.const_fn_def() {
                    o.push(("callee".to_string(), J::s(def_str(self.tcx, did))));
                    o.push(("callee_local".to_string(), J::Bool(did.is_local())));
                    // Trait method? record the trait and try to resolve.
                    if let Some(tr) = self.tcx.trait_of_assoc(did) {
                        o.push(("trait".to_string(), J::s(def_str(self.tcx, tr))));
                    }
                    let env = TypingEnv::post_analysis(self.tcx, owner);
                    if let Ok(Some(inst)) = Instance::try_resolve(self.tcx, env, did, gargs) {
                        let rdid = inst.def_id();
                        o.push(("resolved".to_string(), J::s(def_str(self.tcx, rdid))));
                        o.push(("resolved_local".to_string(), J::Bool(rdid.is_local())));
                        o.push(("resolved_kind".to_string(), J::s(match inst.def {
                            ty::InstanceKind::Item(_) => "item",
                            ty::InstanceKind::Virtual(..) => "virtual",
                            ty::InstanceKind::Intrinsic(_) => "intrinsic",
                            ty::InstanceKind::ClosureOnceShim { .. } => "closure_once",
                            ty::InstanceKind::FnPtrShim(..) => "fnptr_shim",
                            ty::InstanceKind::DropGlue(..) => "drop_glue",
                            ty::InstanceKind::CloneShim(..) => "clone_shim",
                            _ => "other",
                        })));
                    }
                    o.push(("gargs".to_string(), J::s(ty::print::with_no_trimmed_paths!(format!("{:?}", gargs)))));
                    // Self type for method calls (first generic arg of trait methods).
                    if let Some(first) = gargs.types().next() {
                        o.push(("self_ty".to_string(), J::s(ty_str(first))));
                    }
                } else {
                    o.push(("indirect".to_string(), J::Bool(true)));
                    o.push(("fty".to_string(), J::s(ty_str(func.ty(&body.local_decls, self.tcx)))));
                }
                J::Obj(o)
            }
            TerminatorKind::TailCall { func, args, .. } => {
                jobj!("k" => J::s("tailcall"), "func" => self.operand(body, func),
                      "args" => J::Arr(args.iter().map(|a| self.operand(body, &a.node)).collect()), "line" => line)
            }
            TerminatorKind::Assert { cond, expected, msg, target, .. } => {
                let kind = match &**msg {
                    AssertKind::BoundsCheck { .. } => "bounds".to_string(),
                    AssertKind::Overflow(op, ..) => format!("overflow_{:?}", op),
                    AssertKind::OverflowNeg(_) => "overflow_neg".to_string(),
                    AssertKind::DivisionByZero(_) => "div_zero".to_string(),
                    AssertKind::RemainderByZero(_) => "rem_zero".to_string(),
                    AssertKind::MisalignedPointerDereference { .. } => "misaligned".to_string(),
                    AssertKind::NullPointerDereference => "nullptr".to_string(),
                    _ => "other".to_string(),
                };
                jobj!("k" => J::s("assert"), "cond" => self.operand(body, cond), "expected" => J::Bool(*expected),
                      "msg" => J::s(kind), "t" => bb(*target), "line" => line, "exp" => exp)
            }
            TerminatorKind::FalseEdge { real_target, .. } => jobj!("k" => J::s("goto"), "t" => bb(*real_target)),
            TerminatorKind::FalseUnwind { real_target, .. } => jobj!("k" => J::s("goto"), "t" => bb(*real_target)),
            TerminatorKind::Yield { .. } | TerminatorKind::CoroutineDrop | TerminatorKind::InlineAsm { .. } => {
                jobj!("k" => J::s("other"), "what" => J::s(format!("{:?}", t.kind)))
            }
        }
    }

    pub fn body(&self, owner: DefId, body: &Body<'tcx>) -> J {
        let mut locals = Vec::new();
        // user variable names from debuginfo
        let mut names: Vec<Option<String>> = vec![None; body.local_decls.len()];
        for vdi in &body.var_debug_info {
            if let VarDebugInfoContents::Place(p) = &vdi.value {
                if p.projection.is_empty() {
                    names[p.local.index()] = Some(vdi.name.to_string());
                }
            }
        }
        // closure upvar names: `_1.N` debuginfo entries
        let mut upvars = Vec::new();
        for vdi in &body.var_debug_info {
            if let VarDebugInfoContents::Place(p) = &vdi.value {
                if !p.projection.is_empty() {
                    upvars.push(J::Arr(vec![J::s(vdi.name.to_string()), self.place(body, p)]));
                }
            }
        }
        for (i, d) in body.local_decls.iter_enumerated() {
            let mut o = vec![("ty".to_string(), J::s(ty_str(d.ty)))];
            if let Some(n) = &names[i.index()] {
                o.push(("name".to_string(), J::s(n)));
            }
            if d.mutability.is_mut() {
                o.push(("mut".to_string(), J::Bool(true)));
            }
            locals.push(J::Obj(o));
        }
        let mut blocks = Vec::new();
        for (_bb, data) in body.basic_blocks.iter_enumerated() {
            let stmts: Vec<J> = data.statements.iter().filter_map(|s| self.statement(body, s)).collect();
            let term = self.terminator(owner, body, data.terminator());
            blocks.push(jobj!("s" => J::Arr(stmts), "t" => term, "cleanup" => J::Bool(data.is_cleanup)));
        }
        jobj!("argc" => J::n(body.arg_count as i128), "locals" => J::Arr(locals), "blocks" => J::Arr(blocks), "upvars" => J::Arr(upvars))
    }

    pub fn dump_owner(&self, did: DefId) -> Option<J> {
        let kind = self.tcx.def_kind(did);
        match kind {
            DefKind::Fn | DefKind::AssocFn | DefKind::Closure => {}
            _ => return None,
        }
        if !self.tcx.is_mir_available(did) {
            return None;
        }
        let body = self.tcx.optimized_mir(did);
        self.owner.set(Some(did));
        let mut o = match self.body(did, body) {
            J::Obj(o) => o,
            _ => unreachable!(),
        };
        let promoted = self.tcx.promoted_mir(did);
        let mut ps = Vec::new();
        for (_i, pb) in promoted.iter_enumerated() {
            ps.push(self.body(did, pb));
        }
        o.push(("promoted".to_string(), J::Arr(ps)));
        Some(J::Obj(o))
    }
}

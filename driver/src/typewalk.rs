//! Type-level facts: local ADTs, deep walks of field types, statics.

use crate::json::J;
use crate::jobj;
use crate::mirdump::{def_str, ty_str};
use rustc_hir::def::DefKind;
use rustc_hir::def_id::DefId;
use rustc_infer::infer::TyCtxtInferExt;
use rustc_middle::ty::{self, Ty, TyCtxt, TypingEnv};
use rustc_span::sym;
use rustc_trait_selection::infer::InferCtxtExt;
use std::collections::HashSet;

fn local_adts(tcx: TyCtxt<'_>) -> Vec<DefId> {
    let mut v = Vec::new();
    for id in tcx.hir_free_items() {
        let did = id.owner_id.to_def_id();
        match tcx.def_kind(did) {
            DefKind::Struct | DefKind::Enum | DefKind::Union => v.push(did),
            _ => {}
        }
    }
    v
}

pub fn adts(tcx: TyCtxt<'_>) -> J {
    let mut out = Vec::new();
    for did in local_adts(tcx) {
        let adt = tcx.adt_def(did);
        let mut vs = Vec::new();
        for v in adt.variants() {
            let mut fs = Vec::new();
            for f in &v.fields {
                let fty = tcx.type_of(f.did).instantiate_identity().skip_norm_wip();
                fs.push(jobj!("name" => J::s(f.name.as_str()), "ty" => J::s(ty_str(fty)),
                              "public" => J::Bool(f.vis.is_public())));
            }
            vs.push(jobj!("name" => J::s(v.name.as_str()), "fields" => J::Arr(fs)));
        }
        let kind = if adt.is_enum() { "enum" } else if adt.is_union() { "union" } else { "struct" };
        let (file, lo, _) = crate::mirdump::span_loc(tcx, tcx.def_span(did));
        out.push((
            def_str(tcx, did),
            jobj!("kind" => J::s(kind), "variants" => J::Arr(vs), "public" => J::Bool(tcx.visibility(did).is_public()),
                  "file" => J::s(file), "line" => J::n(lo as i128)),
        ));
    }
    J::Obj(out)
}

struct Walker<'tcx> {
    tcx: TyCtxt<'tcx>,
    env: TypingEnv<'tcx>,
    seen: HashSet<Ty<'tcx>>,
    findings: Vec<J>,
    visited_adts: Vec<String>,
}

impl<'tcx> Walker<'tcx> {
    fn implements(&self, ty: Ty<'tcx>, tr: DefId) -> bool {
        let (infcx, param_env) = self.tcx.infer_ctxt().build_with_typing_env(self.env);
        infcx.type_implements_trait(tr, [ty], param_env).must_apply_modulo_regions()
    }

    fn finding(&mut self, what: &str, ty: Ty<'tcx>, path: &[String]) {
        self.findings.push(jobj!("what" => J::s(what), "ty" => J::s(ty_str(ty)), "path" => J::Arr(path.iter().map(J::s).collect())));
    }

    fn walk(&mut self, ty: Ty<'tcx>, path: &mut Vec<String>) {
        if !self.seen.insert(ty) {
            return;
        }
        match ty.kind() {
            ty::Adt(adt, args) => {
                let name = def_str(self.tcx, adt.did());
                if adt.is_unsafe_cell() {
                    self.finding("unsafecell", ty, path);
                }
                if adt.did().is_local() {
                    self.visited_adts.push(ty_str(ty));
                    for v in adt.variants() {
                        for f in &v.fields {
                            let fty = f.ty(self.tcx, args);
                            path.push(format!("{}::{}.{}", name, v.name, f.name));
                            self.walk(fty, path);
                            path.pop();
                        }
                    }
                } else {
                    // Foreign ADT: ask the trait solver, do not read private fields; recurse into type arguments.
                    let freeze = ty.is_freeze(self.tcx, self.env);
                    let send = self.tcx.get_diagnostic_item(sym::Send).map(|d| self.implements(ty, d));
                    let sync = self.tcx.get_diagnostic_item(sym::Sync).map(|d| self.implements(ty, d));
                    self.findings.push(jobj!(
                        "what" => J::s("foreign"), "ty" => J::s(ty_str(ty)), "adt" => J::s(name.clone()),
                        "freeze" => J::Bool(freeze),
                        "send" => send.map(J::Bool).unwrap_or(J::Null),
                        "sync" => sync.map(J::Bool).unwrap_or(J::Null),
                        "path" => J::Arr(path.iter().map(J::s).collect())
                    ));
                    for a in args.types() {
                        path.push(format!("<{}>", name));
                        self.walk(a, path);
                        path.pop();
                    }
                    // Third-party crates (not the standard library): read their fields too.
                    let krate = self.tcx.crate_name(adt.did().krate).to_string();
                    if !matches!(krate.as_str(), "core" | "alloc" | "std") {
                        for v in adt.variants() {
                            for f in &v.fields {
                                let fty = f.ty(self.tcx, args);
                                path.push(format!("{}::{}.{}", name, v.name, f.name));
                                self.walk(fty, path);
                                path.pop();
                            }
                        }
                    }
                }
            }
            ty::Ref(_, inner, m) => {
                if m.is_mut() {
                    self.finding("mutref", ty, path);
                }
                path.push("&".to_string());
                self.walk(*inner, path);
                path.pop();
            }
            ty::RawPtr(inner, _) => {
                self.finding("rawptr", ty, path);
                path.push("*".to_string());
                self.walk(*inner, path);
                path.pop();
            }
            ty::FnPtr(..) => self.finding("fnptr", ty, path),
            ty::Dynamic(..) => self.finding("dyn", ty, path),
            ty::Param(_) => self.finding("param", ty, path),
            ty::Alias(..) => self.finding("alias", ty, path),
            ty::Array(inner, _) | ty::Slice(inner) => self.walk(*inner, path),
            ty::Tuple(ts) => {
                for t in ts.iter() {
                    self.walk(t, path);
                }
            }
            ty::Closure(..) | ty::Coroutine(..) | ty::CoroutineClosure(..) => self.finding("closure", ty, path),
            _ => {}
        }
    }
}

pub fn walks(tcx: TyCtxt<'_>) -> J {
    let mut out = Vec::new();
    for did in local_adts(tcx) {
        let ty = tcx.type_of(did).instantiate_identity().skip_norm_wip();
        let env = TypingEnv::post_analysis(tcx, did);
        let mut w = Walker { tcx, env, seen: HashSet::new(), findings: Vec::new(), visited_adts: Vec::new() };
        let mut path = Vec::new();
        w.walk(ty, &mut path);
        let freeze = ty.is_freeze(tcx, env);
        let send = tcx.get_diagnostic_item(sym::Send).map(|d| w.implements(ty, d));
        let sync = tcx.get_diagnostic_item(sym::Sync).map(|d| w.implements(ty, d));
        let ngen = tcx.generics_of(did).own_params.len();
        out.push((
            def_str(tcx, did),
            jobj!("ty" => J::s(ty_str(ty)), "freeze" => J::Bool(freeze),
                  "send" => send.map(J::Bool).unwrap_or(J::Null), "sync" => sync.map(J::Bool).unwrap_or(J::Null),
                  "generics" => J::n(ngen as i128),
                  "findings" => J::Arr(w.findings), "local_adts" => J::Arr(w.visited_adts.iter().map(J::s).collect())),
        ));
    }
    J::Obj(out)
}

pub fn statics(tcx: TyCtxt<'_>) -> J {
    let mut out = Vec::new();
    for ldid in tcx.hir_body_owners() {
        let did = ldid.to_def_id();
        if let DefKind::Static { mutability, nested, .. } = tcx.def_kind(did) {
            let ty = tcx.type_of(did).instantiate_identity().skip_norm_wip();
            let env = TypingEnv::post_analysis(tcx, did);
            let (file, lo, _) = crate::mirdump::span_loc(tcx, tcx.def_span(did));
            out.push(jobj!(
                "path" => J::s(def_str(tcx, did)), "ty" => J::s(ty_str(ty)), "mut" => J::Bool(mutability.is_mut()),
                "nested" => J::Bool(nested), "freeze" => J::Bool(ty.is_freeze(tcx, env)),
                "thread_local" => J::Bool(tcx.is_thread_local_static(did)),
                "file" => J::s(file), "line" => J::n(lo as i128)
            ));
        }
    }
    J::Arr(out)
}

/// Every trait impl written in the crate (marker impls included, which have no methods and so no body facts).
pub fn trait_impls(tcx: TyCtxt<'_>) -> J {
    let mut out = Vec::new();
    for (trait_did, impls) in tcx.all_local_trait_impls(()).iter() {
        for ldid in impls.iter() {
            let did = ldid.to_def_id();
            let self_ty = tcx.type_of(did).instantiate_identity().skip_norm_wip();
            let (file, lo, _) = crate::mirdump::span_loc(tcx, tcx.def_span(did));
            let nitems = tcx.associated_item_def_ids(did).len();
            out.push(jobj!(
                "trait" => J::s(def_str(tcx, *trait_did)), "self_ty" => J::s(ty_str(self_ty)), "items" => J::n(nitems as i128),
                "file" => J::s(file), "line" => J::n(lo as i128)
            ));
        }
    }
    J::Arr(out)
}

//! Serialise HIR bodies (type-checked, name-resolved expression trees) to JSON facts.

use crate::json::J;
use crate::jobj;
use crate::mirdump::{def_str, line_of, ty_str};
use rustc_ast::ast::LitKind;
use rustc_hir as hir;
use rustc_hir::def::{DefKind, Res};
use rustc_hir::def_id::LocalDefId;
use rustc_middle::ty::{TyCtxt, TypeckResults};
use rustc_span::{ExpnKind, Span};

pub struct HCx<'tcx> {
    pub tcx: TyCtxt<'tcx>,
    pub tr: &'tcx TypeckResults<'tcx>,
    pub with_types: bool,
}

pub fn mac_name(sp: Span) -> Option<String> {
    if !sp.from_expansion() {
        return None;
    }
    let ed = sp.ctxt().outer_expn_data();
    match ed.kind {
        ExpnKind::Macro(_, name) => Some(name.to_string()),
        ExpnKind::Desugaring(d) => Some(format!("desugar:{:?}", d)),
        _ => Some("?".to_string()),
    }
}

/// All macro names on the expansion backtrace, innermost first.
pub fn mac_chain(sp: Span) -> Vec<String> {
    let mut v = Vec::new();
    for ed in sp.macro_backtrace() {
        match ed.kind {
            ExpnKind::Macro(_, name) => v.push(name.to_string()),
            ExpnKind::Desugaring(d) => v.push(format!("desugar:{:?}", d)),
            _ => v.push("?".to_string()),
        }
    }
    v
}

pub fn lit_json(l: &LitKind, negated: bool) -> J {
    match l {
        LitKind::Str(s, _) => jobj!("k" => J::s("lit"), "t" => J::s("str"), "v" => J::s(s.as_str())),
        LitKind::ByteStr(b, _) | LitKind::CStr(b, _) => {
            jobj!("k" => J::s("lit"), "t" => J::s("bytes"), "v" => J::Arr(b.as_byte_str().iter().map(|x| J::n(*x as i128)).collect()))
        }
        LitKind::Byte(b) => jobj!("k" => J::s("lit"), "t" => J::s("int"), "v" => J::n(*b as i128), "byte" => J::Bool(true)),
        LitKind::Char(c) => jobj!("k" => J::s("lit"), "t" => J::s("char"), "v" => J::n(*c as u32 as i128), "c" => J::s(c.to_string())),
        LitKind::Int(n, _) => {
            let v = n.get() as i128;
            jobj!("k" => J::s("lit"), "t" => J::s("int"), "v" => J::Num(if negated { -v } else { v }))
        }
        LitKind::Float(s, _) => jobj!("k" => J::s("lit"), "t" => J::s("float"), "v" => J::s(s.as_str())),
        LitKind::Bool(b) => jobj!("k" => J::s("lit"), "t" => J::s("bool"), "v" => J::Bool(*b)),
        LitKind::Err(_) => jobj!("k" => J::s("lit"), "t" => J::s("err")),
    }
}

impl<'tcx> HCx<'tcx> {
    fn res(&self, qp: &hir::QPath<'tcx>, id: hir::HirId) -> J {
        let r = self.tr.qpath_res(qp, id);
        self.res_json(r)
    }

    fn res_json(&self, r: Res) -> J {
        match r {
            Res::Def(kind, did) => {
                let k = match kind {
                    DefKind::Ctor(of, _) => format!("ctor:{:?}", of),
                    DefKind::Variant => "variant".to_string(),
                    DefKind::Fn => "fn".to_string(),
                    DefKind::AssocFn => "assocfn".to_string(),
                    DefKind::Const { .. } => "const".to_string(),
                    DefKind::AssocConst { .. } => "assocconst".to_string(),
                    DefKind::Static { .. } => "static".to_string(),
                    DefKind::Struct => "struct".to_string(),
                    DefKind::ConstParam => "constparam".to_string(),
                    other => format!("{:?}", other),
                };
                let mut path = def_str(self.tcx, did);
                // For constructors report the path of the struct/variant they construct.
                if let DefKind::Ctor(..) = kind {
                    path = def_str(self.tcx, self.tcx.parent(did));
                }
                jobj!("r" => J::s("def"), "dk" => J::s(k), "path" => J::s(path))
            }
            Res::Local(hid) => {
                let name = self.tcx.hir_name(hid).to_string();
                jobj!("r" => J::s("local"), "name" => J::s(name), "id" => J::n(hid.local_id.as_u32() as i128))
            }
            Res::SelfCtor(did) => jobj!("r" => J::s("selfctor"), "path" => J::s(def_str(self.tcx, did))),
            Res::SelfTyAlias { alias_to, .. } => jobj!("r" => J::s("selfty"), "path" => J::s(def_str(self.tcx, alias_to))),
            Res::SelfTyParam { .. } => jobj!("r" => J::s("selfparam")),
            Res::PrimTy(p) => jobj!("r" => J::s("prim"), "path" => J::s(p.name_str())),
            other => jobj!("r" => J::s("other"), "dbg" => J::s(format!("{:?}", other))),
        }
    }

    fn patexpr(&self, e: &hir::PatExpr<'tcx>) -> J {
        match &e.kind {
            hir::PatExprKind::Lit { lit, negated } => lit_json(&lit.node, *negated),
            hir::PatExprKind::Path(qp) => jobj!("k" => J::s("path"), "res" => self.res(qp, e.hir_id)),
        }
    }

    pub fn pat(&self, p: &hir::Pat<'tcx>) -> J {
        match &p.kind {
            hir::PatKind::Missing => jobj!("k" => J::s("missing")),
            hir::PatKind::Wild => jobj!("k" => J::s("wild")),
            hir::PatKind::Never => jobj!("k" => J::s("never")),
            hir::PatKind::Binding(mode, hid, ident, sub) => {
                let mut o = vec![
                    ("k".to_string(), J::s("bind")),
                    ("name".to_string(), J::s(ident.name.as_str())),
                    ("id".to_string(), J::n(hid.local_id.as_u32() as i128)),
                    ("mode".to_string(), J::s(format!("{:?}", mode))),
                ];
                if let Some(s) = sub {
                    o.push(("sub".to_string(), self.pat(s)));
                }
                J::Obj(o)
            }
            hir::PatKind::Struct(qp, fields, rest) => {
                let fs: Vec<J> = fields
                    .iter()
                    .map(|f| J::Arr(vec![J::s(f.ident.name.as_str()), self.pat(f.pat)]))
                    .collect();
                jobj!("k" => J::s("struct"), "res" => self.res(qp, p.hir_id), "fields" => J::Arr(fs), "rest" => J::Bool(rest.is_some()))
            }
            hir::PatKind::TupleStruct(qp, pats, ddpos) => {
                jobj!("k" => J::s("tstruct"), "res" => self.res(qp, p.hir_id),
                      "pats" => J::Arr(pats.iter().map(|x| self.pat(x)).collect()),
                      "dotdot" => match ddpos.as_opt_usize() { Some(i) => J::n(i as i128), None => J::Null })
            }
            hir::PatKind::Or(pats) => jobj!("k" => J::s("or"), "pats" => J::Arr(pats.iter().map(|x| self.pat(x)).collect())),
            hir::PatKind::Tuple(pats, ddpos) => {
                jobj!("k" => J::s("tuple"), "pats" => J::Arr(pats.iter().map(|x| self.pat(x)).collect()),
                      "dotdot" => match ddpos.as_opt_usize() { Some(i) => J::n(i as i128), None => J::Null })
            }
            hir::PatKind::Box(x) => jobj!("k" => J::s("box"), "pat" => self.pat(x)),
            hir::PatKind::Deref(x) => jobj!("k" => J::s("deref"), "pat" => self.pat(x)),
            hir::PatKind::Ref(x, _, m) => jobj!("k" => J::s("ref"), "pat" => self.pat(x), "mut" => J::Bool(m.is_mut())),
            hir::PatKind::Expr(e) => self.patexpr(e),
            hir::PatKind::Guard(x, g) => jobj!("k" => J::s("guardpat"), "pat" => self.pat(x), "guard" => self.expr(g)),
            hir::PatKind::Range(lo, hi, end) => {
                jobj!("k" => J::s("range"),
                      "lo" => lo.map(|e| self.patexpr(e)).unwrap_or(J::Null),
                      "hi" => hi.map(|e| self.patexpr(e)).unwrap_or(J::Null),
                      "incl" => J::Bool(matches!(end, hir::RangeEnd::Included)))
            }
            hir::PatKind::Slice(a, m, b) => {
                jobj!("k" => J::s("slice"),
                      "before" => J::Arr(a.iter().map(|x| self.pat(x)).collect()),
                      "mid" => m.map(|x| self.pat(x)).unwrap_or(J::Null),
                      "after" => J::Arr(b.iter().map(|x| self.pat(x)).collect()))
            }
            hir::PatKind::Err(_) => jobj!("k" => J::s("err")),
        }
    }

    fn block(&self, b: &hir::Block<'tcx>) -> J {
        let mut stmts = Vec::new();
        for s in b.stmts {
            match &s.kind {
                hir::StmtKind::Let(l) => {
                    let mut o = vec![
                        ("k".to_string(), J::s("let")),
                        ("pat".to_string(), self.pat(l.pat)),
                        ("line".to_string(), line_of(self.tcx, s.span)),
                    ];
                    if let Some(i) = l.init {
                        o.push(("init".to_string(), self.expr(i)));
                    }
                    if let Some(e) = l.els {
                        o.push(("else".to_string(), self.block(e)));
                    }
                    stmts.push(J::Obj(o));
                }
                hir::StmtKind::Item(_) => stmts.push(jobj!("k" => J::s("item"))),
                hir::StmtKind::Expr(e) => stmts.push(jobj!("k" => J::s("expr"), "e" => self.expr(e))),
                hir::StmtKind::Semi(e) => stmts.push(jobj!("k" => J::s("semi"), "e" => self.expr(e))),
            }
        }
        let mut o = vec![("k".to_string(), J::s("block")), ("stmts".to_string(), J::Arr(stmts))];
        if let Some(e) = b.expr {
            o.push(("expr".to_string(), self.expr(e)));
        }
        match b.rules {
            hir::BlockCheckMode::UnsafeBlock(src) => {
                o.push(("unsafe".to_string(), J::s(format!("{:?}", src))));
                o.push(("line".to_string(), line_of(self.tcx, b.span)));
                if let Some(m) = mac_name(b.span) {
                    o.push(("mac".to_string(), J::s(m)));
                    o.push(("macs".to_string(), J::Arr(mac_chain(b.span).into_iter().map(J::Str).collect())));
                }
            }
            hir::BlockCheckMode::DefaultBlock => {}
        }
        J::Obj(o)
    }

    pub fn expr(&self, e: &hir::Expr<'tcx>) -> J {
        let mut o: Vec<(String, J)> = Vec::new();
        let k = |s: &str| ("k".to_string(), J::s(s));
        match &e.kind {
            hir::ExprKind::DropTemps(x) | hir::ExprKind::Use(x, _) => return self.expr(x),
            hir::ExprKind::Type(x, _) => return self.expr(x),
            hir::ExprKind::ConstBlock(_) => o.push(k("constblock")),
            hir::ExprKind::Array(xs) => {
                o.push(k("array"));
                o.push(("elems".to_string(), J::Arr(xs.iter().map(|x| self.expr(x)).collect())));
            }
            hir::ExprKind::Call(f, args) => {
                o.push(k("call"));
                // Resolve callee if it is a path.
                if let hir::ExprKind::Path(qp) = &f.kind {
                    o.push(("callee".to_string(), self.res(qp, f.hir_id)));
                } else {
                    o.push(("f".to_string(), self.expr(f)));
                }
                o.push(("args".to_string(), J::Arr(args.iter().map(|x| self.expr(x)).collect())));
            }
            hir::ExprKind::MethodCall(seg, recv, args, _) => {
                o.push(k("mcall"));
                o.push(("name".to_string(), J::s(seg.ident.name.as_str())));
                if let Some(did) = self.tr.type_dependent_def_id(e.hir_id) {
                    o.push(("def".to_string(), J::s(def_str(self.tcx, did))));
                }
                o.push(("recv".to_string(), self.expr(recv)));
                o.push(("recv_ty".to_string(), J::s(ty_str(self.tr.expr_ty_adjusted(recv)))));
                o.push(("args".to_string(), J::Arr(args.iter().map(|x| self.expr(x)).collect())));
            }
            hir::ExprKind::Tup(xs) => {
                o.push(k("tup"));
                o.push(("elems".to_string(), J::Arr(xs.iter().map(|x| self.expr(x)).collect())));
            }
            hir::ExprKind::Binary(op, a, b) => {
                o.push(k("bin"));
                o.push(("op".to_string(), J::s(op.node.as_str())));
                o.push(("a".to_string(), self.expr(a)));
                o.push(("b".to_string(), self.expr(b)));
                if let Some(did) = self.tr.type_dependent_def_id(e.hir_id) {
                    o.push(("def".to_string(), J::s(def_str(self.tcx, did))));
                }
            }
            hir::ExprKind::Unary(op, a) => {
                o.push(k("un"));
                o.push(("op".to_string(), J::s(op.as_str())));
                o.push(("a".to_string(), self.expr(a)));
                if let Some(did) = self.tr.type_dependent_def_id(e.hir_id) {
                    o.push(("def".to_string(), J::s(def_str(self.tcx, did))));
                }
            }
            hir::ExprKind::Lit(l) => {
                let mut j = match lit_json(&l.node, false) {
                    J::Obj(v) => v,
                    _ => unreachable!(),
                };
                if let Some(m) = mac_name(e.span) {
                    j.push(("mac".to_string(), J::s(m.clone())));
                    if m == "cfg" {
                        let sm = self.tcx.sess.source_map();
                        if let Ok(snip) = sm.span_to_snippet(e.span.source_callsite()) {
                            j.push(("cfg".to_string(), J::s(snip)));
                        }
                    }
                }
                return J::Obj(j);
            }
            hir::ExprKind::Cast(x, _) => {
                o.push(k("cast"));
                o.push(("e".to_string(), self.expr(x)));
            }
            hir::ExprKind::Let(l) => {
                o.push(k("letexpr"));
                o.push(("pat".to_string(), self.pat(l.pat)));
                o.push(("init".to_string(), self.expr(l.init)));
            }
            hir::ExprKind::If(c, t, f) => {
                o.push(k("if"));
                o.push(("cond".to_string(), self.expr(c)));
                o.push(("then".to_string(), self.expr(t)));
                if let Some(f) = f {
                    o.push(("else".to_string(), self.expr(f)));
                }
            }
            hir::ExprKind::Loop(b, _, src, _) => {
                o.push(k("loop"));
                o.push(("src".to_string(), J::s(format!("{:?}", src))));
                o.push(("body".to_string(), self.block(b)));
            }
            hir::ExprKind::Match(scrut, arms, src) => {
                o.push(k("match"));
                o.push(("src".to_string(), J::s(format!("{:?}", src))));
                o.push(("scrut".to_string(), self.expr(scrut)));
                o.push(("scrut_ty".to_string(), J::s(ty_str(self.tr.expr_ty(scrut)))));
                let mut as_ = Vec::new();
                for a in *arms {
                    let mut ao = vec![
                        ("pat".to_string(), self.pat(a.pat)),
                        ("body".to_string(), self.expr(a.body)),
                        ("line".to_string(), line_of(self.tcx, a.span)),
                    ];
                    if let Some(g) = a.guard {
                        ao.push(("guard".to_string(), self.expr(g)));
                    }
                    as_.push(J::Obj(ao));
                }
                o.push(("arms".to_string(), J::Arr(as_)));
            }
            hir::ExprKind::Closure(c) => {
                o.push(k("closure"));
                o.push(("def".to_string(), J::s(def_str(self.tcx, c.def_id.to_def_id()))));
                let body = self.tcx.hir_body(c.body);
                let inner = HCx { tcx: self.tcx, tr: self.tcx.typeck(c.def_id), with_types: self.with_types };
                o.push(("params".to_string(), J::Arr(body.params.iter().map(|p| inner.pat(p.pat)).collect())));
                o.push(("body".to_string(), inner.expr(body.value)));
            }
            hir::ExprKind::Block(b, _) => {
                let j = self.block(b);
                if let J::Obj(mut v) = j {
                    if self.with_types {
                        v.push(("ty".to_string(), J::s(ty_str(self.tr.expr_ty(e)))));
                    }
                    return J::Obj(v);
                }
                unreachable!()
            }
            hir::ExprKind::Assign(a, b, _) => {
                o.push(k("assign"));
                o.push(("lhs".to_string(), self.expr(a)));
                o.push(("rhs".to_string(), self.expr(b)));
            }
            hir::ExprKind::AssignOp(op, a, b) => {
                o.push(k("assignop"));
                o.push(("op".to_string(), J::s(op.node.as_str())));
                o.push(("lhs".to_string(), self.expr(a)));
                o.push(("rhs".to_string(), self.expr(b)));
                if let Some(did) = self.tr.type_dependent_def_id(e.hir_id) {
                    o.push(("def".to_string(), J::s(def_str(self.tcx, did))));
                }
            }
            hir::ExprKind::Field(x, ident) => {
                o.push(k("field"));
                o.push(("name".to_string(), J::s(ident.name.as_str())));
                o.push(("e".to_string(), self.expr(x)));
                o.push(("base_ty".to_string(), J::s(ty_str(self.tr.expr_ty_adjusted(x)))));
            }
            hir::ExprKind::Index(a, b, _) => {
                o.push(k("index"));
                o.push(("e".to_string(), self.expr(a)));
                o.push(("i".to_string(), self.expr(b)));
                o.push(("base_ty".to_string(), J::s(ty_str(self.tr.expr_ty_adjusted(a)))));
                if let Some(did) = self.tr.type_dependent_def_id(e.hir_id) {
                    o.push(("def".to_string(), J::s(def_str(self.tcx, did))));
                }
            }
            hir::ExprKind::Path(qp) => {
                o.push(k("path"));
                o.push(("res".to_string(), self.res(qp, e.hir_id)));
            }
            hir::ExprKind::AddrOf(_, m, x) => {
                o.push(k("addrof"));
                o.push(("mut".to_string(), J::Bool(m.is_mut())));
                o.push(("e".to_string(), self.expr(x)));
            }
            hir::ExprKind::Break(_, x) => {
                o.push(k("break"));
                if let Some(x) = x {
                    o.push(("e".to_string(), self.expr(x)));
                }
            }
            hir::ExprKind::Continue(_) => o.push(k("continue")),
            hir::ExprKind::Ret(x) => {
                o.push(k("ret"));
                if let Some(x) = x {
                    o.push(("e".to_string(), self.expr(x)));
                }
            }
            hir::ExprKind::Become(x) => {
                o.push(k("become"));
                o.push(("e".to_string(), self.expr(x)));
            }
            hir::ExprKind::Struct(qp, fields, tail) => {
                o.push(k("struct"));
                o.push(("res".to_string(), self.res(qp, e.hir_id)));
                let fs: Vec<J> = fields
                    .iter()
                    .map(|f| J::Arr(vec![J::s(f.ident.name.as_str()), self.expr(f.expr)]))
                    .collect();
                o.push(("fields".to_string(), J::Arr(fs)));
                if let hir::StructTailExpr::Base(b) = tail {
                    o.push(("base".to_string(), self.expr(b)));
                }
            }
            hir::ExprKind::Repeat(x, _) => {
                o.push(k("repeat"));
                o.push(("e".to_string(), self.expr(x)));
            }
            hir::ExprKind::InlineAsm(_) => o.push(k("asm")),
            hir::ExprKind::OffsetOf(..) => o.push(k("offsetof")),
            hir::ExprKind::Yield(..) => o.push(k("yield")),
            hir::ExprKind::UnsafeBinderCast(_, x, _) => return self.expr(x),
            hir::ExprKind::Err(_) => o.push(k("err")),
        }
        o.push(("line".to_string(), line_of(self.tcx, e.span)));
        if self.with_types {
            o.push(("ty".to_string(), J::s(ty_str(self.tr.expr_ty(e)))));
        }
        if let Some(m) = mac_name(e.span) {
            o.push(("mac".to_string(), J::s(m)));
        }
        J::Obj(o)
    }
}

pub fn dump_body(tcx: TyCtxt<'_>, did: LocalDefId) -> Option<J> {
    let body = tcx.hir_maybe_body_owned_by(did)?;
    let tr = tcx.typeck(did);
    let cx = HCx { tcx, tr, with_types: true };
    let params: Vec<J> = body.params.iter().map(|p| cx.pat(p.pat)).collect();
    Some(jobj!("params" => J::Arr(params), "body" => cx.expr(body.value)))
}

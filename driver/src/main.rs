//! regress-facts: a rustc_private driver that type-checks the `regress` crate with the real
//! cargo flags and dumps resolved facts (MIR, HIR, types, constants) as one JSON file.
//!
//! Used as RUSTC_WORKSPACE_WRAPPER: argv = [self, <rustc>, <rustc args...>].
//! Env: REGRESS_FACTS_OUT=<file> (required to emit), REGRESS_FACTS_CONFIG=<name>.

#![feature(rustc_private)]
#![allow(clippy::all)]

extern crate rustc_abi;
extern crate rustc_ast;
extern crate rustc_driver;
extern crate rustc_hir;
extern crate rustc_infer;
extern crate rustc_interface;
extern crate rustc_middle;
extern crate rustc_span;
extern crate rustc_trait_selection;

mod hirdump;
mod json;
mod mirdump;
mod tables;
mod typewalk;

use json::J;
use rustc_driver::Compilation;
use rustc_hir::def::DefKind;
use rustc_middle::ty::{self, TyCtxt};

struct Cb {
    out: Option<String>,
    config: String,
}

fn fn_facts(tcx: TyCtxt<'_>) -> J {
    let mut fns = Vec::new();
    for ldid in tcx.hir_body_owners() {
        let did = ldid.to_def_id();
        let kind = tcx.def_kind(did);
        let kstr = match kind {
            DefKind::Fn => "fn",
            DefKind::AssocFn => "assocfn",
            DefKind::Closure => "closure",
            DefKind::Const { .. } => "const",
            DefKind::AssocConst { .. } => "assocconst",
            DefKind::Static { .. } => "static",
            DefKind::AnonConst => "anonconst",
            DefKind::InlineConst => "inlineconst",
            _ => "other",
        };
        let (file, lo, hi) = mirdump::span_loc(tcx, tcx.def_span(did));
        let body_span = tcx.hir_maybe_body_owned_by(ldid).map(|b| b.value.span);
        let (_, blo, bhi) = match body_span {
            Some(sp) => mirdump::span_loc(tcx, sp),
            None => (String::new(), lo, hi),
        };
        let mut o = vec![
            ("kind".to_string(), J::s(kstr)),
            ("file".to_string(), J::s(file)),
            ("lo".to_string(), J::n(lo.min(blo) as i128)),
            ("hi".to_string(), J::n(hi.max(bhi) as i128)),
        ];
        if matches!(kind, DefKind::Fn | DefKind::AssocFn) {
            let sig = tcx.fn_sig(did).instantiate_identity().skip_norm_wip().skip_binder();
            o.push((
                "inputs".to_string(),
                J::Arr(sig.inputs().iter().map(|t| J::s(mirdump::ty_str(*t))).collect()),
            ));
            o.push(("output".to_string(), J::s(mirdump::ty_str(sig.output()))));
            o.push(("unsafe".to_string(), J::Bool(!sig.safety().is_safe())));
            o.push(("vis".to_string(), J::s(format!("{:?}", tcx.visibility(did)))));
            o.push(("vis_public".to_string(), J::Bool(tcx.visibility(did).is_public())));
            if kind == DefKind::AssocFn {
                let parent = tcx.parent(did);
                match tcx.def_kind(parent) {
                    DefKind::Impl { of_trait } => {
                        let self_ty = tcx.type_of(parent).instantiate_identity().skip_norm_wip();
                        o.push(("impl_self".to_string(), J::s(mirdump::ty_str(self_ty))));
                        if of_trait {
                            let tr = tcx.impl_trait_ref(parent).instantiate_identity().skip_norm_wip();
                            o.push(("impl_trait".to_string(), J::s(mirdump::def_str(tcx, tr.def_id))));
                            o.push(("impl_trait_ref".to_string(), J::s(ty::print::with_no_trimmed_paths!(format!("{:?}", tr)))));
                        }
                    }
                    DefKind::Trait => {
                        o.push(("in_trait".to_string(), J::s(mirdump::def_str(tcx, parent))));
                    }
                    _ => {}
                }
                o.push(("name".to_string(), J::s(tcx.item_name(did).as_str())));
            }
        }
        if kind == DefKind::Closure {
            o.push(("parent".to_string(), J::s(mirdump::def_str(tcx, tcx.typeck_root_def_id(did)))));
        }
        fns.push((mirdump::def_str(tcx, did), J::Obj(o)));
    }
    J::Obj(fns)
}

impl rustc_driver::Callbacks for Cb {
    fn after_analysis<'tcx>(&mut self, _c: &rustc_interface::interface::Compiler, tcx: TyCtxt<'tcx>) -> Compilation {
        let Some(out) = self.out.clone() else {
            return Compilation::Continue;
        };
        let crate_name = tcx.crate_name(rustc_hir::def_id::LOCAL_CRATE).to_string();
        if crate_name != "regress" {
            return Compilation::Continue;
        }
        // Only the lib target: a crate with no `Regex` type is not it.
        let mut root = Vec::new();
        root.push(("config".to_string(), J::s(&self.config)));
        root.push(("crate".to_string(), J::s(&crate_name)));
        root.push(("debug_assertions".to_string(), J::Bool(tcx.sess.opts.debug_assertions)));
        root.push(("fns".to_string(), fn_facts(tcx)));

        // MIR
        let cx = mirdump::Cx { tcx, owner: std::cell::Cell::new(None) };
        let mut bodies = Vec::new();
        for ldid in tcx.hir_body_owners() {
            let did = ldid.to_def_id();
            if let Some(j) = cx.dump_owner(did) {
                bodies.push((mirdump::def_str(tcx, did), j));
            }
        }
        root.push(("mir".to_string(), J::Obj(bodies)));

        // HIR (functions only; closures are nested in their parents; consts are handled by `tables`)
        let mut hirs = Vec::new();
        for ldid in tcx.hir_body_owners() {
            let did = ldid.to_def_id();
            match tcx.def_kind(did) {
                DefKind::Fn | DefKind::AssocFn => {}
                _ => continue,
            }
            if let Some(j) = hirdump::dump_body(tcx, ldid) {
                hirs.push((mirdump::def_str(tcx, did), j));
            }
        }
        root.push(("hir".to_string(), J::Obj(hirs)));

        root.push(("adts".to_string(), typewalk::adts(tcx)));
        root.push(("typewalk".to_string(), typewalk::walks(tcx)));
        root.push(("statics".to_string(), typewalk::statics(tcx)));
        root.push(("trait_impls".to_string(), typewalk::trait_impls(tcx)));
        root.push(("consts".to_string(), tables::consts(tcx)));
        root.push(("cfg_attrs".to_string(), tables::cfg_traces(tcx)));

        let mut s = String::new();
        J::Obj(root).write(&mut s);
        std::fs::write(&out, s).expect("write facts");
        Compilation::Continue
    }
}

fn main() {
    let mut args: Vec<String> = std::env::args().collect();
    // Wrapper mode: argv[1] is the path of the real rustc.
    if args.len() > 1 && (args[1].ends_with("rustc") || args[1].contains("/rustc")) {
        args.remove(1);
    }
    let is_regress_lib = {
        let mut name_ok = false;
        let mut lib = false;
        let mut it = args.iter();
        while let Some(a) = it.next() {
            if a == "--crate-name" {
                if let Some(n) = it.next() {
                    name_ok = n == "regress";
                }
            }
            if a == "--crate-type" {
                if let Some(n) = it.next() {
                    lib = n == "lib";
                }
            }
        }
        name_ok && lib && !args.iter().any(|a| a == "--test")
    };
    let out = if is_regress_lib { std::env::var("REGRESS_FACTS_OUT").ok() } else { None };
    let config = std::env::var("REGRESS_FACTS_CONFIG").unwrap_or_else(|_| "default".into());
    let mut cb = Cb { out, config };
    rustc_driver::run_compiler(&args, &mut cb);
}

"""TABLES / WIRING — generated Unicode tables are well-formed, correctly wired and mutually consistent
(C10, C11). All checks read the literal initialisers extracted from the type-checked crate; no table is
executed. What is NOT established: agreement of the contents with Unicode 17 (no UCD copy offline).
"""
import json
import os
import re

from . import core, hirutil as H
from .report import RuleResult

MAXCP = 0x10FFFF


# ---- interval algebra -------------------------------------------------------------------------

def norm(ivs):
    out = []
    for a, b in sorted(ivs):
        if out and a <= out[-1][1] + 1:
            out[-1][1] = max(out[-1][1], b)
        else:
            out.append([a, b])
    return [tuple(x) for x in out]


def union(*sets):
    return norm([iv for s in sets for iv in s])


def complement(s):
    out = []
    cur = 0
    for a, b in norm(s):
        if a > cur:
            out.append((cur, a - 1))
        cur = b + 1
    if cur <= MAXCP:
        out.append((cur, MAXCP))
    return out


def intersect(x, y):
    out = []
    i = j = 0
    x, y = norm(x), norm(y)
    while i < len(x) and j < len(y):
        a = max(x[i][0], y[j][0])
        b = min(x[i][1], y[j][1])
        if a <= b:
            out.append((a, b))
        if x[i][1] < y[j][1]:
            i += 1
        else:
            j += 1
    return out


def minus(x, y):
    return intersect(x, complement(y))


def subset(x, y):
    return not minus(x, y)


def count(s):
    return sum(b - a + 1 for a, b in s)


def first_cp(s):
    return "U+%04X" % s[0][0] if s else "-"


# ---- table access ---------------------------------------------------------------------------

def interval_tables(facts):
    out = {}
    for name, c in facts.consts.items():
        if "rows" not in c:
            continue
        if re.search(r"\[codepointset::Interval; \d+\]", c.get("ty", "")):
            rows = []
            ok = True
            for i, row in enumerate(c["rows"]):
                if len(row) == 2:
                    rows.append((row[0], row[1]))
                elif len(row) == 1:
                    rows.append((row[0], row[0]))
                else:
                    ok = False
            out[name] = (rows, ok, c)
    return out


def fold_rows(facts, name):
    c = facts.consts.get(name)
    if not c or "rows" not in c or c.get("ctor") != "unicode::FoldRange::from":
        return None
    return [tuple(r) for r in c["rows"]]


def fold_map(rows):
    m = {}
    for start, length, delta, modulo in rows:
        for cp in range(start, start + length):
            if (cp - start) % modulo == 0 and delta != 0:
                m[cp] = cp + delta
    return m


def dispatcher(facts, fn, enum_rx):
    """variant -> const table name, through `match value { V => v_ranges() }` and `fn v_ranges() { &V }`."""
    h = facts.hir.get(fn)
    if not h:
        return None
    ms = H.find_matches(h["body"], enum_rx)
    if not ms:
        return None
    out = {}
    for a in ms[0]["arms"]:
        vs = [v for v in H.pat_variants(a["pat"]) if v != "_"]
        calls = [c for c in H.calls_in(a["body"]) if c.startswith("unicodetables::")]
        direct = [p for p in H.ctor_paths(a["body"]) if p in facts.consts]
        for v in vs:
            tbl = None
            if calls:
                hh = facts.hir.get(calls[0])
                if hh:
                    refs = [p for p in H.ctor_paths(hh["body"]) if p in facts.consts]
                    tbl = refs[0] if refs else None
            elif direct:
                tbl = direct[0]
            out[H.short(v)] = (calls[0] if calls else None, tbl)
    return out


def from_str_arms(facts, fn):
    """variant -> set of accepted strings."""
    h = facts.hir.get(fn)
    if not h:
        return None
    ms = [m for m in H.find_matches(h["body"], r"str") if len(m["arms"]) > 2]
    if not ms:
        return None
    out = {}
    for a in ms[0]["arms"]:
        p = a["pat"]
        ps = p["pats"] if p["k"] == "or" else [p]
        lits = [x["v"] for x in ps if x.get("k") == "lit"]
        cs = [c for c in H.ctor_paths(a["body"]) if c.startswith(("unicodetables::", "unicode::"))]
        if lits and cs:
            out.setdefault(H.short(cs[0]), set()).update(lits)
    return out


def canon(s):
    return re.sub(r"[^a-z0-9]", "", s.lower())


# ---- the rule ---------------------------------------------------------------------------------

def check_wellformed(facts):
    r = RuleResult("TABLES", "every [Interval; N] constant is sorted, within 0..=10FFFF, first <= last and strictly non-abutting "
                             "(precondition of interval_contains / from_sorted_disjoint_intervals); FOLDS and TO_UPPERCASE are sorted, "
                             "disjoint, stride a power of two that fits the mask, every image in range; the largest case-equivalence class "
                             "fits MAX_CHAR_SET_LENGTH; on ASCII the tables are exactly A-Z<->a-z (what ASCIICharProperties::fold hard-codes); "
                             "nonascii_folds_to_ascii_word_char lists exactly the non-ASCII code points whose fold is an ASCII word character")
    tabs = interval_tables(facts)
    for name, (rows, ok, c) in sorted(tabs.items()):
        key = "%s well-formed" % name
        where = "%s:%s" % (c.get("file"), c.get("lo"))
        if not ok:
            r.fail(key, "row with an unexpected number of fields", where)
            continue
        bad = None
        prev = None
        for i, (a, b) in enumerate(rows):
            if a > b:
                bad = "row %d: first U+%04X > last U+%04X" % (i, a, b)
            elif b > MAXCP:
                bad = "row %d: U+%X beyond 10FFFF" % (i, b)
            elif prev is not None and a <= prev + 1:
                bad = "row %d: U+%04X is not strictly after U+%04X + 1 (unsorted, overlapping or abutting)" % (i, a, prev)
            if bad:
                break
            prev = b
        if bad:
            r.fail(key, "%s — binary search / set construction over this table is wrong" % bad, "%s:%s" % (c.get("file"), c.get("lo", 0) + 1 + i))
        else:
            r.ok(key, "%d rows" % len(rows), nontrivial=len(rows) > 1)
    r.floor("interval_tables", len(tabs), 360)

    maxset = facts.consts.get("insn::MAX_CHAR_SET_LENGTH", {}).get("int") or facts.consts.get("insn::MAX_CHAR_SET_LENGTH", {}).get("eval")
    if not maxset:
        r.error("insn::MAX_CHAR_SET_LENGTH not found")
        maxset = 4
    for tname in ("unicodetables::FOLDS", "unicodetables::TO_UPPERCASE"):
        rows = fold_rows(facts, tname)
        if rows is None:
            r.error("%s not found or not a literal FoldRange table" % tname)
            continue
        c = facts.consts[tname]
        key = "%s well-formed" % tname
        bad = None
        prev_end = -1
        for i, (start, length, delta, modulo) in enumerate(rows):
            line = c.get("lo", 0) + 1 + i
            if length <= 0 or start <= prev_end:
                bad = "row %d (U+%04X): not sorted/disjoint" % (i, start)
            elif modulo not in (1, 2, 4, 8, 16):
                bad = "row %d (U+%04X): stride %d is not a power of two <= 16" % (i, start, modulo)
            elif not (0 <= start + delta and start + length - 1 + delta <= MAXCP):
                bad = "row %d (U+%04X): image out of range" % (i, start)
            elif start + length - 1 >= (1 << 20) - 1 or length > (1 << 12):
                bad = "row %d (U+%04X): does not fit CodePointRange packing" % (i, start)
            elif not (-(1 << 27) <= delta < (1 << 27)):
                bad = "row %d: delta does not fit" % i
            if bad:
                r.fail(key, bad, "%s:%s" % (c.get("file"), line))
                break
            prev_end = start + length - 1
        if not bad:
            r.ok(key, "%d rows" % len(rows))
        m = fold_map(rows)
        # equivalence classes: preimages of each canonical form + the form itself
        classes = {}
        for cp, img in m.items():
            classes.setdefault(img, {img}).add(cp)
        # an image that itself maps elsewhere (not idempotent) merges classes through the chain in the matcher's view
        worst = max(classes.items(), key=lambda kv: len(kv[1])) if classes else (0, set())
        key = "%s max class size" % tname
        if len(worst[1]) <= maxset:
            r.ok(key, "largest class has %d members (U+%04X), limit %d" % (len(worst[1]), worst[0], maxset))
        else:
            r.fail(key, "case-equivalence class of U+%04X has %d members > MAX_CHAR_SET_LENGTH %d: char_node / lower_code_point_sequence panic"
                   % (worst[0], len(worst[1]), maxset), "%s:%s" % (c.get("file"), c.get("lo")))
        # ASCII restriction
        ascii_part = {cp: img for cp, img in m.items() if cp < 0x80 or img < 0x80}
        key = "%s ASCII restriction" % tname
        if tname.endswith("FOLDS"):
            want = {cp: cp + 32 for cp in range(0x41, 0x5B)}
            extra = {cp: img for cp, img in ascii_part.items() if cp < 0x80 and want.get(cp) != img}
            missing = {cp for cp in want if m.get(cp) != want[cp]}
            if not extra and not missing:
                r.ok(key, "on 0..=7F exactly A-Z -> a-z")
            else:
                r.fail(key, "ASCII part of FOLDS differs from A-Z -> +32 (%s): ASCIICharProperties::fold and the tables disagree, so ASCII "
                            "and UTF-8 entry points differ under /iu" % sorted(list(extra.items()) + [(x, None) for x in missing])[:4],
                       "%s:%s" % (c.get("file"), c.get("lo")))
        else:
            want = {cp: cp - 32 for cp in range(0x61, 0x7B)}
            extra = {cp: img for cp, img in ascii_part.items() if cp < 0x80 and want.get(cp) != img}
            missing = {cp for cp in want if m.get(cp) != want[cp]}
            if not extra and not missing:
                r.ok(key, "on 0..=7F exactly a-z -> A-Z")
            else:
                r.fail(key, "ASCII part of TO_UPPERCASE differs from a-z -> -32 (%s)" % sorted(list(extra.items()) + [(x, None) for x in missing])[:4],
                       "%s:%s" % (c.get("file"), c.get("lo")))
            # legacy rule: non-ASCII must not upper-case into ASCII (ES: "if ch's code unit value >= 128 and cu's < 128, return ch")
            offenders = sorted(cp for cp, img in m.items() if cp >= 0x80 and img < 0x80)
            guarded, why = uppercase_guarded(facts)
            for cp in offenders:
                key2 = "TO_UPPERCASE maps non-ASCII U+%04X to ASCII" % cp
                if guarded:
                    r.ok(key2, "filtered by the legacy guard: %s" % why)
                else:
                    r.fail(key2, "legacy (non-u) canonicalisation must leave U+%04X alone (its upper case '%s' is ASCII), but the table maps it "
                                 "and %s" % (cp, chr(m[cp]), why), "%s:%s" % (c.get("file"), c.get("lo")))

    # nonascii_folds_to_ascii_word_char
    fn = "unicodetables::nonascii_folds_to_ascii_word_char"
    h = facts.hir.get(fn)
    rows = fold_rows(facts, "unicodetables::FOLDS")
    if h is None or rows is None:
        r.error("anchor %s not found" % fn)
    else:
        m = fold_map(rows)
        word = set(range(0x30, 0x3A)) | set(range(0x41, 0x5B)) | set(range(0x61, 0x7B)) | {0x5F}
        want = {cp for cp, img in m.items() if cp >= 0x80 and img in word}
        got = set()
        for mm in H.find_matches(h["body"], r"u32"):
            for a in mm["arms"]:
                body = H.strip_types(a["body"])
                if body.get("k") == "lit" and body.get("v") is True:
                    p = a["pat"]
                    for x in (p["pats"] if p["k"] == "or" else [p]):
                        if x.get("k") == "lit":
                            got.add(x["v"])
                        elif x.get("k") == "range":
                            got |= set(range(x["lo"]["v"], x["hi"]["v"] + (1 if x.get("incl") else 0)))
        key = "%s == {c >= 0x80 : fold(c) is an ASCII word char}" % fn
        if got == want:
            r.ok(key, "%s" % sorted("U+%04X" % x for x in got))
        else:
            r.fail(key, "\\b under /iu disagrees with \\w: listed %s, derived from FOLDS %s" % (
                sorted("U+%04X" % x for x in got), sorted("U+%04X" % x for x in want)), facts.loc(fn))
    return r


def uppercase_guarded(facts):
    """Every result of FoldRange::apply in a function that reads TO_UPPERCASE must pass through a guard function that
    compares both its arguments with 128 before it is used."""
    users = []
    for fn in facts.body_names():
        if not fn.startswith("unicode::") or "::tests::" in fn:
            continue
        b = facts.body(fn)
        txt = json.dumps([b.j] + b.j.get("promoted", []))
        if "unicodetables::TO_UPPERCASE" in txt:
            users.append(fn)
    if not users:
        return False, "no function reads TO_UPPERCASE"

    def is_guard(g):
        if not facts.has_body(g):
            return False
        gb = facts.body(g)
        cmps = 0
        for bi, i, s in gb.iter_stmts():
            if s["k"] == "assign" and s["rv"]["k"] == "bin" and s["rv"]["op"] in ("Ge", "Lt", "Gt", "Le"):
                for o in (s["rv"]["a"], s["rv"]["b"]):
                    if o["k"] == "const" and o.get("int") in (128, 127):
                        cmps += 1
        return cmps >= 2
    for fn in users:
        b = facts.body(fn)
        applies = [(bb, t) for bb, t in b.iter_calls() if (t.get("callee") or "").endswith("FoldRange::apply")]
        for bb, t in applies:
            d = t["dest"]["l"]
            uses = []
            for b2, t2 in b.iter_calls():
                for a in t2["args"]:
                    if a["k"] in ("copy", "move") and b.root_of(a["pl"]["l"])[0] == d:
                        uses.append(t2.get("resolved") or t2.get("callee"))
            if not uses or not all(is_guard(u) for u in uses):
                return False, "%s uses FoldRange::apply on TO_UPPERCASE without the non-ASCII-to-ASCII guard" % fn
    return True, "results of FoldRange::apply in %s pass through a >=128 / <128 guard" % ", ".join(x.split("::")[-1] for x in users)


def check_mode(facts):
    """mode awareness: functions of unicode.rs used from outside that reach a fold table reach both tables."""
    r = RuleResult("FOLDMODE", "every function of unicode.rs that is called from another module and reaches a case table reaches both FOLDS "
                               "(u/v: simple case folding) and TO_UPPERCASE (legacy: toUpperCase) — the canonicalisation depends on the unicode "
                               "flag — unless it is only called on unicode-mode paths")
    reach_tbl = {}
    cg = facts.callgraph()

    def tables_of(fn, seen=None):
        seen = seen or set()
        if fn in seen:
            return set()
        seen.add(fn)
        out = set()
        b = facts.body(fn) if facts.has_body(fn) else None
        if b is None:
            return out
        bodies = [b.j] + b.j.get("promoted", [])
        txt = json.dumps(bodies)
        if "unicodetables::FOLDS" in txt:
            out.add("FOLDS")
        if "unicodetables::TO_UPPERCASE" in txt:
            out.add("TO_UPPERCASE")
        for callee in cg.get(fn, ()):
            if callee.startswith("unicode::") or callee.startswith("<unicode::"):
                out |= tables_of(callee, seen)
        return out
    n = 0
    for fn in sorted(facts.body_names()):
        if not fn.startswith("unicode::") or "{closure" in fn or "::tests::" in fn:
            continue
        callers = [c for c, es in cg.items() if fn in es and not c.startswith(("unicode::", "<unicode::"))]
        if not callers:
            continue
        t = tables_of(fn)
        if not t:
            continue
        n += 1
        key = "%s reaches %s" % (fn, "+".join(sorted(t)))
        if t == {"FOLDS", "TO_UPPERCASE"}:
            r.ok(key, "mode-aware (called from %s)" % sorted(x.split("::")[-1] for x in callers)[:3])
        else:
            r.fail(key, "%s reaches only %s but is called from %s without regard to the unicode flag: classes under /i (legacy mode) are closed "
                        "under simple case folding instead of toUpperCase" % (fn, sorted(t), sorted(callers)[:3]), facts.loc(fn))
    r.floor("exported_case_functions", n, 3)
    # the canonicaliser of a single code point answers from its table: a function of unicode.rs that binary-searches FOLDS or
    # TO_UPPERCASE for its argument has no return that bypasses the search (a hand-written 'fast path' for some range is a second,
    # unchecked copy of part of the table: U+00FF and U+00B5 have upper-case partners outside Latin-1)
    ns = 0
    for fn in sorted(facts.body_names()):
        if not fn.startswith("unicode::") or "{closure" in fn or "::tests::" in fn:
            continue
        b = facts.body(fn)
        if not re.match(r"^u(8|16|32|64|size)$", b.local_ty(0) or ""):
            continue
        searches = [bb for bb, t in b.iter_calls() if (t.get("callee") or "").split("::")[-1].startswith("binary_search")]
        txt = json.dumps([b.j] + b.j.get("promoted", []))
        if not searches or not ("unicodetables::FOLDS" in txt or "unicodetables::TO_UPPERCASE" in txt):
            continue
        ns += 1
        key = "%s answers from its table on every path" % fn
        rets = {x for x in b.reachable() if b.blocks[x]["t"]["k"] == "return"}
        if 0 not in searches and b.reach_from(0, avoid=set(searches)) & rets:
            r.fail(key, "a path returns from %s without searching the case table (a hand-written fast path): that path is a second copy "
                        "of part of the table which nothing checks against it" % fn.split("::")[-1], facts.loc(fn))
        else:
            r.ok(key, "every return passes the table search")
    r.floor("table_searching_canonicalisers", ns, 2)
    # preimages are found by scanning the whole table: the rows are sorted by *source*, the targets are not (deltas of both signs),
    # so an `unfold*` function iterates over the entire static table — the argument of `.iter()` is the array itself (an unsizing
    # of `&[FoldRange; N]`), never a sub-slice chosen by a search window
    nu = 0
    for fn in sorted(facts.body_names()):
        if not re.match(r"^unicode::unfold\w*$", fn):
            continue
        b = facts.body(fn)
        k = 0
        for bb, t in b.iter_calls():
            cal = t.get("callee") or ""
            aty = str(t["args"][0].get("pl", {}).get("ty", "")) if t["args"] else ""
            if not (cal.endswith("::iter") or cal.endswith("IntoIterator::into_iter")) or not aty.startswith("&[unicode::FoldRange"):
                continue
            nu += 1
            k += 1
            key = "%s table scan #%d covers the whole table" % (fn, k)
            d = b.single_def(t["args"][0]["pl"]["l"]) if t["args"][0].get("k") in ("copy", "move") else None
            whole = bool(d) and d[2] == "assign" and d[3]["rv"]["k"] == "cast" and "Unsize" in str(d[3]["rv"].get("ck")) and \
                re.search(r"\[unicode::FoldRange; \d+\]", str(d[3]["rv"].get("from", "")))
            if whole:
                r.ok(key)
            else:
                r.fail(key, "%s iterates over a part of the case table (line %s): rows are sorted by source, not by target, and deltas have "
                            "both signs (down to -42561), so a window chosen from the sources misses preimages that lie far away "
                            "(U+AB70 folds to U+13A0: `[Ꭰ]` under `i` no longer matches it)" % (fn.split("::")[-1], t.get("line")),
                       facts.loc(fn, t.get("line")))
    r.floor("preimage_table_scans", nu, 2)
    return r


GROUPS = {
    "Letter": ["Uppercase_Letter", "Lowercase_Letter", "Titlecase_Letter", "Modifier_Letter", "Other_Letter"],
    "Cased_Letter": ["Uppercase_Letter", "Lowercase_Letter", "Titlecase_Letter"],
    "Mark": ["Nonspacing_Mark", "Spacing_Mark", "Enclosing_Mark"],
    "Number": ["Decimal_Number", "Letter_Number", "Other_Number"],
    "Punctuation": ["Connector_Punctuation", "Dash_Punctuation", "Open_Punctuation", "Close_Punctuation", "Initial_Punctuation",
                    "Final_Punctuation", "Other_Punctuation"],
    "Symbol": ["Math_Symbol", "Currency_Symbol", "Modifier_Symbol", "Other_Symbol"],
    "Separator": ["Space_Separator", "Line_Separator", "Paragraph_Separator"],
    "Other": ["Control", "Format", "Surrogate", "Private_Use", "Unassigned"],
}
LEAVES = sorted({x for v in GROUPS.values() for x in v})

CLOSED = {
    "Join_Control": [(0x200C, 0x200D)],
    "Regional_Indicator": [(0x1F1E6, 0x1F1FF)],
    "ASCII_Hex_Digit": [(0x30, 0x39), (0x41, 0x46), (0x61, 0x66)],
    "Hex_Digit": [(0x30, 0x39), (0x41, 0x46), (0x61, 0x66), (0xFF10, 0xFF19), (0xFF21, 0xFF26), (0xFF41, 0xFF46)],
    "Noncharacter_Code_Point": [(0xFDD0, 0xFDEF)] + [(p * 0x10000 + 0xFFFE, p * 0x10000 + 0xFFFF) for p in range(17)],
    "Pattern_White_Space": [(0x9, 0xD), (0x20, 0x20), (0x85, 0x85), (0x200E, 0x200F), (0x2028, 0x2029)],
    "Variation_Selector": [(0x180B, 0x180D), (0x180F, 0x180F), (0xFE00, 0xFE0F), (0xE0100, 0xE01EF)],
    "Bidi_Control": [(0x061C, 0x061C), (0x200E, 0x200F), (0x202A, 0x202E), (0x2066, 0x2069)],
    "Emoji_Modifier": [(0x1F3FB, 0x1F3FF)],
    "ASCII": [(0, 0x7F)],
    "Any": [(0, MAXCP)],
}
CLOSED_GC = {
    "Surrogate": [(0xD800, 0xDFFF)],
    "Line_Separator": [(0x2028, 0x2028)],
    "Paragraph_Separator": [(0x2029, 0x2029)],
    "Control": [(0, 0x1F), (0x7F, 0x9F)],
}


def check_identities(facts):
    r = RuleResult("UAX44", "identities that UAX #44 / UTS #51 impose between tables, checked on the extracted constants: the 30 leaf "
                            "General_Category tables partition 0..=10FFFF, each group equals the union of its members, Assigned = not Cn, "
                            "Script tables are pairwise disjoint and cover everything, scx(X) >= sc(X) minus Common/Inherited, derived "
                            "binary properties contain / equal what they are defined from, stable closed-form properties have their fixed "
                            "value, and the case tables' domains lie inside Changes_When_Casefolded / Changes_When_Uppercased")
    es = json.load(open(os.path.join(core.VERIF, "tables", "es_properties.json")))
    gcd = dispatcher(facts, "unicodetables::general_category_property_value_ranges", r"UnicodePropertyValueGeneralCategory")
    bd = dispatcher(facts, "unicodetables::binary_property_ranges", r"UnicodePropertyBinary")
    scd = dispatcher(facts, "unicodetables::script_value_ranges", r"UnicodePropertyValueScript")
    scxd = dispatcher(facts, "unicodetables::script_extensions_value_ranges", r"UnicodePropertyValueScript")
    if not (gcd and bd and scd and scxd):
        r.error("dispatcher anchors not found")
        return r
    tabs = interval_tables(facts)

    def table_of(disp, variant):
        ent = disp.get(variant)
        if not ent or not ent[1] or ent[1] not in tabs:
            return None
        return norm(tabs[ent[1]][0])

    def gc(name):
        return table_of(gcd, name.replace("_", ""))

    def bp(name):
        # enum variants are the names with underscores removed
        for v in bd:
            if canon(v) == canon(name):
                return table_of(bd, v)
        return None

    def need(key, cond, msg, where=None):
        if cond:
            r.ok(key)
        else:
            r.fail(key, msg, where)

    # General_Category
    leaves = {n: gc(n) for n in LEAVES}
    missing = [n for n, t in leaves.items() if t is None]
    if missing:
        r.error("General_Category leaf tables not resolvable: %s" % missing)
        return r
    tot = sum(count(t) for t in leaves.values())
    allu = union(*leaves.values())
    need("gc leaves partition 0..=10FFFF", tot == MAXCP + 1 and allu == [(0, MAXCP)],
         "the 30 leaf General_Category tables do not partition the code space: they cover %d code points in total (expected %d), union %s; "
         "a code point has no category or two" % (tot, MAXCP + 1, "complete" if allu == [(0, MAXCP)] else "has gaps"))
    # locate overlap/gap for the message
    if tot != MAXCP + 1 or allu != [(0, MAXCP)]:
        names = sorted(leaves)
        for i in range(len(names)):
            for j in range(i + 1, len(names)):
                ov = intersect(leaves[names[i]], leaves[names[j]])
                if ov:
                    r.fail("gc %s and %s disjoint" % (names[i], names[j]), "%s and %s share %s" % (names[i], names[j], first_cp(ov)))
        gaps = complement(allu)
        if gaps:
            r.fail("gc leaves cover everything", "no General_Category for %s (+%d more)" % (first_cp(gaps), count(gaps) - 1))
    for g, members in GROUPS.items():
        t = gc(g)
        if t is None:
            r.error("group table %s not found" % g)
            continue
        u = union(*[leaves[m] for m in members])
        need("gc %s == union(%s)" % (g, ",".join(m.split("_")[0][:2] + m.split("_")[-1][:1] for m in members)), t == u,
             "General_Category=%s is not the union of its members: differs at %s" % (g, first_cp(minus(t, u) or minus(u, t))))
    for n, want in CLOSED_GC.items():
        need("gc %s closed form" % n, leaves[n] == norm(want), "General_Category=%s should be exactly %s (stable), table differs at %s" % (
            n, want, first_cp(minus(leaves[n], want) or minus(want, leaves[n]))))
    asg = bp("Assigned")
    need("Assigned == not Unassigned", asg is not None and asg == complement(leaves["Unassigned"]),
         "Assigned is not the complement of General_Category=Unassigned")
    for n, want in CLOSED.items():
        t = bp(n)
        if t is None:
            r.error("binary property %s not resolvable" % n)
            continue
        need("%s closed form" % n, t == norm(want), "%s should be exactly the stable set %s…, table differs at %s" % (
            n, [("U+%04X" % a, "U+%04X" % b) for a, b in want[:2]], first_cp(minus(t, want) or minus(norm(want), t))))

    L = union(*[leaves[m] for m in GROUPS["Letter"]])
    rel = [
        ("Lowercase", ">=", leaves["Lowercase_Letter"], "Ll"),
        ("Uppercase", ">=", leaves["Uppercase_Letter"], "Lu"),
        ("Cased", ">=", union(*[leaves[m] for m in GROUPS["Cased_Letter"]]), "LC"),
        ("Alphabetic", ">=", union(L, leaves["Letter_Number"]), "L + Nl"),
        ("White_Space", ">=", union(leaves["Space_Separator"], leaves["Line_Separator"], leaves["Paragraph_Separator"]), "Z"),
        ("Math", ">=", leaves["Math_Symbol"], "Sm"),
        ("Dash", ">=", leaves["Dash_Punctuation"], "Pd"),
        ("Grapheme_Extend", ">=", union(leaves["Nonspacing_Mark"], leaves["Enclosing_Mark"]), "Mn + Me"),
        ("Case_Ignorable", ">=", union(leaves["Nonspacing_Mark"], leaves["Enclosing_Mark"], leaves["Format"], leaves["Modifier_Letter"],
                                        leaves["Modifier_Symbol"]), "Mn + Me + Cf + Lm + Sk"),
    ]
    for name, op, other, desc in rel:
        t = bp(name)
        if t is None:
            r.error("binary property %s not resolvable" % name)
            continue
        need("%s >= %s" % (name, desc), subset(other, t), "%s must contain %s; missing %s (+%d)" % (
            name, desc, first_cp(minus(other, t)), max(0, count(minus(other, t)) - 1)))
    pairs = [("ID_Start", "ID_Continue"), ("XID_Start", "ID_Start"), ("XID_Continue", "ID_Continue"), ("XID_Start", "XID_Continue"),
             ("ASCII_Hex_Digit", "Hex_Digit"), ("Unified_Ideograph", "Ideographic"), ("Emoji_Presentation", "Emoji"),
             ("Emoji_Modifier_Base", "Emoji"), ("Emoji_Modifier", "Emoji"), ("Lowercase", "Cased"), ("Uppercase", "Cased"),
             ("Lowercase", "Alphabetic"), ("Uppercase", "Alphabetic"), ("Changes_When_Lowercased", "Changes_When_Casemapped"),
             ("Changes_When_Uppercased", "Changes_When_Casemapped"), ("Changes_When_Titlecased", "Changes_When_Casemapped"),
             ("ASCII", "Assigned"), ("Emoji_Presentation", "Extended_Pictographic_or_Emoji")]
    for a, b in pairs:
        ta = bp(a)
        tb = union(bp("Extended_Pictographic") or [], bp("Emoji") or []) if b == "Extended_Pictographic_or_Emoji" else bp(b)
        if ta is None or tb is None:
            r.error("binary property %s/%s not resolvable" % (a, b))
            continue
        need("%s <= %s" % (a, b), subset(ta, tb), "%s must be a subset of %s; %s is not" % (a, b, first_cp(minus(ta, tb))))
    lo, up = bp("Lowercase"), bp("Uppercase")
    if lo and up:
        need("Lowercase and Uppercase disjoint", not intersect(lo, up), "Lowercase and Uppercase share %s" % first_cp(intersect(lo, up)))
        cas = bp("Cased")
        need("Cased == Lowercase + Uppercase + Lt", cas == union(lo, up, leaves["Titlecase_Letter"]),
             "Cased differs from Lowercase + Uppercase + Titlecase_Letter at %s" % first_cp(minus(cas, union(lo, up, leaves["Titlecase_Letter"])) or minus(union(lo, up, leaves["Titlecase_Letter"]), cas)))
    cwcm = bp("Changes_When_Casemapped")
    if cwcm:
        u3 = union(bp("Changes_When_Lowercased"), bp("Changes_When_Uppercased"), bp("Changes_When_Titlecased"))
        need("CWCM == CWL + CWU + CWT", cwcm == u3, "Changes_When_Casemapped differs from CWL+CWU+CWT at %s" % first_cp(minus(cwcm, u3) or minus(u3, cwcm)))
    ids = bp("ID_Start")
    if ids:
        base = minus(minus(union(L, leaves["Letter_Number"]), bp("Pattern_Syntax")), bp("Pattern_White_Space"))
        need("ID_Start >= (L + Nl) - Pattern_Syntax - Pattern_White_Space", subset(base, ids),
             "ID_Start misses %s" % first_cp(minus(base, ids)))
    gb = bp("Grapheme_Base")
    if gb:
        want = complement(union(leaves["Control"], leaves["Format"], leaves["Surrogate"], leaves["Private_Use"], leaves["Unassigned"],
                                leaves["Line_Separator"], leaves["Paragraph_Separator"], bp("Grapheme_Extend")))
        need("Grapheme_Base == not(Cc+Cf+Cs+Co+Cn+Zl+Zp+Grapheme_Extend)", gb == want,
             "Grapheme_Base differs from its definition at %s" % first_cp(minus(gb, want) or minus(want, gb)))

    # case tables vs CWCF / CWU
    # (dom(FOLDS) <= Changes_When_Casefolded is NOT an identity: CWCF is defined on NFD(X), e.g. U+1FBE.)
    for tname, prop in (("unicodetables::TO_UPPERCASE", "Changes_When_Uppercased"),):
        rows = fold_rows(facts, tname)
        t = bp(prop)
        if rows is None or t is None:
            r.error("%s / %s not resolvable" % (tname, prop))
            continue
        dom = norm([(cp, cp) for cp in fold_map(rows)])
        need("dom(%s) <= %s" % (tname.split("::")[-1], prop), subset(dom, t),
             "%s changes %s, which %s says does not change" % (tname.split("::")[-1], first_cp(minus(dom, t)), prop))

    # simple case folding factors through simple uppercase: fold(toUpper(x)) == fold(x). (CaseFolding.txt C+S rows are built from
    # the lowercase of the uppercase; the one exception is U+0131, whose uppercase `I` folds to `i` — the Turkic T rows are not used.)
    fr, ur = fold_rows(facts, "unicodetables::FOLDS"), fold_rows(facts, "unicodetables::TO_UPPERCASE")
    if fr is None or ur is None:
        r.error("FOLDS / TO_UPPERCASE rows not resolvable")
    else:
        fo, upm = fold_map(fr), fold_map(ur)
        badp = [(x, u) for x, u in sorted(upm.items()) if x != 0x131 and fo.get(u, u) != fo.get(x, x)]
        need("fold(toUpper(x)) == fold(x) over dom(TO_UPPERCASE) (%d code points, U+0131 excepted)" % len(upm), not badp,
             "U+%04X uppercases to U+%04X, but the two do not have the same simple case folding (%s): a FOLDS row is missing or wrong — "
             "e.g. the status-S rows (U+1F88 -> U+1F80, U+1E9E -> U+00DF) were dropped" % (
                 badp[0][0] if badp else 0, badp[0][1] if badp else 0,
                 "U+%04X vs U+%04X" % (fo.get(badp[0][1], badp[0][1]), fo.get(badp[0][0], badp[0][0])) if badp else ""))
        r.floor("uppercase_pairs", len(upm), 1400)

    # scripts
    scripts = {}
    for v, ent in scd.items():
        if ent[1] in tabs:
            scripts[v] = norm(tabs[ent[1]][0])
    tot = sum(count(t) for t in scripts.values())
    alls = union(*scripts.values()) if scripts else []
    need("Script tables partition 0..=10FFFF", tot == MAXCP + 1 and alls == [(0, MAXCP)],
         "Script tables cover %d code points in total (expected %d): a code point has no script or two" % (tot, MAXCP + 1))
    if tot != MAXCP + 1 or alls != [(0, MAXCP)]:
        names = sorted(scripts)
        # sweep to find an overlap
        evs = sorted((a, b, n) for n in names for a, b in scripts[n])
        for (a1, b1, n1), (a2, b2, n2) in zip(evs, evs[1:]):
            if a2 <= b1:
                r.fail("Script %s and %s disjoint" % (n1, n2), "U+%04X is in both Script=%s and Script=%s" % (a2, n1, n2))
                break
        gaps = complement(alls)
        if gaps:
            r.fail("Script tables cover everything", "%s has no Script" % first_cp(gaps))
    nscx = 0
    for v, ent in scxd.items():
        if v in ("Common", "Inherited", "Unknown") or ent[1] not in tabs or v not in scripts:
            continue
        nscx += 1
        tx = norm(tabs[ent[1]][0])
        if not subset(scripts[v], tx):
            r.fail("scx(%s) >= sc(%s)" % (v, v), "Script_Extensions=%s lacks %s, which has Script=%s" % (v, first_cp(minus(scripts[v], tx)), v))
    if nscx:
        r.ok("scx(X) >= sc(X) for %d scripts" % nscx)
    # every code point has at least one Script_Extensions value
    allx = union(*[norm(tabs[e[1]][0]) for v, e in scxd.items() if e[1] in tabs])
    need("Script_Extensions tables cover 0..=10FFFF", allx == [(0, MAXCP)], "%s has no Script_Extensions value" % first_cp(complement(allx)))
    r.floor("scripts", len(scripts), 150)
    return r


def check_wiring(facts):
    r = RuleResult("WIRING", "name -> enum -> table wiring: in every *_from_str each accepted string normalises (case, underscores) to its "
                             "variant or is a listed alias; the accepted name sets for binary properties, General_Category values and "
                             "property names equal the ECMAScript tables (tables/es_properties.json); every dispatcher arm `Foo => "
                             "foo_ranges()` returns the constant FOO; no two variants share a table; string properties are gated by the v flag")
    es = json.load(open(os.path.join(core.VERIF, "tables", "es_properties.json")))
    # from_str name sets
    for fn, want, label in (("unicodetables::unicode_property_binary_from_str", es["binary"], "binary property"),
                            ("unicodetables::unicode_property_value_general_category_from_str", es["general_category"], "General_Category value")):
        got = from_str_arms(facts, fn)
        if got is None:
            r.error("anchor %s not found" % fn)
            continue
        by_canon = {canon(k): set([k] + v) for k, v in want.items()}
        for variant, strs in sorted(got.items()):
            key = "%s variant=%s" % (fn.split("::")[-1], variant)
            w = by_canon.get(canon(variant))
            if w is None:
                r.fail(key, "%s is not an ECMAScript %s" % (variant, label), facts.loc(fn))
            elif strs != w:
                r.fail(key, "accepted spellings %s differ from the ECMAScript table %s: a name/alias is missing, extra or wired to the "
                            "wrong variant" % (sorted(strs), sorted(w)), facts.loc(fn))
            else:
                r.ok(key)
        miss = [k for k in want if canon(k) not in {canon(v) for v in got}]
        if miss:
            r.fail("%s complete" % fn.split("::")[-1], "ECMAScript %s(s) not accepted: %s" % (label, miss), facts.loc(fn))
    # an explicit `Name=` prefix consults the value table of that name only
    fnp = "unicode::unicode_property_from_str"
    if fnp not in facts.hir:
        r.error("anchor %s not found" % fnp)
    else:
        from . import hirutil as HU
        ms = HU.find_matches(facts.hir[fnp]["body"], r"Option<unicode(tables)?::UnicodePropertyName>")
        ALLOWED = {
            "GeneralCategory": {"unicode_property_value_general_category_from_str", "general_category_property_value_ranges"},
            "Script": {"unicode_property_value_script_from_str", "script_value_ranges"},
            "ScriptExtensions": {"unicode_property_value_script_from_str", "script_extensions_value_ranges"},
            "None": {"unicode_property_binary_from_str", "binary_property_ranges", "unicode_string_property_from_str", "string_property_sets",
                     "unicode_property_value_general_category_from_str", "general_category_property_value_ranges"},
        }
        if not ms:
            r.error("%s: no match on the property name found" % fnp)
        else:
            seen_variants = set()
            for a in ms[0]["arms"]:
                def inner(pt):
                    """variants named by the pattern, looking inside Some(..)"""
                    k = pt.get("k")
                    if k == "or":
                        return [x for q in pt["pats"] for x in inner(q)]
                    if k == "tstruct" and HU.short((pt.get("res") or {}).get("path", "")) == "Some":
                        return [x for q in pt.get("pats", []) for x in inner(q)]
                    return [HU.short(v) for v in HU.pat_variants(pt)]
                vs = inner(a["pat"]) or ["_"]
                def lookups_in(body_, depth=0):
                    out_ = set()
                    for c in HU.calls_in(body_):
                        # a piece split off this function (new, called only from here) is looked through
                        if depth < 3 and c in facts.hir and c != fnp and "unicodetables" not in c and c not in core.fn_names_table() \
                                and facts.owner_of(c) == fnp:
                            out_ |= lookups_in(facts.hir[c]["body"], depth + 1)
                        elif re.search(r"_from_str$|_ranges$|_sets$", c.split("::")[-1]):
                            out_.add(c.split("::")[-1])
                    return out_
                lookups = lookups_in(a["body"])
                for v in vs:
                    seen_variants.add(v)
                    key = "unicode_property_from_str name=%s" % v
                    allowed = ALLOWED.get(v)
                    if allowed is None:
                        r.fail(key, "unexpected arm for property name %s" % v, facts.loc(fnp, a.get("line")))
                    elif not lookups <= allowed:
                        r.fail(key, "with the property name `%s` the value is also looked up through %s: `\\p{%s=X}` accepts values that "
                                    "are not %s values (e.g. binary property names) instead of rejecting them" % (
                                        v, sorted(lookups - allowed), {"GeneralCategory": "gc", "Script": "sc", "ScriptExtensions": "scx"}.get(v, v), v),
                               facts.loc(fnp, a.get("line")))
                    elif v != "None" and not lookups:
                        r.fail(key, "no value table is consulted for property name %s" % v, facts.loc(fnp, a.get("line")))
                    else:
                        r.ok(key, "consults %s" % sorted(lookups))
            for v in ("GeneralCategory", "Script", "ScriptExtensions", "None"):
                if v not in seen_variants and "_" not in seen_variants:
                    r.fail("unicode_property_from_str name=%s" % v, "no arm handles property name %s" % v, facts.loc(fnp))
    # a lone name (`\\p{Lu}`) is rejected only after every always-applicable table has been asked: General_Category values and binary
    # properties (the string properties are asked in addition under `v`; their miss is not the verdict)
    if facts.has_body(fnp):
        b = facts.body(fnp)
        name_params = [l for l in range(1, b.argc + 1) if "UnicodePropertyName" in b.local_ty(l)]
        entry = None
        for bi in sorted(b.reachable()):
            blk = b.blocks[bi]
            for st in blk["s"]:
                if st["k"] == "assign" and st["rv"]["k"] == "discr" and name_params and b.root_of(st["rv"]["pl"]["l"])[0] == name_params[0] \
                        and blk["t"]["k"] == "switch":
                    names = dict((v, nme) for v, nme in st["rv"].get("variants", []))
                    tg = [t_ for v, t_ in blk["t"]["targets"] if names.get(v) == "None"]
                    if not tg and all(names.get(v) != "None" for v, _ in blk["t"]["targets"]):
                        tg = [blk["t"]["otherwise"]]
                    if tg and entry is None:
                        entry = tg[0]
        key = "unicode_property_from_str lone name is rejected only after the gc-value and binary tables were asked"
        if entry is None:
            r.error("%s: the branch for a lone name (no `name=`) was not found" % fnp)
        else:
            noneret = set()
            for bi in b.reachable():
                blk = b.blocks[bi]
                if any(st["k"] == "assign" and st["pl"]["l"] == 0 and not st["pl"]["p"] and st["rv"]["k"] == "agg" and str(st["rv"].get("variant")) == "None"
                       for st in blk["s"]):
                    noneret.add(bi)
                t_ = blk["t"]
                if t_["k"] == "call" and t_["dest"]["l"] == 0 and not t_["dest"]["p"] and (
                        (t_.get("callee") or "").endswith("FromResidual::from_residual") or facts.has_body(t_.get("callee") or "")):
                    noneret.add(bi)     # `?`, or the verdict of a local function returned as it is (it may be None)
            noneret &= b.reach_from(entry)
            probs = []
            nk = 0
            for kind, label in (("GeneralCategory", "General_Category value"), ("Binary", "binary property")):
                def asks(body_, t_, depth=0):
                    cal_ = t_.get("callee") or ""
                    if cal_.endswith("_from_str") and kind in body_.local_ty(t_["dest"]["l"]):
                        return True
                    # a piece split off this function: what it asks counts
                    if depth < 3 and facts.has_body(cal_) and cal_ != fnp and "unicodetables" not in cal_ and cal_ not in core.fn_names_table() \
                            and facts.owner_of(cal_) == fnp:
                        pb_ = facts.body(cal_)
                        return any(asks(pb_, t2_, depth + 1) for _, t2_ in pb_.iter_calls())
                    return False
                blocks = {bb_ for bb_, t_ in b.iter_calls() if asks(b, t_) and bb_ in b.reach_from(entry)}
                if not blocks:
                    probs.append("no %s lookup on the lone-name branch" % label)
                    continue
                nk += 1
                around = b.reach_from(entry, avoid=blocks)
                if around & noneret:
                    probs.append("a `None` (\"Invalid property name\") is returned on a path that never asked the %s table" % label)
            if probs:
                r.fail(key, "%s: under some flag combination a lone name that is a valid %s is rejected (e.g. `\\p{Lu}` under `v` when the "
                            "string-property miss is propagated with `?`)" % ("; ".join(probs), "General_Category value or binary property"), facts.loc(fnp))
            elif not noneret:
                r.error("%s: no None return found on the lone-name branch" % fnp)
            else:
                r.ok(key, "%d failing exits, each behind both lookups" % len(noneret))
    # script names: wiring only (long name normalises to the variant)
    fn = "unicodetables::unicode_property_value_script_from_str"
    got = from_str_arms(facts, fn)
    if got is None:
        r.error("anchor %s not found" % fn)
    else:
        bad = 0
        allstr = {}
        for variant, strs in got.items():
            if canon(variant) not in {canon(s) for s in strs}:
                bad += 1
                r.fail("script_from_str variant=%s" % variant, "none of the accepted strings %s spells Script=%s" % (sorted(strs), variant), facts.loc(fn))
            for s in strs:
                if s in allstr:
                    bad += 1
                    r.fail("script_from_str string=%s" % s, "%r is accepted for both %s and %s" % (s, allstr[s], variant), facts.loc(fn))
                allstr[s] = variant
        if not bad:
            r.ok("script_from_str: %d variants, long name spells the variant, no string shared" % len(got))
        r.floor("script_variants", len(got), 150)
    # property names
    fn = "unicode::unicode_property_name_from_str"
    got = from_str_arms(facts, fn)
    if got is None:
        r.error("anchor %s not found" % fn)
    else:
        want = {canon(k): set([k] + v) for k, v in es["property_names"].items()}
        ok = all(want.get(canon(v)) == s for v, s in got.items()) and len(got) == len(want)
        if ok:
            r.ok("property names gc/sc/scx")
        else:
            r.fail("property names gc/sc/scx", "accepted property names %s differ from ECMAScript %s" % (got, es["property_names"]), facts.loc(fn))
    # string properties
    fn = "unicodetables::unicode_string_property_from_str"
    got = from_str_arms(facts, fn)
    if got is not None:
        bad = [v for v, s in got.items() if {canon(x) for x in s} != {canon(v)}]
        if bad:
            r.fail("string property names", "string property spelling does not match its variant: %s" % bad, facts.loc(fn))
        else:
            r.ok("string property names (%d)" % len(got))
    # dispatchers
    for fn, rx in (("unicodetables::binary_property_ranges", r"UnicodePropertyBinary"),
                   ("unicodetables::general_category_property_value_ranges", r"UnicodePropertyValueGeneralCategory"),
                   ("unicodetables::script_value_ranges", r"UnicodePropertyValueScript"),
                   ("unicodetables::script_extensions_value_ranges", r"UnicodePropertyValueScript"),
                   ("unicodetables::string_property_sets", r"UnicodeStringProperty")):
        d = dispatcher(facts, fn, rx)
        if d is None:
            r.error("dispatcher %s not found" % fn)
            continue
        used = {}
        nbad = 0
        suffix = "_EXTENSIONS" if "extensions" in fn else ""
        for variant, (getter, tbl) in sorted(d.items()):
            key = "%s %s" % (fn.split("::")[-1], variant)
            exp_getter = canon(variant) + canon(suffix)
            if tbl and not getter:
                # direct reference `Variant => &TABLE`
                tn = canon(tbl.split("::")[-1])
                ext_exists = any(canon(k.split("::")[-1]) == exp_getter for k in facts.consts) if suffix else True
                okname = (tn == exp_getter) or (suffix and not ext_exists and tn == canon(variant))
                if not okname:
                    nbad += 1
                    r.fail(key, "%s is wired to %s (expected the %s table): \\p{..=%s} denotes another script's set" % (
                        variant, tbl.split("::")[-1], variant + suffix, variant), facts.loc(fn))
                if tbl in used:
                    nbad += 1
                    r.fail(key + " unique", "%s and %s share table %s" % (variant, used[tbl], tbl), facts.loc(fn))
                used[tbl] = variant
                continue
            if not getter or not tbl:
                if fn.endswith("string_property_sets") and getter:
                    # statics, not consts: compare getter name only
                    if canon(getter.split("::")[-1]).replace("sets", "") != canon(variant):
                        nbad += 1
                        r.fail(key, "%s is served by %s" % (variant, getter), facts.loc(fn))
                    continue
                nbad += 1
                r.fail(key, "cannot resolve the table returned for %s" % variant, facts.loc(fn))
                continue
            gname = canon(re.sub(r"_ranges$|_sets$", "", getter.split("::")[-1]))
            tname = canon(tbl.split("::")[-1])
            if gname != exp_getter or tname != exp_getter:
                nbad += 1
                r.fail(key, "%s is wired to %s -> %s (expected the %s table): \\p{%s} denotes another property's set" % (
                    variant, getter.split("::")[-1], tbl.split("::")[-1], (variant + suffix), variant), facts.loc(fn))
            if tbl in used:
                nbad += 1
                r.fail(key + " unique", "%s and %s share table %s" % (variant, used[tbl], tbl), facts.loc(fn))
            used[tbl] = variant
        if not nbad:
            r.ok("%s: %d variants wired to their own tables" % (fn.split("::")[-1], len(d)))
    # gate: string properties only with v
    pf = "parse::Parser::<I>::try_consume_unicode_property_escape"
    if facts.has_body(pf):
        b = facts.body(pf)
        calls = [t for bb, t in b.iter_calls() if (t.get("callee") or "") == "unicode::unicode_property_from_str"]
        ok = bool(calls)
        for t in calls:
            a = t["args"][2]
            good = False
            if a["k"] in ("copy", "move"):
                pl = a["pl"]
                for _ in range(4):
                    if core.proj_fields(pl)[-2:] == ["flags", "unicode_sets"]:
                        good = True
                        break
                    d = b.single_def(pl["l"]) if not pl["p"] else None
                    if d and d[2] == "assign" and d[3]["rv"]["k"] == "use" and d[3]["rv"]["op"]["k"] in ("copy", "move"):
                        pl = d[3]["rv"]["op"]["pl"]
                    else:
                        break
            ok = ok and good
        if ok:
            r.ok("string properties gated by flags.unicode_sets")
        else:
            r.fail("string properties gated by flags.unicode_sets", "the `unicode_sets` argument of unicode_property_from_str is not exactly "
                   "flags.unicode_sets: properties of strings would be accepted without the v flag", facts.loc(pf))
    else:
        r.error("anchor %s not found" % pf)
    # unicode_property_from_str: string sets consulted only under the unicode_sets parameter
    uf = "unicode::unicode_property_from_str"
    if facts.has_body(uf):
        b = facts.body(uf)
        ss = [bb for bb, t in b.iter_calls() if (t.get("callee") or "").endswith("unicode_string_property_from_str")]
        ok = bool(ss)
        for bb in ss:
            guarded = False
            for d in b.dom()[bb]:
                t = b.blocks[d]["t"]
                if t["k"] == "switch" and t["discr"]["k"] in ("copy", "move") and b.root_of(t["discr"]["pl"]["l"])[0] == 3 \
                        and t["otherwise"] in b.dom()[bb]:
                    guarded = True
            ok = ok and guarded
        if ok:
            r.ok("unicode_property_from_str consults string properties only when unicode_sets")
        else:
            r.fail("unicode_property_from_str consults string properties only when unicode_sets",
                   "string property lookup is not guarded by the unicode_sets parameter", facts.loc(uf))
    return r


# ---- STRIDE ------------------------------------------------------------------------------------

def check_stride(facts):
    """FoldRange::add_delta applies the delta unconditionally; only FoldRange::apply tests the stride predicate.
    Any other caller must either be on the `modulo == 1` edge (every code point of the range transforms) or pass a
    code point that is stride-aligned by construction: every definition of the argument is base + (.. % modulo)
    arithmetic or a step of exactly `modulo` from an aligned value."""
    r = RuleResult("STRIDE", "case tables mark ranges where only every 2nd/4th code point folds (stride mask); FoldRange::apply checks the "
                             "stride, FoldRange::add_delta does not. Every call of add_delta outside apply/transformed_to must be dominated by "
                             "the `modulo == 1` edge or receive a stride-aligned code point (defined only by `x + (.. % modulo)` or by adding "
                             "`modulo` to an aligned value)")
    EXEMPT = {"unicode::FoldRange::apply": "tests the predicate itself",
              "unicode::FoldRange::transformed_to": "interval of images of the range ends, used only for overlap tests (an over-approximation)"}
    n = 0
    for fn in sorted(facts.body_names()):
        if not fn.startswith("unicode::") or "::tests::" in fn:
            continue
        b = facts.body(fn)
        calls = [(bb, t) for bb, t in b.iter_calls() if (t.get("callee") or "") == "unicode::FoldRange::add_delta"]
        if not calls:
            continue
        base = re.sub(r"::\{closure#\d+\}", "", fn)
        if base in EXEMPT:
            r.ok("%s add_delta" % fn, "exempt: " + EXEMPT[base], nontrivial=False)
            continue
        # the local holding `modulo`: defined as predicate_mask() + 1
        mod_l = None
        for l, d in enumerate(b.locals):
            for df in b.defs().get(l, []):
                if df[2] == "assign" and df[3]["rv"]["k"] == "bin" and df[3]["rv"]["op"].startswith("Add") and df[3]["rv"]["b"].get("int") == 1:
                    a = df[3]["rv"]["a"]
                    dd = b.single_def(a["pl"]["l"]) if a["k"] in ("copy", "move") else None
                    if dd and dd[2] == "call" and (dd[3].get("callee") or "").endswith("predicate_mask"):
                        mod_l = l

        def is_mod(op):
            return op["k"] in ("copy", "move") and mod_l is not None and b.root_of(op["pl"]["l"])[0] == mod_l

        def has_rem_by_mod(l, depth=0):
            if depth > 8:
                return False
            for df in b.defs().get(l, []):
                if df[2] != "assign":
                    continue
                rv = df[3]["rv"]
                if rv["k"] == "bin" and rv["op"] == "Rem" and is_mod(rv["b"]):
                    return True
                for k in ("op", "a", "b"):
                    o = rv.get(k)
                    if isinstance(o, dict) and o.get("k") in ("copy", "move") and has_rem_by_mod(o["pl"]["l"], depth + 1):
                        return True
            return False

        def call_def(l, suffixes):
            """The unique call defining (the root of) local l if its callee ends with one of `suffixes`."""
            root = b.root_of(l)[0]
            ds = [d for d in b.defs().get(root, []) if d[2] == "call"]
            if len(b.defs().get(root, [])) == 1 and ds and any((ds[0][3].get("callee") or "").endswith(x) for x in suffixes):
                return ds[0][3]
            return None

        def through_cast(op):
            if op.get("k") not in ("copy", "move"):
                return op
            d = b.single_def(op["pl"]["l"])
            if d and d[2] == "assign" and d[3]["rv"]["k"] == "cast":
                return d[3]["rv"]["op"]
            return op

        def stepby_aligned(pl, seen):
            """`for x in (A..=B).step_by(modulo)`: x = (next(iter) as Some).0 with iter = into_iter(step_by(range(A, ..), modulo))
            and A aligned."""
            if not any(isinstance(p, dict) and p.get("as") == "Some" for p in pl["p"]):
                return False
            nx = call_def(pl["l"], ("Iterator::next",))
            if not nx or not nx["args"] or nx["args"][0].get("k") not in ("copy", "move"):
                return False
            it = call_def(nx["args"][0]["pl"]["l"], ("IntoIterator::into_iter",))
            src = it["args"][0] if it and it["args"] else None
            if not src or src.get("k") not in ("copy", "move"):
                return False
            sb = call_def(src["pl"]["l"], ("Iterator::step_by",))
            if not sb or len(sb["args"]) != 2 or not is_mod(through_cast(sb["args"][1])) or sb["args"][0].get("k") not in ("copy", "move"):
                return False
            rg = call_def(sb["args"][0]["pl"]["l"], ("RangeInclusive::<Idx>::new", "RangeInclusive::new"))
            start = None
            if rg and rg["args"]:
                start = rg["args"][0]
            else:
                d = b.single_def(b.root_of(sb["args"][0]["pl"]["l"])[0])
                if d and d[2] == "assign" and d[3]["rv"]["k"] == "agg" and "Range" in str(d[3]["rv"].get("adt")):
                    start = d[3]["rv"]["ops"][0]
            if not start or start.get("k") not in ("copy", "move"):
                return False
            sl = start["pl"]["l"]
            return aligned(sl if b.local_name(sl) else b.root_of(sl)[0], seen)

        def aligned(l, seen=None):
            seen = seen or set()
            if l in seen:
                return True
            seen = seen | {l}
            defs = b.defs().get(l, [])
            if not defs:
                return False
            for df in defs:
                if df[2] != "assign":
                    return False
                rv = df[3]["rv"]
                if rv["k"] == "use" and rv["op"]["k"] in ("copy", "move") and rv["op"]["pl"]["p"] and stepby_aligned(rv["op"]["pl"], seen):
                    continue
                if rv["k"] == "use" and rv["op"]["k"] in ("copy", "move") and not rv["op"]["pl"]["p"]:
                    if not aligned(rv["op"]["pl"]["l"], seen):
                        return False
                elif rv["k"] == "bin" and rv["op"].startswith("Add"):
                    a, bb_ = rv["a"], rv["b"]
                    if is_mod(bb_) and a["k"] in ("copy", "move") and aligned(a["pl"]["l"], seen):
                        continue
                    if bb_["k"] in ("copy", "move") and has_rem_by_mod(bb_["pl"]["l"]):
                        continue
                    return False
                else:
                    return False
            return True
        for bb, t in calls:
            n += 1
            key = "%s add_delta(line-order #%d)" % (fn, [c[0] for c in calls].index(bb) + 1)
            # (a) modulo == 1 edge
            ok = None
            for d in b.dom()[bb]:
                tt = b.blocks[d]["t"]
                if tt["k"] == "switch" and tt["discr"]["k"] in ("copy", "move"):
                    df = b.single_def(tt["discr"]["pl"]["l"])
                    if df and df[2] == "assign" and df[3]["rv"]["k"] == "bin" and df[3]["rv"]["op"] == "Eq" and is_mod(df[3]["rv"]["a"]) \
                            and df[3]["rv"]["b"].get("int") == 1 and tt["otherwise"] in b.dom()[bb]:
                        ok = "every code point of the range transforms (modulo == 1 edge)"
            if ok is None:
                a = t["args"][1]
                if a["k"] in ("copy", "move") and aligned(b.root_of(a["pl"]["l"])[0] if not b.local_name(a["pl"]["l"]) else a["pl"]["l"]):
                    ok = "argument is stride-aligned by construction"
                elif a["k"] in ("copy", "move"):
                    # follow one copy to the named variable
                    d0 = b.single_def(a["pl"]["l"])
                    if d0 and d0[2] == "assign" and d0[3]["rv"]["k"] == "use" and d0[3]["rv"]["op"]["k"] in ("copy", "move") \
                            and aligned(d0[3]["rv"]["op"]["pl"]["l"]):
                        ok = "argument is stride-aligned by construction"
            if ok:
                r.ok(key, ok)
            else:
                r.fail(key, "add_delta is applied to a code point that is not known to satisfy the range's stride predicate (line %s): "
                            "code points between the folding ones get a bogus image, so a class under /i gains or loses members" % t.get("line"),
                       facts.loc(fn, t.get("line")))
    r.floor("add_delta_calls", n, 2)
    return r

"""SIBPOS — element/position twins of every input decoder step identically (C06, C14).

For each InputIndexer implementation, `next_right` vs `next_right_pos` and `next_left` vs
`next_left_pos` are evaluated symbolically along every path (rules/symex.py). After dropping the
guards that only concern the decoded value (utf8_w*/from_u32/surrogate combination, the match on the
sequence length), the two functions must have the same set of
(position-probe guards with polarity, None/Some, cursor delta) triples. The greedy 1-char loop walks
forward with the element variant and backtracks with the position variant; any disagreement lands
inside a multi-unit sequence (undefined behaviour in the default build).
"""
from . import core, symex
from .report import RuleResult

RULE_TEXT = __doc__.split("\n\n")[1].replace("\n", " ")

DECODE_CALLS = {"from_u32", "utf8_w2", "utf8_w3", "utf8_w4", "code_point_from_surrogates", "from_u32_unchecked"}
IMPLS = ["Utf8Input", "AsciiInput", "Utf16Input", "Ucs2Input"]
PAIRS = [("next_right", "next_right_pos"), ("next_left", "next_left_pos")]


def fname(facts, impl, method):
    cands = [n for n in facts.body_names() if n.startswith("<indexing::%s<" % impl) and n.endswith("InputIndexer>::" + method)]
    return cands[0] if cands else None


def is_decode_guard(g):
    expr, val = g
    if symex.contains_call(expr, DECODE_CALLS):
        return True
    # value match on a computed length: `match utf8_seq_len(..) { 2 => .., 3 => .. }`
    if isinstance(expr, tuple) and expr[0] == "call" and expr[1].split("::")[-1] == "utf8_seq_len":
        return True
    return False


def norm_guard(g):
    """(E - P) < 1  ==>  P == E for unsigned distances; equality operands in canonical order."""
    expr, val = g
    if isinstance(val, bool):
        expr, val = symex.canon_guard(expr, val)     # `1 <= E - P` taken is `E - P < 1` not taken
    if isinstance(expr, tuple) and expr[0] == "cmp":
        op, a, b = expr[1], expr[2], expr[3]
        if op == "<" and b == ("int", 1) and isinstance(a, tuple) and a[0] == "lin" and a[1] == 0 and len(a[2]) == 2:
            (t1, c1), (t2, c2) = a[2]
            if {c1, c2} == {1, -1}:
                op, a, b = "==", t1, t2
        if op == "==":
            a, b = sorted([a, b], key=repr)
        expr = ("cmp", op, a, b)
    return (expr, val)


def probe_target(expr):
    """Match `Try::branch(Option::copied(slice::get(_, pos_to_offset(self, P))))` and return (self, P)."""
    try:
        if expr[0] == "call" and expr[1].endswith("branch"):
            c = expr[2][0]
            if c[0] == "call" and c[1].endswith("copied"):
                g = c[2][0]
                if g[0] == "call" and g[1].endswith("get"):
                    o = g[2][1]
                    if o[0] == "call" and o[1].endswith("pos_to_offset"):
                        return o[2][0], o[2][1]
    except (IndexError, TypeError):
        pass
    return None


def offset_of(P):
    l = symex.lin(P)
    return l[1]


def norm_path(guards):
    """Idioms: a bounds-probing `input.get(off(P))?` is the comparison of P with the right end; probing one
    unit to the left of a position known not to be the left end always succeeds. Returns None for an
    infeasible path."""
    out = []
    for g in guards:
        expr, val = g
        pt = probe_target(expr) if isinstance(expr, tuple) else None
        if pt is None:
            out.append(norm_guard(g))
            continue
        selfv, P = pt
        k = offset_of(P)
        if k >= 0:
            eq = norm_guard((("cmp", "==", P, ("call", "::right_end", (selfv,))), val == "Break"))
            out.append(eq)
        else:
            # P = Q - 1: in range whenever Q != left_end is already known on this path
            Q = symex.lin_add(P, ("int", 1), 1)
            known = norm_guard((("cmp", "==", Q, ("call", "::left_end", (selfv,))), False))
            if known in out:
                if val == "Break":
                    return None
                continue
            out.append(norm_guard(g))
    return out


def summarise(body, kind, facts=None, overrides=None):
    """kind 'elem': cursor is the &mut parameter cell; 'pos': cursor is the by-value parameter / return payload."""
    se = symex.SymEx(body, overrides=overrides)
    paths = se.run()
    out = set()
    diverging = 0
    pos_param = 2
    init = ("init", body.local_name(pos_param) or "_2")
    for p in paths:
        if p.diverged:
            diverging += 1
            continue
        gl = norm_path([g for g in p.guards if not is_decode_guard(g)])
        if gl is None:
            continue  # infeasible
        guards = tuple((symex.show(g), str(v)) for g, v in gl)
        ret = p.ret
        if ret[0] == "call" and ret[1].endswith("from_residual"):
            ret = ("agg", "Option::None", ())  # `?` on an Option: propagates None
        if ret[0] == "call" and kind == "pos" and ret[1].split("::")[-1] in ("try_move_right", "try_move_left") \
                and ret[2][1:] == (init, ("int", 1)) and facts is not None and not guards:
            # delegation `self.try_move_x(pos, 1)`: summarise the callee with amt = 1
            callee = [n for n in facts.body_names() if n.startswith(body.name.split(" as ")[0]) and n.endswith("::" + ret[1].split("::")[-1])]
            if len(callee) != 1:
                raise symex.Unsupported("cannot resolve delegated %s" % ret[1])
            sub, n2, d2 = summarise(facts.body(callee[0]), "pos", facts, overrides={3: ("int", 1)})
            out |= sub
            continue
        if ret[0] != "agg":
            raise symex.Unsupported("unexpected return value %s" % (symex.show(ret),))
        variant = ret[1].split("::")[-1]
        if kind == "elem":
            final = p.cells.get(pos_param)
            delta = symex.show(symex.lin_add(final, init, -1))
        else:
            if variant == "Some":
                delta = symex.show(symex.lin_add(ret[2][0], init, -1))
            else:
                delta = "0"
        out.add((guards, variant, delta))
    return out, len(paths), diverging


def check(facts):
    r = RuleResult("SIBPOS", RULE_TEXT)
    npairs = 0
    for impl in IMPLS:
        if fname(facts, impl, "next_right") is None:
            continue
        for a, b in PAIRS:
            fa, fb = fname(facts, impl, a), fname(facts, impl, b)
            key = "%s %s~%s" % (impl, a, b)
            if not fa or not fb:
                r.error("twin functions missing for %s" % key)
                continue
            npairs += 1
            try:
                sa, na, da = summarise(facts.body(fa), "elem", facts)
                sb, nb, db = summarise(facts.body(fb), "pos", facts)
            except symex.Unsupported as e:
                r.fail(key, "cannot summarise the twins (unsupported shape: %s): the step functions must stay small and loop-free" % e,
                       facts.loc(fa))
                continue
            if sa == sb:
                r.ok(key, "%d/%d paths; %d distinct (guards, outcome, delta) triples agree" % (na, nb, len(sa)))
                r.sample({"pair": key, "triples": [{"guards": list(map(list, g)), "outcome": v, "delta": d} for g, v, d in sorted(sa)][:6]})
            else:
                only_a = sorted(sa - sb)
                only_b = sorted(sb - sa)
                msg = "element and position variants step differently: "
                if only_a:
                    msg += "only %s has %s; " % (a, [(list(g[-2:]), v, d) for g, v, d in only_a][:3])
                if only_b:
                    msg += "only %s has %s" % (b, [(list(g[-2:]), v, d) for g, v, d in only_b][:3])
                r.fail(key, msg, facts.loc(fb), {"only_elem": [list(map(str, x)) for x in only_a], "only_pos": [list(map(str, x)) for x in only_b]})
    r.floor("twin_pairs", npairs, 4)
    # try_move_right / try_move_left: every implementation is the same overflow-safe distance test
    want = {"try_move_right": {((("right_end(self)-pos < amt", "False"),), "Some(amt+pos)"), ((("right_end(self)-pos < amt", "True"),), "None()")},
            "try_move_left": {((("-left_end(self)+pos < amt", "False"),), "Some(-amt+pos)"), ((("-left_end(self)+pos < amt", "True"),), "None()")}}
    for impl in IMPLS:
        for m, w in want.items():
            fn = fname(facts, impl, m)
            if not fn:
                continue
            key = "%s %s is the distance test" % (impl, m)
            try:
                ps = symex.SymEx(facts.body(fn)).run()
                got = {(tuple((g, str(v)) for g, v in symex.cguards(p)), symex.show(p.ret)) for p in ps if not p.diverged}
            except symex.Unsupported as e:
                got = {("unsupported", str(e))}
            if got == w:
                r.ok(key, "None iff distance to the end < amt, else pos moved by amt")
            else:
                r.fail(key, "%s::%s is not the overflow-safe distance test its siblings use (%s): an offset beyond the end (or a huge one that "
                            "wraps the pointer) no longer yields None" % (impl, m, sorted(got)[:2]), facts.loc(fn))
    # Ucs2Input never pairs surrogates
    for n in facts.body_names():
        if n.startswith("<indexing::Ucs2Input<"):
            b = facts.body(n)
            bad = [t for _, t in b.iter_calls() if "surrogate" in (t.get("callee") or "")]
            if bad:
                r.fail("Ucs2Input %s no surrogate logic" % n.split("::")[-1], "Ucs2Input::%s calls %s: UCS-2 must treat every code unit "
                       "as a character" % (n.split("::")[-1], bad[0].get("callee")), facts.loc(n))
    if fname(facts, "Ucs2Input", "next_right"):
        r.ok("Ucs2Input calls no surrogate predicate", nontrivial=False)
    return r


# ---- CROSSIMPL ------------------------------------------------------------------------------

CROSS_PAIRS = [("AsciiInput", "Utf8Input"), ("Ucs2Input", "Utf16Input")]
CROSS_METHODS = ("subrange_eq", "match_bytes", "find_bytes", "try_move_right", "try_move_left")


def check_crossimpl(facts):
    """The input indexers come in pairs that treat the text the same way at the level of raw units: AsciiInput / Utf8Input over
    bytes, Ucs2Input / Utf16Input over u16. Their comparison and movement methods (subrange_eq, match_bytes, find_bytes,
    try_move_right/left) are written once per impl; for each pair and method the symbolic path summaries — canonical branch
    conditions, returned value, final value of the `pos` out-parameter — must be the same set. (Hoisting a sub-expression,
    flipping a comparison or reordering the arms of one copy does not change the summary; forgetting `*pos = start` in one
    direction of one copy, or comparing the wrong window in one `cfg` arm, does.) One difference is part of the rule:
    Utf16Input::subrange_eq additionally requires both ends of the compared window to be character boundaries
    (`floor_char_boundary(x) == x`), answers false otherwise, and every accepting path has passed both tests."""
    r = RuleResult("CROSSIMPL", " ".join(check_crossimpl.__doc__.split()))
    n = 0
    nb_paths = [0]
    nb_bad = []
    for ia, ib in CROSS_PAIRS:
        for m in CROSS_METHODS:
            fa, fb = fname(facts, ia, m), fname(facts, ib, m)
            if not fa or not fb:
                continue
            key = "%s::%s ~ %s::%s" % (ia, m, ib, m)
            sums = []
            bad = None
            for fn in (fa, fb):
                try:
                    ps = symex.SymEx(facts.body(fn)).run()
                except symex.Unsupported as e:
                    bad = "cannot summarise %s (%s)" % (fn, e)
                    break
                out = set()
                for p in ps:
                    if p.diverged:
                        out.add(("DIVERGES", tuple((g, str(v)) for g, v in symex.cguards(p))))
                        continue
                    cells = tuple(sorted((str(k), symex.show(v)) for k, v in p.cells.items()))
                    out.add((tuple((g, str(v)) for g, v in symex.cguards(p)), symex.show(p.ret) if p.ret is not None else None, cells))
                if fn == fb and ib == "Utf16Input" and m == "subrange_eq":
                    # UTF-16 only: a window that starts or ends inside a surrogate pair is not made of whole characters (a captured
                    # lone surrogate equals, unit for unit, half of a pair). The boundary tests are the one permitted difference from
                    # the UCS-2 sibling: paths rejected by them must answer false and are set aside, the tests themselves are
                    # stripped from the accepting paths — which must have passed one for each end of the window.
                    out2 = set()
                    for item in out:
                        if item[0] == "DIVERGES":
                            out2.add(item)
                            continue
                        gs_, ret_, cells_ = item
                        bg = [(g, v) for g, v in gs_ if "floor_char_boundary(" in g]
                        rest = tuple((g, v) for g, v in gs_ if "floor_char_boundary(" not in g)
                        if any(v == "False" for g, v in bg):
                            if ret_ not in ("0", "false"):
                                out2.add(item)   # a failed boundary test that does not answer false: left in, will not match the sibling
                            continue
                        if ret_ not in ("0", "false"):
                            nb_paths[0] += 1
                            if len({g for g, v in bg}) < 2:
                                nb_bad.append("a path that can answer true passes %d boundary test(s) (both ends of the compared window "
                                              "must be tested)" % len({g for g, v in bg}))
                        out2.add((rest, ret_, cells_))
                    out = out2
                sums.append(out)
            if bad:
                # panicking stubs (byte matching on UTF-16) are not comparable
                if all(any("panic" in (t.get("callee") or "") for _, t in facts.body(fn).iter_calls()) for fn in (fa, fb)):
                    continue
                r.fail(key, bad, facts.loc(fa))
                continue
            if all(len(s) == 1 and list(s)[0][0] == "DIVERGES" for s in sums):
                continue
            n += 1
            if sums[0] == sums[1]:
                r.ok(key, "%d paths" % len(sums[0]))
                r.sample({"pair": key, "paths": len(sums[0]), "example": str(sorted(sums[0], key=str)[0])[:200]})
            else:
                oa, ob = sorted(sums[0] - sums[1], key=str), sorted(sums[1] - sums[0], key=str)
                r.fail(key, "the two indexers no longer behave alike in %s: only %s has %s; only %s has %s" % (
                    m, ia, str(oa[:1])[:260], ib, str(ob[:1])[:260]), facts.loc(fb))
    if facts.config == "utf16" or fname(facts, "Utf16Input", "subrange_eq"):
        key = "Utf16Input::subrange_eq compares whole characters only"
        if nb_bad:
            r.fail(key, nb_bad[0] + ": a backreference to a lone surrogate matches half of a surrogate pair and leaves the cursor inside it — "
                                    "the next single-character loop backtracks past its minimum and reads before the start of the input",
                   facts.loc(fname(facts, "Utf16Input", "subrange_eq")))
        elif nb_paths[0]:
            r.ok(key, "%d accepting paths, each behind a boundary test of both ends" % nb_paths[0])
        else:
            r.error("Utf16Input::subrange_eq: no accepting path found (anchor lost)")
    r.floor("method_pairs", n, 4)
    return r

"""PANICS — explicit panic sites are triaged (C06 match path, C07 compile path).

Every call that is an explicit panic site after constant-branch pruning (panic!/unreachable!/assert!
=> core::panicking::*, rs_unreachable! => unreachable_unchecked, unwrap/expect/unwrap_err) is counted
per (function, kind). Each function's count must not exceed the number triaged, with a reason, in
tables/panic_triage.json. Implicit arithmetic/bounds asserts are not inventoried.
"""
import collections
import json
import os
import re

from . import core
from .report import RuleResult
from .recguard import in_compile_path

PANIC_CALLEES = {
    "panic": "panic", "panic_fmt": "panic", "assert_failed": "panic", "panic_explicit": "panic",
    "unreachable_display": "panic", "unreachable_unchecked": "panic", "panic_nounwind": "panic",
    "panic_display": "panic", "panic_str_2015": "panic",
    "unwrap": "unwrap", "expect": "unwrap", "unwrap_err": "unwrap", "expect_err": "unwrap",
    "unwrap_failed": "unwrap", "expect_failed": "unwrap",
}
OWNERS = re.compile(r"^(core|std)::(panicking|hint|option::Option|result::Result)\b")


def panic_kind(callee):
    if not callee or not OWNERS.match(callee):
        return None
    return PANIC_CALLEES.get(callee.rsplit("::", 1)[-1])


def inventory(facts):
    inv = collections.defaultdict(list)
    for n in facts.body_names():
        b = facts.body(n)
        for bi, t in b.iter_calls():
            k = panic_kind(t.get("callee"))
            if k:
                fn = facts.owner_of(n)
                inv[(fn, k)].append(t.get("line"))
    return inv


def load_triage():
    with open(os.path.join(core.VERIF, "tables", "panic_triage.json")) as fh:
        t = json.load(fh)
    t.pop("_comment", None)
    return t


def _check(facts, which):
    r = RuleResult("PANICS", __doc__.split("\n\n")[1].replace("\n", " "))
    triage = load_triage()
    inv = inventory(facts)
    n = 0
    for (fn, kind), lines in sorted(inv.items()):
        comp = in_compile_path(fn)
        if which == "compile" and not comp:
            continue
        if which == "match" and comp and not fn.startswith(("unicode::", "codepointset::")):
            continue
        n += len(lines)
        entry = triage.get(fn, {})
        allowed = entry.get(kind, 0)
        key = "%s kind=%s" % (fn, kind)
        if len(lines) <= allowed:
            r.ok(key, "%d site(s), triaged %d: %s%s" % (len(lines), allowed, entry.get("reason"),
                                                         (" [checked by %s]" % entry["checked_by"]) if entry.get("checked_by") else ""))
            r.sample({"key": key, "sites": len(lines), "lines": sorted(x for x in lines if x), "reason": entry.get("reason")})
        else:
            r.fail(key, "%d explicit panic site(s) of kind %s in %s, only %d triaged: an input that reaches the new site aborts "
                        "instead of returning" % (len(lines), kind, fn, allowed),
                   "%s (lines %s)" % (facts.loc(fn), sorted(x for x in lines if x)), {"lines": lines, "triaged": allowed})
    r.stats["sites_" + which] = n
    return r


def check_compile(facts):
    r = _check(facts, "compile")
    r.floor("sites_compile", r.stats["sites_compile"], 40)
    return r


def check_match(facts):
    r = _check(facts, "match")
    r.floor("sites_match", r.stats["sites_match"], 12)
    return r

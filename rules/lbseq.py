"""LBSEQ — whoever emits a *sequence* of consuming instructions consults the match direction (C01, C03).

Instances are discovered, not listed: every natural loop in a function of emit.rs whose body emits
instructions (calls emit_node / emit_insn* / emit_byte_* / emit_code_point_sequence / emit_string_set).
Each must be classified in LOOP_CLASSES; class `sequence` requires a branch on a value read from
Emitter.in_lookbehind that dominates the loop header (the iteration order is chosen from the
direction). An unclassified emitting loop fails. Companion: ir::Node::reverse_cats reverses exactly
`Cat` under `in_lookbehind`, which is why the emitter's Cat order needs no direction test.
"""
from . import core, hirutil as H
from .report import RuleResult

RULE_TEXT = __doc__.split("\n\n")[1].replace("\n", " ")

EMIT_CALLS = ("emit::Emitter::emit_node", "emit::Emitter::emit_insn", "emit::Emitter::emit_insn_offset",
              "emit::Emitter::emit_byte_sequence_insn", "emit::Emitter::emit_byte_set_insn",
              "emit::Emitter::emit_code_point_sequence", "emit::Emitter::emit_string_set")

# (function, set of emit callees inside the loop) -> class
LOOP_CLASSES = {
    ("emit::Emitter::emit_code_point_sequence", ("emit_node",)): ("sequence", "consecutive code points / pieces of one string"),
    ("emit::Emitter::emit_string_set", ("emit_code_point_sequence", "emit_insn", "emit_insn_offset")):
        ("alternatives", "one iteration per alternative: priority order, independent of direction"),
    ("emit::Emitter::emit_string_set", ("emit_code_point_sequence", "emit_insn_offset")):
        ("alternatives", "one iteration per alternative: priority order, independent of direction"),
    ("emit::Emitter::emit_node", "worklist"): ("worklist", "explicit work stack; Cat children are pushed in IR order, which the parser "
                                                            "already reversed inside lookbehinds (reverse_cats, checked below)"),
    ("emit::Emitter::emit_node", ("emit_byte_sequence_insn",)): ("sequence", "chunks of one byte sequence"),
    ("emit::Emitter::emit_node", ("emit_insn",)): ("resets", "ResetCaptureGroup for each enclosed group: zero-width, order irrelevant"),
}


def natural_loops(body):
    """header -> set of blocks, from back edges (target dominates source)."""
    dom = body.dom()
    succ = body.succ()
    pred = body.pred()
    loops = {}
    for b, ss in succ.items():
        for s in ss:
            if s in dom[b]:  # back edge b -> s
                nodes = {s, b}
                stack = [b]
                while stack:
                    x = stack.pop()
                    if x == s:
                        continue
                    for p in pred.get(x, []):
                        if p not in nodes:
                            nodes.add(p)
                            stack.append(p)
                loops.setdefault(s, set()).update(nodes)
    return loops


def reads_in_lookbehind_switches(body):
    """Blocks ending in a switch whose discriminant is a read of (*self).in_lookbehind."""
    out = []
    for bb in body.reachable():
        t = body.blocks[bb]["t"]
        if t["k"] != "switch" or t["discr"]["k"] not in ("copy", "move"):
            continue
        l = t["discr"]["pl"]["l"]
        pl = t["discr"]["pl"]
        fields = core.proj_fields(pl)
        if fields and fields[-1] == "in_lookbehind":
            out.append(bb)
            continue
        d = body.single_def(l)
        if d and d[2] == "assign" and d[3]["rv"]["k"] == "use" and d[3]["rv"]["op"]["k"] in ("copy", "move"):
            if core.proj_fields(d[3]["rv"]["op"]["pl"])[-1:] == ["in_lookbehind"]:
                out.append(bb)
    return out


def check(facts):
    r = RuleResult("LBSEQ", RULE_TEXT)
    nloops = 0
    for fn in sorted(facts.body_names()):
        if not fn.startswith("emit::") or "{closure" in fn:
            continue
        body = facts.body(fn)
        loops = natural_loops(body)
        # innermost-first does not matter: each loop is judged by the emit calls in its own body minus inner loops
        for header, nodes in sorted(loops.items()):
            inner = set()
            for h2, n2 in loops.items():
                if h2 != header and n2 < nodes:
                    inner |= n2
            own = nodes - inner
            callees = set()
            for b in own:
                t = body.blocks[b]["t"]
                if t["k"] == "call":
                    c = t.get("resolved") or t.get("callee")
                    if c in EMIT_CALLS:
                        callees.add(c.split("::")[-1])
            if not callees:
                continue
            nloops += 1
            sig = tuple(sorted(callees))
            line = body.blocks[header]["t"].get("line")
            cls = LOOP_CLASSES.get((fn, sig))
            if cls is None and fn == "emit::Emitter::emit_node" and len(own) > 40:
                cls = LOOP_CLASSES[(fn, "worklist")]
                sig = ("worklist",)
            key = "%s loop emitting %s" % (fn, "+".join(sig))
            if cls is None:
                r.fail(key, "unclassified instruction-emitting loop: if it emits consecutive consuming elements it must choose its "
                            "order from Emitter.in_lookbehind", facts.loc(fn, line))
                continue
            kind, why = cls
            if kind != "sequence":
                r.ok(key, "%s: %s" % (kind, why), nontrivial=False)
                continue
            sw = [bb for bb in reads_in_lookbehind_switches(body) if bb in body.dom()[header] or bb in nodes]
            # must dominate the loop header (order chosen before iterating)
            sw_dom = [bb for bb in sw if bb in body.dom()[header] and bb != header]
            if sw_dom:
                r.ok(key, "iteration order selected by a branch on in_lookbehind (line %s)" % body.blocks[sw_dom[0]]["t"].get("line"))
                r.sample({"key": key, "loop_header_line": line, "direction_test_line": body.blocks[sw_dom[0]]["t"].get("line")})
            else:
                r.fail(key, "emits consecutive consuming elements (%s) without consulting Emitter.in_lookbehind: inside a lookbehind the "
                            "elements are compared in the wrong order" % why, facts.loc(fn, line))
    r.floor("emitting_loops", nloops, 5)

    # companion: reverse_cats
    fn = "ir::Node::reverse_cats"
    h = facts.hir.get(fn)
    if h is None:
        r.error("anchor %s not found" % fn)
    else:
        ms = H.find_matches(h["body"], r"ir::Node")
        ok = False
        for m in ms:
            for a in m["arms"]:
                if [H.short(v) for v in H.pat_variants(a["pat"])] == ["Cat"]:
                    g = a.get("guard")
                    guard_ok = bool(g) and any(n.get("k") == "field" and n.get("name") == "in_lookbehind"
                                               for n, _ in core.hir_find(g, lambda n: True))
                    calls = H.calls_in(a["body"])
                    if guard_ok and any(c.endswith("::reverse") for c in calls):
                        ok = True
        if ok:
            r.ok("%s reverses Cat under in_lookbehind" % fn)
        else:
            r.fail("%s reverses Cat under in_lookbehind" % fn, "reverse_cats no longer reverses `Cat` children exactly when the walk is "
                   "inside a lookbehind", facts.loc(fn))
    # finalize calls walk_mut with reverse_cats when a lookbehind was seen
    fin = "parse::Parser::<I>::finalize"
    if facts.has_body(fin):
        b = facts.body(fin)
        uses = any(op.get("fn") == fn or op.get("fn_resolved") == fn
                   for bi, i, s in b.iter_stmts() if s["k"] == "assign"
                   for op in ([s["rv"].get("op")] if isinstance(s["rv"].get("op"), dict) else []) + s["rv"].get("ops", []))
        uses = uses or any(a.get("fn") == fn for bb, t in b.iter_calls() for a in t["args"])
        if uses:
            r.ok("%s applies reverse_cats" % fin)
        else:
            r.fail("%s applies reverse_cats" % fin, "Parser::finalize no longer walks the IR with reverse_cats", facts.loc(fin))
    else:
        r.error("anchor %s not found" % fin)
    # the byte lowering merges adjacent caseless code points into one forward-compared ByteSequence: inside a lookbehind the
    # *pieces* it returns are reversed, never the code points fed to it (the utf16 sibling, which emits one node per code point,
    # reverses the code points instead)
    for fn in sorted(facts.body_names()):
        if not fn.startswith("emit::") or "{closure" in fn:
            continue
        b = facts.body(fn)
        for bb, t in b.iter_calls():
            if not (t.get("callee") or "").endswith("lower_code_point_sequence") or not t["args"]:
                continue
            key = "%s lowers the code points in pattern order" % fn
            a0 = t["args"][0]
            ok = False
            if a0.get("k") in ("copy", "move"):
                rt, pr = b.root_of(a0["pl"]["l"])
                ok = 1 <= rt <= b.argc and "[u32]" in b.local_ty(rt).replace(" ", "")
            if ok:
                r.ok(key, "argument is the parameter slice itself")
            else:
                r.fail(key, "lower_code_point_sequence is given a rearranged copy of the code points (line %s): it merges adjacent caseless "
                            "code points into one ByteSequence that is compared forwards, so a reversed input spells the string backwards "
                            "inside a lookbehind (`(?<=[\\q{ab}])x` matches \"bax\")" % t.get("line"), facts.loc(fn, t.get("line")))
    return r

"""TILING — the Pattern-trait searcher's cursor equals the end of the last emitted step (C20; `pattern` configuration).

Every path of RegexSearcher::next / next_back is summarised symbolically (rules/symex.py). For each path that
returns SearchStep::Match(a, b) or Reject(a, b):
  START  forward: `a` is the value current_pos had on entry (for a Match: a = m.start() on the path where
         `current_pos < m.start()` is false); backward: `b` and reverse_pos likewise;
  END    the cursor stored on that path equals `b` (forward) / `a` (backward): the next step starts where this one
         ended, so steps are adjacent and cover the haystack;
  WHOLE  the match `m` is obtained from Regex::find_from(self.haystack, cursor) / find_last_match_before(cursor)
         on the whole haystack (text on both sides of the cursor stays visible to ^, $, \\b and lookarounds); no other
         search entry point and no slicing of the haystack is used.
A path that loops while moving the cursor without emitting a step is reported with the END clause.
  INIT   RegexSearcher::new starts un-exhausted at the haystack's ends: `current_pos` = 0, `reverse_pos` =
         haystack.len(), `done` = `reverse_done` = false (constants): the first step starts at the edge of the haystack
         for every haystack, the empty one included (`"".find(&re)` must see the empty match at 0).
  DONE   on a path that reports a non-empty match the exhaustion flag (`done` / `reverse_done`) is left alone: after a
         non-empty match that ends at the end of the haystack one more (empty) match is still due there, as find_iter
         reports it.
  LASTB  find_last_match_before(pos) selects matches by their END against the cursor, inclusively (`m.end() <= pos`, i.e.
         never `pos < end` taken): a test on `m.start()` or a strict test drops the empty match that sits exactly at the
         cursor (`"abc".rfind(/$/)`).
  OWNSTATE  the two directions keep separate state: `next` stores only to `current_pos` / `done`, `next_back` only to
         `reverse_pos` / `reverse_done`. A step function that writes the other direction's cursor or exhaustion flag cuts
         that direction's step stream short (or restarts it) when the two are interleaved on one searcher.
  SCANALL   find_last_match_before returns only what its rescan found: no path reaches the return without passing the
         `find_from(haystack, 0)` call (an early `return None` for some cursor, e.g. 0, hides the empty match there).
  EXHAUST   a Reject path sets the exhaustion flag only if the step runs to the end of the haystack (forward) / to 0 (backward).
  MARKER    RegexSearcher implements Searcher and ReverseSearcher but not the DoubleEndedSearcher marker.
  BOUND  a loop in the searcher that walks a byte offset by +-1 (to leave the inside of a UTF-8 sequence) tests
         `haystack.is_char_boundary(x)` on the very offset `x` it steps: testing another variable never moves (or never
         stops) the walk and the stored cursor / emitted bound lands inside a character.
"""
import re

from . import core, symex
from .report import RuleResult

RULE_TEXT = " ".join(x.strip() for x in __doc__.split("\n")[2:] if x.strip())


def find_fn(facts, suffix):
    c = [n for n in facts.body_names() if "pattern_impl" in n and n.endswith(suffix)]
    return c[0] if c else None


def check(facts):
    r = RuleResult("TILING", RULE_TEXT)
    specs = [("::next", "current_pos", "forward"), ("::next_back", "reverse_pos", "backward")]
    nsteps = 0
    for suffix, cursor, direction in specs:
        fn = find_fn(facts, suffix)
        if not fn:
            r.error("searcher function *%s not found in the pattern configuration" % suffix)
            continue
        b = facts.body(fn)
        try:
            paths = symex.SymEx(b, tolerate_loops=True).run()
        except symex.Unsupported as e:
            r.fail("%s summarised" % fn, "cannot summarise the searcher step function (%s)" % e, facts.loc(fn))
            continue
        init_cur = ("field", ("init", "self"), cursor)
        problems = {}
        okc = 0
        for p in paths:
            gs = symex.cguards(p)
            empty = any(" == " in g and "start(" in g and "end(" in g and v is True for g, v in gs)
            if p.diverged == "loop":
                kind = "empty-match advance" if empty else "cursor loop"
                problems.setdefault(kind, []).append("a path loops (line %s) moving the cursor without emitting a step" % getattr(p, "loop_line", "?"))
                continue
            if p.diverged or p.ret is None or p.ret[0] != "agg":
                continue
            variant = p.ret[1].split("::")[-1]
            if variant not in ("Match", "Reject"):
                continue
            nsteps += 1
            a, bnd = p.ret[2][0], p.ret[2][1]
            final = p.cells.get((1, cursor), init_cur)
            edge_in, edge_out = (a, bnd) if direction == "forward" else (bnd, a)
            # START
            start_ok = symex.lin(edge_in) == symex.lin(init_cur)
            if not start_ok and variant == "Match":
                want = "start(" if direction == "forward" else "end("
                sa = symex.show(edge_in)
                if sa.startswith(want):
                    cmp_txt = ("%s < %s" % (symex.show(init_cur), sa)) if direction == "forward" else ("%s < %s" % (sa, symex.show(init_cur)))
                    start_ok = (cmp_txt, False) in gs
            if not start_ok:
                problems.setdefault("start", []).append("%s(%s, %s) does not begin at the cursor" % (variant, symex.show(a)[:50], symex.show(bnd)[:50]))
            # END
            if symex.lin(final) != symex.lin(edge_out):
                kind = "empty-match advance" if empty else "end"
                problems.setdefault(kind, []).append("after %s(.., %s) the cursor is %s" % (variant, symex.show(edge_out)[:60], symex.show(final)[:80]))
            else:
                okc += 1
            # DONE
            flag = "done" if direction == "forward" else "reverse_done"
            if variant == "Match" and not empty and (1, flag) in p.cells and symex.show(p.cells[(1, flag)]) not in ("self.%s" % flag, "0", "false"):
                problems.setdefault("done", []).append("a non-empty Match(%s, %s) path sets %s = %s" % (
                    symex.show(a)[:40], symex.show(bnd)[:40], flag, symex.show(p.cells[(1, flag)])[:20]))
            # EXHAUST: a Reject step may declare the direction exhausted only if it runs to the end of the haystack
            if variant == "Reject" and (1, flag) in p.cells and symex.show(p.cells[(1, flag)]) not in ("self.%s" % flag, "0", "false"):
                want_end = "len(self.haystack)" if direction == "forward" else "0"
                if symex.show(edge_out) != want_end:
                    problems.setdefault("exhaust", []).append("a Reject(%s, %s) path sets %s although the step does not reach %s" % (
                        symex.show(a)[:40], symex.show(bnd)[:40], flag, "the end of the haystack" if direction == "forward" else "offset 0"))
            # WHOLE
            src = symex.show(a) + symex.show(bnd)
            if variant == "Match":
                if direction == "forward":
                    good = "next(find_from(self.regex, self.haystack, self.current_pos))" in src
                else:
                    good = "find_last_match_before(self, self.reverse_pos)" in src
                if not good:
                    problems.setdefault("whole", []).append("the reported match does not come from a search of the whole haystack at the cursor: %s" % src[:120])
        for kind, msgs in sorted(problems.items()):
            key = "%s %s" % (fn, kind)
            text = {"empty-match advance": "after an empty match the cursor is moved past the end of the emitted step (no step covers the skipped text)",
                    "end": "the cursor does not end where the emitted step ended: steps overlap or leave gaps",
                    "start": "a step does not start at the cursor: steps overlap or leave gaps",
                    "whole": "the regex is not run on the whole haystack from the cursor",
                    "done": "the searcher declares itself exhausted after a non-empty match: the empty match still due at the end of the "
                            "haystack (find_iter reports it) is never emitted",
                    "exhaust": "the searcher declares itself exhausted on the Reject that only covers the gap in front of a match: the match "
                               "itself (an empty match at the end of the haystack, `\"abc\".find(/$/)`) is never emitted",
                    "cursor loop": "the cursor is moved in a loop without emitting a step"}[kind]
            r.fail(key, "%s (%s)" % (text, "; ".join(sorted(set(msgs))[:2])), facts.loc(fn))
        if okc:
            r.ok("%s %d step-returning paths keep cursor == end of step" % (fn, okc))
            r.sample({"function": fn, "paths_ok": okc, "problems": {k: v[:1] for k, v in problems.items()}})
    r.floor("step_paths", nsteps, 8)

    # INIT
    newf = [n for n in facts.body_names() if "pattern_impl" in n and n.endswith("::new") and "RegexSearcher" in n]
    if not newf:
        r.error("RegexSearcher::new not found in the pattern configuration")
    for fn in newf:
        b = facts.body(fn)
        aggs = [st for bi, i, st in b.iter_stmts() if st["k"] == "assign" and st["rv"]["k"] == "agg" and "RegexSearcher" in str(st["rv"].get("adt"))]
        if len(aggs) != 1:
            r.fail("%s initial state" % fn, "expected one RegexSearcher literal, found %d" % len(aggs), facts.loc(fn))
            continue
        a = aggs[0]["rv"]
        vals = dict(zip(a.get("fields") or [], a.get("ops") or []))
        hay = [l for l in range(1, b.argc + 1) if b.local_ty(l).startswith("&") and b.local_ty(l).endswith("str")]
        probs = []
        for fld, want in (("current_pos", 0), ("done", 0), ("reverse_done", 0)):
            op = vals.get(fld)
            if op is None or b.const_of_operand(op) != want:
                probs.append("`%s` is not the constant %s" % (fld, "false" if fld.endswith("done") else want))
        op = vals.get("reverse_pos")
        good = False
        if op is not None and op.get("k") in ("copy", "move"):
            d = b.single_def(b.root_of(op["pl"]["l"])[0])
            if d and d[2] == "call" and (d[3].get("callee") or "").endswith("str>::len") and hay:
                good = b.root_of(d[3]["args"][0]["pl"]["l"])[0] == hay[0]
        if not good:
            probs.append("`reverse_pos` is not haystack.len()")
        key = "%s initial state" % fn
        if probs:
            r.fail(key, "the searcher does not start un-exhausted at the ends of the haystack: %s — for some haystacks (e.g. the empty one) "
                        "the first step is missing and Match steps no longer equal find_iter" % "; ".join(probs), facts.loc(fn))
        else:
            r.ok(key, "current_pos=0, reverse_pos=len, not done")
            r.sample({"function": fn, "fields": sorted(vals)})

    # ROUND: stepping off a UTF-8 interior rounds in the direction of travel
    nround = 0
    for fn in [n for n in facts.body_names() if "pattern_impl" in n]:
        b = facts.body(fn)
        forward = fn.endswith("::next")
        backward = fn.endswith("::next_back")
        for bb, t in b.iter_calls():
            last = (t.get("callee") or "").split("::")[-1]
            if last in ("floor_char_boundary", "ceil_char_boundary") and (forward or backward):
                key = "%s rounds %s" % (fn, last)
                wrong = (forward and last == "floor_char_boundary") or (backward and last == "ceil_char_boundary")
                if wrong:
                    r.fail(key, "%s in the %s searcher (line %s) rounds against the direction of travel: after an empty match in front of a "
                                "multi-byte character the cursor comes back to where it was and the same match is reported forever" % (
                                    last, "forward" if forward else "reverse", t.get("line")), facts.loc(fn, t.get("line")))
                else:
                    r.ok(key)
                    nround += 1
    # MARKER: the searcher keeps two independent cursors (OWNSTATE), so each end reports every match; it therefore must not
    # carry the DoubleEndedSearcher marker, which promises std that next() and next_back() share the haystack between them
    simpls = sorted(t["trait"].split("::")[-1] for t in facts.trait_impls if "pattern_impl::RegexSearcher" in t.get("self_ty", ""))
    key = "RegexSearcher implements Searcher and ReverseSearcher only"
    if not hasattr(facts, "trait_impls") or not simpls:
        r.error("no trait impls of pattern_impl::RegexSearcher found (anchor lost)")
    elif "DoubleEndedSearcher" in simpls:
        r.fail(key, "RegexSearcher is marked DoubleEndedSearcher: std then interleaves next() and next_back() on one searcher (double-ended "
                    "split, trim_matches) and both ends report the same match — overlapping steps, `get_unchecked(2..1)` in safe code",
               facts.loc(find_fn(facts, "::next") or ""))
    elif sorted(simpls) != ["ReverseSearcher", "Searcher"]:
        r.fail(key, "unexpected searcher traits implemented for RegexSearcher: %s" % simpls, facts.loc(find_fn(facts, "::next") or ""))
    else:
        r.ok(key)
    # OWNSTATE
    own = {"::next": ("current_pos", "done"), "::next_back": ("reverse_pos", "reverse_done")}
    allf = {"current_pos", "done", "reverse_pos", "reverse_done"}
    for suffix, mine in sorted(own.items()):
        fn = find_fn(facts, suffix)
        if not fn:
            continue
        b = facts.body(fn)
        foreign = []
        nst = 0
        for bi, i, st in b.iter_stmts():
            if st["k"] != "assign" or not st["pl"]["p"]:
                continue
            rt, pr = b.root_of(st["pl"]["l"])
            if rt != 1:
                continue
            fl = [x.get("f") for x in pr if isinstance(x, dict) and "f" in x] + core.proj_fields(st["pl"])
            if not fl or fl[0] not in allf:
                continue
            nst += 1
            if fl[0] not in mine:
                foreign.append((fl[0], st["line"]))
        key = "%s writes only its own direction's state" % fn
        if foreign:
            r.fail(key, "%s stores to `%s` (line %s), the other direction's state: interleaved next / next_back on one searcher then cut the "
                        "other direction's steps short — they no longer tile the haystack or contain find_iter's matches" % (
                            suffix[2:], foreign[0][0], foreign[0][1]), facts.loc(fn, foreign[0][1]))
        elif nst:
            r.ok(key, "%d stores, all to %s" % (nst, "/".join(mine)))
        else:
            r.error("%s: no store to the searcher's cursor / flag fields found (anchor lost)" % fn)
    # SCANALL
    for fn in sorted(n for n in facts.body_names() if "pattern_impl" in n and n.endswith("find_last_match_before")):
        b = facts.body(fn)
        scans = [bb for bb, t in b.iter_calls() if (t.get("callee") or "").endswith("Regex::find_from")]
        rets = [bi for bi in b.reachable() if b.blocks[bi]["t"]["k"] == "return"]
        key = "%s returns only what its rescan found" % fn
        if not scans:
            r.fail(key, "find_last_match_before no longer rescans with Regex::find_from", facts.loc(fn))
        else:
            around = b.reach_from(0, avoid=set(scans))
            if 0 in scans:
                around = set()
            if any(x in around for x in rets):
                r.fail(key, "a path reaches the return of find_last_match_before without running the rescan (an early return for some "
                            "cursor value): a match that ends exactly there — the empty match at offset 0 — is never reported by next_back",
                       facts.loc(fn))
            else:
                r.ok(key, "every return passes the find_from(haystack, 0) rescan")
    # LASTB
    lb = [n for n in facts.body_names() if "pattern_impl" in n and "find_last_match_before" in n]
    if not lb:
        r.error("find_last_match_before not found in the pattern configuration")
    for fn in sorted(n for n in lb if "{closure" not in n):
        b = facts.body(fn)
        for bb, t in b.iter_calls():
            if (t.get("callee") or "").endswith("Regex::find_from") and len(t["args"]) >= 3:
                key = "%s rescans from the start of the haystack" % fn
                if b.const_of_operand(t["args"][2]) == 0:
                    r.ok(key)
                else:
                    r.fail(key, "the reverse helper starts its rescan somewhere other than offset 0 (line %s): matches to the left of that "
                                "offset are invisible to next_back once the forward cursor has moved (interleaved next / next_back)" % t.get("line"),
                           facts.loc(fn, t.get("line")))
    ncmp = 0
    for fn in sorted(lb):
        b = facts.body(fn)

        def from_call(op, name, depth=0):
            if op.get("k") not in ("copy", "move") or depth > 6:
                return False
            d = b.single_def(b.root_of(op["pl"]["l"])[0])
            if d and d[2] == "call":
                return (d[3].get("callee") or "").endswith(name)
            if d and d[2] == "assign" and d[3]["rv"]["k"] in ("use", "cast"):
                return from_call(d[3]["rv"]["op"], name, depth + 1)
            return False
        for bi, i, st in b.iter_stmts():
            if st["k"] != "assign" or st["rv"]["k"] != "bin" or st["rv"]["op"] not in ("Lt", "Le", "Gt", "Ge", "Eq", "Ne"):
                continue
            a_, b_ = st["rv"]["a"], st["rv"]["b"]
            if not any(from_call(x, "Match::start") or from_call(x, "Match::end") for x in (a_, b_)):
                continue
            ncmp += 1
            key = "%s match selection #%d" % (re.sub(r"::\{closure#\d+\}", "", fn), ncmp)
            op = st["rv"]["op"]
            uses_start = from_call(a_, "Match::start") or from_call(b_, "Match::start")
            end_left = from_call(a_, "Match::end")
            inclusive = (op == "Le" and end_left) or (op == "Ge" and not end_left) or (op == "Gt" and end_left) or (op == "Lt" and not end_left)
            # `end <= pos` keep / `end > pos` stop are the same canonical test (`pos < end`)
            if uses_start:
                r.fail(key, "find_last_match_before filters matches by their start (line %s): an empty match exactly at the cursor has start == "
                            "pos and is dropped, so rfind / ends_with / rsplit miss it" % st["line"], facts.loc(fn, st["line"]))
            elif not inclusive:
                r.fail(key, "find_last_match_before compares the match end with the cursor strictly (line %s): a match ending exactly at the "
                            "cursor is dropped" % st["line"], facts.loc(fn, st["line"]))
            else:
                r.ok(key, "selects by `end <= pos`")
    r.floor("last_before_selections", ncmp, 1)

    # BOUND
    from .lbseq import natural_loops
    nwalk = 0
    for fn in [n for n in facts.body_names() if "pattern_impl" in n and "{closure" not in n]:
        b = facts.body(fn)
        for h, nodes in sorted(natural_loops(b).items()):
            stepped = set()
            for x in nodes:
                for st in b.blocks[x]["s"]:
                    if st["k"] == "assign" and not st["pl"]["p"] and st["rv"]["k"] in ("bin", "checked_bin") and st["rv"].get("op") in ("Add", "Sub", "AddWithOverflow", "SubWithOverflow"):
                        av, bv = st["rv"]["a"], st["rv"]["b"]
                        if b.const_of_operand(bv) == 1 and av.get("k") in ("copy", "move"):
                            src = b.root_of(av["pl"]["l"])[0]
                            dst = st["pl"]["l"]
                            # x = x +- 1 directly, or through the checked-arithmetic temp
                            if src == dst or any(s2["k"] == "assign" and s2["pl"]["l"] == src and not s2["pl"]["p"] and s2["rv"]["k"] == "use"
                                                 and s2["rv"]["op"].get("k") in ("copy", "move") and s2["rv"]["op"]["pl"]["l"] == dst
                                                 for y in nodes for s2 in b.blocks[y]["s"]):
                                stepped.add(src if b.local_name(src) else dst)
            stepped = {l for l in stepped if b.local_name(l) and b.local_ty(l) == "usize"}
            if not stepped:
                continue
            tests = [t for x in nodes for t in [b.blocks[x]["t"]] if t["k"] == "call" and (t.get("callee") or "").endswith("is_char_boundary")]
            if not tests and not any((t.get("callee") or "").endswith("is_char_boundary") for _, t in b.iter_calls()):
                continue
            for l in sorted(stepped):
                nwalk += 1
                key = "%s boundary walk of `%s`" % (fn, b.local_name(l))
                tested = [t for t in tests if len(t["args"]) > 1 and t["args"][1].get("k") in ("copy", "move")
                          and b.root_of(t["args"][1]["pl"]["l"])[0] == l]
                if tested:
                    r.ok(key, "is_char_boundary(%s) tested in the loop (line %s)" % (b.local_name(l), tested[0].get("line")))
                    r.sample({"function": fn, "variable": b.local_name(l), "test_line": tested[0].get("line")})
                else:
                    other = [b.local_name(b.root_of(t["args"][1]["pl"]["l"])[0]) for t in tests if len(t["args"]) > 1 and t["args"][1].get("k") in ("copy", "move")]
                    r.fail(key, "the loop steps `%s` by one but tests is_char_boundary on %s: the walk does not stop on a character boundary of "
                                "`%s`, so a cursor / step bound inside a UTF-8 sequence is stored" % (
                                    b.local_name(l), other or "nothing", b.local_name(l)), facts.loc(fn, b.blocks[h]["t"].get("line")))
    r.floor("boundary_walks", nwalk + nround, 2)

    # WHOLE (MIR): search entry points used by the searcher
    for fn in [n for n in facts.body_names() if "pattern_impl" in n]:
        b = facts.body(fn)
        for bb, t in b.iter_calls():
            cal = t.get("callee") or ""
            if cal.startswith("api::Regex::") and cal.split("::")[-1] in ("find", "find_iter", "find_from", "find_ascii", "find_iter_ascii",
                                                                            "find_from_ascii", "replace", "replace_all"):
                key = "%s calls %s" % (fn, cal.split("::")[-1])
                ok = cal.endswith("::find_from")
                if ok:
                    a1 = t["args"][1]
                    rt, pr = b.root_of(a1["pl"]["l"]) if a1["k"] in ("copy", "move") else (None, [])
                    fields = [x.get("f") for x in pr if isinstance(x, dict) and "f" in x] + core.proj_fields(a1.get("pl", {"p": []}))
                    ok = "haystack" in fields and not any((tt.get("callee") or "").endswith("ops::Index::index") for _, tt in b.iter_calls())
                if ok:
                    r.ok(key, "whole haystack")
                else:
                    r.fail(key, "the searcher runs the regex through %s on something other than the whole haystack: context before/after the "
                                "cursor is hidden from ^, $, \\b and lookarounds" % cal.split("::")[-1], facts.loc(fn, t.get("line")))
            if cal.endswith("ops::Index::index") and t["args"] and "str" in t["args"][0].get("pl", {}).get("ty", ""):
                r.fail("%s slices the haystack" % fn, "the searcher slices the haystack (line %s)" % t.get("line"), facts.loc(fn, t.get("line")))
    return r

"""Property -> rules mapping and the check entry point."""
import argparse
import concurrent.futures
import importlib
import os
import sys
import time
import traceback

from . import core, report

# property -> list of (rule module name, function name, configs needed, tier)
# A rule function takes a dict {config: Facts} and returns a RuleResult (or a list of them).
PROPS = {}


def reg(prop, module, configs=("default",), fn="check", tier="quick", level="other", per_config=True):
    PROPS.setdefault(prop, {"rules": [], "level": level})
    PROPS[prop]["rules"].append({"module": module, "fn": fn, "configs": tuple(configs), "tier": tier, "per_config": per_config})
    if level != "other":
        PROPS[prop]["level"] = level


ALL_CONFIGS = ("default", "pu", "ip", "ip+pu", "utf16", "pattern", "alloc")

# thorough tier: every per-configuration rule is run on all seven feature configurations, except where the rule's
# anchors do not exist in a configuration by design (one line of reason each; confirmed on the unchanged tree).
THOROUGH_SKIP = {
    **{("twin", "check_surrsib", c): "Utf16Input exists only with the utf16 feature" for c in ("default", "pu", "ip", "ip+pu", "pattern", "alloc")},
    ("scm", "check", "utf16"): "the utf16 build forms no byte-literal instructions (optimizer::form_literal_bytes is cfg'd out); "
                               "the instruction-set floor was counted on the default build",
    ("extra", "check_asciiguard", "utf16"): "byte-set lowerings are cfg'd out of the utf16 build",
}
PATTERN_ONLY = {("tiling", "check")}


def widen(rule):
    """Configurations a rule runs on in the thorough tier."""
    if not rule["per_config"] and len(rule["configs"]) > 1:
        return rule["configs"]
    key = (rule["module"], rule["fn"])
    if key in PATTERN_ONLY:
        return rule["configs"]
    out = list(rule["configs"])
    for c in ALL_CONFIGS:
        if c not in out and key + (c,) not in THOROUGH_SKIP:
            out.append(c)
    return tuple(out)


def _register_all():
    from . import registrations  # noqa: F401


def load_facts(configs):
    out = {}
    errs = {}
    with concurrent.futures.ThreadPoolExecutor(max_workers=min(8, max(1, len(configs)))) as ex:
        futs = {c: ex.submit(core.extract, c) for c in configs}
        for c, f in futs.items():
            try:
                out[c] = core.Facts(f.result())
            except core.FactsError as e:
                errs[c] = str(e)
    return out, errs


def main(argv):
    ap = argparse.ArgumentParser()
    ap.add_argument("prop")
    ap.add_argument("--tier", default=os.environ.get("VERIF_TIER", "quick"), choices=["quick", "thorough"])
    ap.add_argument("--explain", default=None, help="print a replay file")
    ap.add_argument("--replay", default=None, help="same as --explain")
    args = ap.parse_args(argv)
    if args.explain or args.replay:
        print(open(args.explain or args.replay).read())
        return 0
    _register_all()
    if args.prop not in PROPS:
        print("unknown or unclaimed property %s" % args.prop)
        return 2
    t0 = time.time()
    spec = PROPS[args.prop]
    rules = [dict(r) for r in spec["rules"] if r["tier"] == "quick" or args.tier == "thorough"]
    if args.tier == "thorough":
        for r in rules:
            wide = widen(r)
            if wide != r["configs"]:
                r["configs"], r["per_config"] = wide, True
    configs = []
    for r in rules:
        for c in r["configs"]:
            if c not in configs:
                configs.append(c)
    facts, errs = load_facts(configs)
    results = []
    for c, e in errs.items():
        rr = report.RuleResult("BUILD", "every analysed feature configuration type-checks")
        rr.fail("config=%s" % c, "configuration %s does not type-check: %s" % (c, e[-1500:]), "Cargo features " + c)
        results.append(rr)
    for r in rules:
        if any(c in errs for c in r["configs"]):
            continue
        mod = importlib.import_module("rules." + r["module"])
        fn = getattr(mod, r["fn"])
        try:
            if len(r["configs"]) == 1:
                res = fn(facts[r["configs"][0]])
            elif r.get("per_config"):
                res = []
                for c in r["configs"]:
                    rc = fn(facts[c])
                    for one in (rc if isinstance(rc, list) else [rc]):
                        tag = "[%s] " % c
                        for inst in one.instances:
                            inst["key"] = inst["key"].replace(one.rule + " ", one.rule + " " + tag, 1)
                        for f_ in one.findings:
                            f_.key = f_.key.replace(one.rule + " ", one.rule + " " + tag, 1)
                        one.errors = [tag + e for e in one.errors]
                        one.rule = one.rule
                        res.append(one)
            else:
                res = fn({c: facts[c] for c in r["configs"]})
        except core.FactsError as e:
            rr = report.RuleResult(r["module"].upper(), "anchors present")
            rr.error(str(e))
            res = rr
        except Exception:
            rr = report.RuleResult(r["module"].upper(), "rule engine")
            rr.error("internal error in rule %s.%s (fail closed):\n%s" % (r["module"], r["fn"], traceback.format_exc()[-3000:]))
            res = rr
        if isinstance(res, list):
            results.extend(res)
        else:
            results.append(res)
    renames = {}
    for c, f in facts.items():
        for newp, oldp in getattr(f, "renames", {}).items():
            renames[newp] = oldp
    for newp, oldp in sorted(renames.items()):
        print("NOTE: %s is analysed as the renamed/moved %s (same signature / type; tables/fn_names.json, field_names.json)" % (newp, oldp))
    return report.finish(args.prop, args.tier, results, t0, level=spec["level"], configs=configs,
                         extra={"renamed_anchors": renames} if renames else None)

"""TRUNCAST — no unreviewed truncating cast (C06, C13, C14).

Every integer `as` cast to a narrower type in the crate (MIR `Cast(IntToInt)`, macro expansions excluded) is
 * of a compile-time constant, or
 * of a value produced by `x & const` with the constant fitting the target type (UTF-8 lead-byte construction), or
 * listed, per (function, source->target type), in tables/cast_triage.json with the reason it cannot lose bits — most
   entries name the rule that checks the guarding range test (ASCIIGUARD, ASCIIBITMAP, NARROWCAST, LIMITS).
A new narrowing cast of a decoded element or code point (say `c as u16` before a checked `try_into`) silently maps
supplementary characters onto BMP/ASCII ones: only one input encoding is affected and nothing panics.
"""
import collections
import json
import os
import re

from . import core
from .report import RuleResult

RULE_TEXT = " ".join(x.strip() for x in __doc__.split("\n")[2:] if x.strip())
W = {"u8": 8, "i8": 8, "u16": 16, "i16": 16, "u32": 32, "i32": 32, "char": 32, "u64": 64, "i64": 64, "usize": 64, "isize": 64,
     "u128": 128, "i128": 128}


def load_triage():
    with open(os.path.join(core.VERIF, "tables", "cast_triage.json")) as fh:
        t = json.load(fh)
    t.pop("_comment", None)
    return t


def masked(b, op, bits):
    if op.get("k") not in ("copy", "move") or op["pl"]["p"]:
        return False
    d = b.single_def(op["pl"]["l"])
    if not d or d[2] != "assign":
        return False
    rv = d[3]["rv"]
    if rv["k"] == "bin" and rv.get("op") == "BitAnd":
        for side in (rv["a"], rv["b"]):
            v = b.const_of_operand(side)
            if v is not None and 0 <= v < (1 << bits):
                return True
    if rv["k"] == "use":
        return masked(b, rv["op"], bits)
    return False


def check(facts):
    r = RuleResult("TRUNCAST", RULE_TEXT)
    triage = load_triage()
    found = collections.defaultdict(list)
    total = 0
    auto = 0
    for n in sorted(facts.body_names()):
        b = facts.body(n)
        for bi, i, s in b.iter_stmts():
            if s["k"] != "assign" or s["rv"]["k"] != "cast" or s["rv"].get("ck") != "IntToInt" or s.get("exp"):
                continue
            op = s["rv"]["op"]
            st = op.get("ty") if op["k"] == "const" else (op["pl"].get("ty") or b.local_ty(op["pl"]["l"]))
            dt = s["rv"].get("ty") or s["pl"].get("ty") or b.local_ty(s["pl"]["l"])
            if st not in W or dt not in W or W[dt] >= W[st]:
                continue
            total += 1
            if op["k"] == "const" or b.const_of_operand(op) is not None or masked(b, op, W[dt]):
                auto += 1
                continue
            fn = facts.owner_of(n)
            found[(fn, "%s->%s" % (st, dt))].append(s["line"])
    for (fn, kind), lines in sorted(found.items()):
        key = "%s %s" % (fn, kind)
        ent = (triage.get(fn) or {}).get(kind)
        if ent and len(lines) <= ent[0]:
            r.ok(key, ent[1][:100])
            r.sample({"function": fn, "cast": kind, "lines": lines, "reason": ent[1]})
        elif ent:
            r.fail(key, "%d narrowing casts %s in %s but only %d reviewed (lines %s): the extra one may truncate" % (
                len(lines), kind, fn, ent[0], lines), facts.loc(fn, lines[-1]))
        else:
            r.fail(key, "unreviewed truncating cast %s at line %s: the value is neither a constant nor masked, and no reviewed range check is "
                        "recorded for it — a code point/element/index above the target range is silently mapped onto a small one" % (
                            kind, lines), facts.loc(fn, lines[0]))
    r.stats["narrowing_casts"] = total
    r.stats["auto_accepted_const_or_masked"] = auto
    r.floor("narrowing_casts", total, 10)
    # FAILEDNARROW: a checked narrowing (`try_into` / `try_from` on integers) that fails means "this value is not representable" —
    # its failure is propagated, tested or unwrapped, never replaced by an integer (`unwrap_or(0)`, `unwrap_or_default()`,
    # `map_or(0, ..)`): the substitute is a genuine member value (0 is NUL), so a non-representable character matches `[\0-\x7F]`
    SUBST = {"unwrap_or", "unwrap_or_default", "unwrap_or_else", "map_or", "map_or_else"}
    INT = re.compile(r"^(u|i)(8|16|32|64|128|size)$")
    ntry = 0
    for fn in sorted(facts.body_names()):
        if "::tests::" in fn:
            continue
        b = facts.body(fn)
        k = 0
        for bb, t in b.iter_calls():
            if (t.get("callee") or "").split("::")[-1] not in ("try_into", "try_from"):
                continue
            ntry += 1
            k += 1
            frontier = [t["dest"]["l"]]
            bad = None
            for _ in range(3):
                nxt = []
                for b2, t2 in b.iter_calls():
                    if not t2["args"] or t2["args"][0].get("k") not in ("copy", "move") or b.root_of(t2["args"][0]["pl"]["l"])[0] not in frontier:
                        continue
                    last = (t2.get("callee") or "").split("::")[-1]
                    if last in SUBST and INT.match(b.local_ty(t2["dest"]["l"]) or ""):
                        bad = (last, t2.get("line"))
                    elif last in ("ok", "map", "and_then", "copied", "cloned"):
                        nxt.append(t2["dest"]["l"])
                frontier = nxt
                if not frontier or bad:
                    break
            key = "%s checked narrowing #%d keeps its failure" % (re.sub(r"::\{closure#\d+\}", "", fn), k)
            if bad:
                r.fail(key, "the result of a checked integer narrowing is replaced by a value on failure (`%s`, line %s): a code point that "
                            "does not fit the narrower type becomes 0 (NUL) — a member of `[\\0-\\x7F]` — instead of 'not representable'" % bad,
                       facts.loc(fn, bad[1]))
            else:
                r.ok(key)
    r.floor("checked_narrowings", ntry, 20)
    return r

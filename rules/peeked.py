"""PEEKED — a parser routine that takes its first character unconditionally is only called with a character present (C07).

Some parser routines begin with `self.next().expect(..)` / `.unwrap()` on the straight line from their entry: they require
the caller to have seen that the input is not exhausted (the panic triage records exactly this as their reason). The
requirement is decided at every call site: the call is dominated by the `Some` edge of a test on a `peek()` result
(also through `.map(..)`; a match on the peeked character's value counts, its default/None edge does not), and no call
that consumes input (`next`, `consume*`, `try_consume*`) lies between that test and the call. A call on the None/default
edge turns a pattern that ends after a backslash into a panic instead of `Err`.
"""
import re

from . import core, backref
from .report import RuleResult

RULE_TEXT = " ".join(x.strip() for x in __doc__.split("\n")[2:] if x.strip())
PARSER = "parse::Parser::<I>::"


def requires_char(b):
    """True if the body's first call (before any branch) is next() whose result is unwrapped/expected at once."""
    bi = 0
    seen = set()
    nxt = None
    for _ in range(12):
        if bi in seen:
            return False
        seen.add(bi)
        t = b.blocks[bi]["t"]
        if t["k"] == "goto":
            bi = t["t"]
            continue
        if t["k"] != "call":
            return False
        cal = t.get("callee") or ""
        last = cal.split("::")[-1]
        if nxt is None:
            if last == "next":
                nxt = t["dest"]["l"]
                bi = t["t"]
                continue
            if cal.startswith("std::") or last in ("deref", "deref_mut", "as_mut", "by_ref"):
                bi = t["t"]
                continue
            return False
        if last in ("expect", "unwrap") and t["args"] and t["args"][0].get("k") in ("copy", "move") and b.root_of(t["args"][0]["pl"]["l"])[0] == nxt:
            return True
        return False
    return False


def consuming(cal):
    last = cal.split("::")[-1]
    return cal.startswith(PARSER) and (last == "next" or last.startswith("consume") or last.startswith("try_consume"))


def check(facts):
    r = RuleResult("PEEKED", RULE_TEXT)
    req = sorted(n for n in facts.body_names() if n.startswith(PARSER) and "{closure" not in n and requires_char(facts.body(n)))
    r.floor("routines_requiring_a_character", len(req), 1)
    nsites = 0
    for fn in sorted(facts.body_names()):
        if "{closure" in fn:
            continue
        b = facts.body(fn)
        sites = [(bb, t) for bb, t in b.iter_calls() if (t.get("callee") or "") in req]
        if not sites:
            continue
        dom = b.dom()
        k = 0
        for bb, t in sites:
            nsites += 1
            k += 1
            callee = t["callee"].split("::")[-1]
            key = "%s -> %s #%d" % (fn, callee, k)
            guard = None
            for d in sorted(dom[bb], key=lambda x: len(dom[x])):
                tt = b.blocks[d]["t"]
                if tt["k"] != "switch" or tt["discr"].get("k") not in ("copy", "move"):
                    continue
                srcs = backref.value_sources(b, tt["discr"]["pl"]["l"])
                if not any(s[0] in ("outcome", "call") and len(s) > 1 and (s[1].endswith("::peek") or s[1].endswith("Option::<T>::map"))
                           for s in srcs):
                    continue
                if tt.get("dty") == "isize":      # the Option discriminant: only the Some edge proves a character
                    edges = [tg for v, tg in tt["targets"] if v == 1]
                    if not edges and any(v == 0 for v, _ in tt["targets"]):
                        edges = [tt["otherwise"]]  # `switch d -> [0: none] else some`
                else:                               # a match on the character's value: explicit values prove it, the default does not
                    edges = [tg for v, tg in tt["targets"]]
                for e in edges:
                    if e == bb or e in dom[bb]:
                        guard = (d, e, tt.get("line"))
            if guard is None:
                r.fail(key, "%s takes its first character unconditionally (next().expect), but this call (line %s) is not on the Some edge of a "
                            "test on peek(): at the end of the pattern it panics instead of returning Err" % (callee, t.get("line")),
                       facts.loc(fn, t.get("line")))
                continue
            d, e, gline = guard
            between = b.reach_from(e) & {x for x in b.reachable() if bb in b.reach_from(x)}
            # `self.input = saved` (a restore of a clone taken before the look-ahead) puts the consumed characters back
            restores = [x for x in between if x in dom[bb] and any(
                st["k"] == "assign" and "input" in core.proj_fields(st["pl"]) and st["pl"]["l"] == 1 for st in b.blocks[x]["s"])]
            eaten = []
            for x in sorted(between):
                tx = b.blocks[x]["t"]
                if x == bb or tx["k"] != "call" or not consuming(tx.get("callee") or ""):
                    continue
                if any(x in dom[rs] for rs in restores):
                    continue
                eaten.append(tx.get("line"))
            if eaten:
                r.fail(key, "the character seen by the peek at line %s is consumed (line %s) before %s is called at line %s: the routine may "
                            "find the input exhausted and panic" % (gline, eaten[0], callee, t.get("line")), facts.loc(fn, t.get("line")))
            else:
                r.ok(key, "on the Some edge of the peek at line %s" % gline)
                r.sample({"caller": fn, "callee": t["callee"], "call_line": t.get("line"), "peek_test_line": gline})
    r.floor("call_sites", nsites, 4)
    return r

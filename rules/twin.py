"""TWIN / POSSIB / HASHITER / CFGINV — feature switches select equivalent code (C15).

TWIN     both arms of every `if cfg!(feature = ..)` (and of rs_unreachable!) are equal after rewriting the reviewed
         checked/unchecked idioms: X[i] ~ X.index(i) ~ *X.get_unchecked(i) ~ X.get(i).expect(_);
         X.index_mut(i) ~ X.get_unchecked_mut(i); X.pop() ~ X.set_len(X.len() - 1);
         NonNull::new(p).expect(_) ~ NonNull::new_unchecked(p); unreachable!() ~ unreachable_unchecked();
         &buf()[off(a)..off(b)] ~ from_raw_parts(a.ptr(), b - a). One declared non-idiom pair is trusted, not
         decided: ByteBitmap::find_in (linear scan vs align_to chunks).
XCONFIG  every function has the same normalised HIR in the default, prohibit-unsafe, index-positions and alloc
         configurations (cfg literals abstracted, idioms rewritten), except the position-representation accessors
         listed with a reason; a configuration that does not type-check is itself a violation.
POSSIB   the operator impls of IndexPosition and RefPosition normalise to the same ADD / SUB / DIFF forms with the
         same operand order.
HASHITER no iteration over a HashMap (std RandomState vs hashbrown would make results run- and
         configuration-dependent) except sites triaged as order-insensitive.
CFGINV   every cfg!(feature) conditional and every surviving #[cfg(feature)] attribute belongs to a classified kind.
"""
import json
import re

from . import core, hirutil as H
from .report import RuleResult

DOC = __doc__


def _text(name):
    m = re.search(r"^%s\s+(.*?)(?=^[A-Z]+\s{2,}|\Z)" % name, DOC, re.S | re.M)
    return " ".join(m.group(1).split()) if m else name


TRUSTED_NONIDIOM = {"<bytesearch::ByteBitmap as bytesearch::ByteSearcher>::find_in":
                    "linear scan vs u32-chunked scan via align_to: two algorithms, covered by the bitmap_search unit test only"}


def is_cfg_lit(c):
    while c.get("k") == "un" and c.get("op") == "!":
        c = c["a"]
    return c.get("k") == "lit" and c.get("mac") == "cfg"


def canon_path(p):
    """std/core/alloc re-exports and the two position types are the same thing across configurations."""
    if not p:
        return p
    p = re.sub(r"^(core|alloc)::", "std::", p)
    p = re.sub(r"\b(hashbrown)::", "std::collections::", p)
    p = re.sub(r"position::(Ref|Index)Position", "position::Position", p)
    return p


def norm(n, env=None):
    """HIR tree -> canonical nested tuples with idioms rewritten."""
    env = env if env is not None else {}

    def local(name):
        return ("v", name)

    def go(n):
        if isinstance(n, list):
            return tuple(go(x) for x in n)
        if not isinstance(n, dict):
            return n
        k = n.get("k")
        if k == "block":
            stmts = []
            for st in n.get("stmts", []):
                sk = st.get("k")
                if sk == "let":
                    if "init" not in st:
                        continue
                    stmts.append(("let", go_pat(st["pat"]), go(st["init"])))
                elif sk in ("semi", "expr"):
                    e = go(st["e"])
                    if e == ("unit",) or (isinstance(e, tuple) and e and e[0] == "debug"):
                        continue
                    stmts.append(e)
                elif sk == "item":
                    continue
            e = go(n["expr"]) if "expr" in n else None
            if not stmts and e is not None:
                return e  # unsafe / plain single-expression blocks are transparent
            if not stmts and e is None:
                return ("unit",)
            if len(stmts) == 1 and e is None and stmts[0][0] != "let":
                return stmts[0]  # `{ x; }` ~ `x` for unit/diverging expressions
            return ("block", tuple(stmts), e)
        if k == "addrof":
            return go(n["e"])
        if k == "cast":
            return go(n["e"])
        if k == "un":
            if n["op"] == "*":
                return go(n["a"])
            return ("un", n["op"], go(n["a"]))
        if k == "lit":
            return ("lit", n.get("v"))
        if k == "path":
            r = n.get("res", {})
            if r.get("r") == "local":
                return local(r["name"])
            return ("def", canon_path(r.get("path")))
        if k == "field":
            base = go(n["e"])
            if n["name"] == "0":
                return ("VAL", base)
            return ("field", base, n["name"])
        if k == "index":
            return ("GET", go(n["e"]), go(n["i"]))
        if k == "bin":
            a, b = go(n["a"]), go(n["b"])
            if n["op"] == "+":
                return ("ADD", a, b)
            if n["op"] == "-":
                return ("SUB", a, b)
            return ("bin", n["op"], a, b)
        if k == "struct":
            return ("struct", canon_path(n.get("res", {}).get("path")), tuple((f, go(v)) for f, v in n["fields"]))
        if k == "tup":
            return ("tup", tuple(go(x) for x in n["elems"]))
        if k == "call":
            path = canon_path((n.get("callee") or {}).get("path", "") or "")
            args = tuple(go(a) for a in n["args"])
            last = path.split("::")[-1]
            if path.endswith("NonNull::<T>::new_unchecked") or path.endswith("NonNull::new_unchecked") or last == "new_unchecked":
                return ("NONNULL", args[0])
            if last == "from_raw_parts" and len(args) == 2:
                a0, a1 = args
                if a0[0] == "VAL" and a1[0] == "SUB" and a1[2][0:1] != () and a1[2] == a0[1]:
                    return ("SLICE", a0[1], a1[1])
                return ("from_raw_parts", a0, a1)
            if last in ("unreachable_unchecked",):
                return ("UNREACHABLE",)
            if last in ("panic_fmt", "panic", "unreachable_display", "panic_explicit") or "panicking" in path:
                return ("UNREACHABLE",)
            if last == "new" and ("IndexPosition" in path or "RefPosition" in path or path.endswith("Self::new") or "position::" in path):
                return ("MK", args[0]) if args else ("MK",)
            if last in ("IndexPosition", "RefPosition") and args:
                return ("MK", args[0])
            if "NonNull" in path and last == "new":
                return ("NONNULL?", args[0])
            return ("call", path, args)
        if k == "mcall":
            name = n["name"]
            recv = go(n["recv"])
            args = tuple(go(a) for a in n["args"])
            if name in ("index", "get_unchecked") and len(args) == 1:
                return ("GET", recv, args[0])
            if name in ("index_mut", "get_unchecked_mut") and len(args) == 1:
                return ("GETMUT", recv, args[0])
            if name == "expect" and recv and recv[0] == "mcall" and recv[1] == "get":
                return ("GET", recv[2], recv[3][0])
            if name == "expect" and recv and recv[0] == "NONNULL?":
                return ("NONNULL", recv[1])
            if name == "pop" and not args:
                return ("POP", recv)
            if name == "set_len" and len(args) == 1 and args[0] == ("SUB", ("mcall", "len", recv, ()), ("lit", 1)):
                return ("POP", recv)
            if name == "ptr" and not args:
                return ("VAL", recv)
            if name == "add" and len(args) == 1:
                return ("ADD", recv, args[0])
            if name in ("sub", "offset_from") and len(args) == 1:
                return ("SUB", recv, args[0])
            return ("mcall", name, recv, args)
        if k == "if":
            c = n["cond"]
            if is_cfg_lit(c):
                cc = c
                while cc.get("k") == "un":
                    cc = cc["a"]
                if "debug_assertions" in (cc.get("cfg") or ""):
                    return ("unit",)  # debug_assert! bodies: compiled out of release builds, never observable
                return ("CFGIF", go(n["then"]), go(n.get("else", {"k": "block", "stmts": []})))
            if c.get("k") == "lit" and c.get("t") == "bool":
                # literal condition from debug_assert!/assert! expansion
                if c.get("v") is False:
                    return go(n["else"]) if "else" in n else ("unit",)
                return go(n["then"])
            return ("if", go(c), go(n["then"]), go(n["else"]) if "else" in n else None)
        if k == "match":
            return ("match", go(n["scrut"]), tuple((go_pat(a["pat"]), go(a["guard"]) if a.get("guard") else None, go(a["body"])) for a in n["arms"]))
        if k == "letexpr":
            return ("letexpr", go_pat(n["pat"]), go(n["init"]))
        if k == "loop":
            return ("loop", go(n["body"]))
        if k == "assign":
            return ("assign", go(n["lhs"]), go(n["rhs"]))
        if k == "assignop":
            return ("assignop", n["op"], go(n["lhs"]), go(n["rhs"]))
        if k == "ret":
            return ("ret", go(n["e"]) if "e" in n else None)
        if k == "break":
            return ("break", go(n["e"]) if "e" in n else None)
        if k == "continue":
            return ("continue",)
        if k == "closure":
            return ("closure", tuple(go_pat(p) for p in n.get("params", [])), go(n["body"]))
        if k == "array":
            return ("array", tuple(go(x) for x in n["elems"]))
        if k == "repeat":
            return ("repeat", go(n["e"]))
        return (k,)

    def go_pat(p):
        k = p.get("k")
        if k == "bind":
            return ("bind", p["name"], go_pat(p["sub"]) if p.get("sub") else None)
        if k in ("tstruct",):
            return ("tstruct", canon_path(p["res"].get("path")), tuple(go_pat(x) for x in p["pats"]))
        if k == "struct":
            return ("pstruct", canon_path(p["res"].get("path")), tuple((f, go_pat(x)) for f, x in p["fields"]))
        if k == "path":
            return ("ppath", canon_path(p["res"].get("path")))
        if k == "tuple":
            return ("ptuple", tuple(go_pat(x) for x in p["pats"]))
        if k in ("ref", "box", "deref"):
            return go_pat(p["pat"])
        if k == "lit":
            return ("plit", p.get("v"))
        if k == "or":
            return ("por", tuple(go_pat(x) for x in p["pats"]))
        if k == "range":
            return ("prange", (p.get("lo") or {}).get("v"), (p.get("hi") or {}).get("v"))
        return (k,)
    out = go(n)
    # `let len = b - a; .. from_raw_parts(a.ptr(), len)`: the length through a single-assignment local
    lets = {}

    def collect(t):
        if isinstance(t, tuple):
            if len(t) == 3 and t[0] == "let" and isinstance(t[1], tuple) and t[1][:1] == ("bind",) and isinstance(t[2], tuple) and t[2][:1] == ("SUB",):
                lets.setdefault(t[1][1], []).append(t[2])
            for x in t:
                collect(x)
    collect(out)

    def resolve(t):
        if isinstance(t, tuple):
            if len(t) == 3 and t[0] == "from_raw_parts" and isinstance(t[1], tuple) and t[1][:1] == ("VAL",) and isinstance(t[2], tuple) \
                    and t[2][:1] == ("v",) and len(lets.get(t[2][1], [])) == 1:
                sub = lets[t[2][1]][0]
                if sub[2] == t[1][1]:
                    return ("SLICE", t[1][1], sub[1])
            return tuple(resolve(x) for x in t)
        return t
    return resolve(out) if lets else out


def slice_idiom(t):
    """GET(contents(self), Range{start: off(a), end: off(b)}) -> SLICE(a, b)."""
    if not isinstance(t, tuple):
        return t
    t = tuple(slice_idiom(x) for x in t)
    if t and t[0] == "GET" and isinstance(t[2], tuple) and t[2] and t[2][0] == "struct" and (t[2][1] or "").endswith("ops::Range"):
        flds = dict(t[2][2])
        s, e = flds.get("start"), flds.get("end")
        if s and e and s[0] == "mcall" and s[1] == "pos_to_offset" and e[0] == "mcall" and e[1] == "pos_to_offset":
            base = t[1]
            if base[0] == "mcall" and base[1] == "contents":
                return ("SLICE", s[3][0], e[3][0])
    return t


def collapse_cfg(t):
    """Replace CFGIF(a, b) by a when a == b (decided by TWIN); leave it otherwise."""
    if not isinstance(t, tuple):
        return t
    t = tuple(collapse_cfg(x) for x in t)
    if t and t[0] == "CFGIF":
        if t[1] == t[2]:
            return t[1]
    return t


def strip_debug(t):
    """Remove debug_assert! expansions (`if cfg!(debug_assertions) {..}` bodies vanish in release)."""
    return t


def check_twin(facts):
    r = RuleResult("TWIN", _text("TWIN"))
    n = 0
    for fn, h in sorted(facts.hir.items()):
        found = []

        def visit(node, ps):
            if node.get("k") == "if" and is_cfg_lit(node["cond"]):
                c = node["cond"]
                while c.get("k") == "un":
                    c = c["a"]
                txt = c.get("cfg") or ""
                if "debug_assertions" in txt:
                    return
                found.append((node, txt))
        core.hir_walk(h["body"], visit)
        for i, (node, txt) in enumerate(found):
            n += 1
            key = "%s cfg#%d %s" % (fn, i + 1, re.sub(r"\s+", " ", txt)[:60])
            a = slice_idiom(norm(node["then"]))
            b = slice_idiom(norm(node.get("else", {"k": "block", "stmts": []})))
            if a == b:
                r.ok(key, "arms equal after idiom rewriting")
                r.sample({"key": key, "normal_form": json.dumps(a)[:200]})
            elif fn in TRUSTED_NONIDIOM:
                r.ok(key + " (trusted, not decided)", TRUSTED_NONIDIOM[fn], nontrivial=False)
            else:
                r.fail(key, "the two arms selected by %s are not equivalent under the idiom table (or use an unrecognised idiom): %s  vs  %s" % (
                    txt[:50], json.dumps(a)[:220], json.dumps(b)[:220]), facts.loc(fn, node.get("line")))
    r.floor("cfg_conditionals", n, 20)
    return r


ACCEPTED_XCONFIG = {
    "left_end": "position representation: Position::new(0) vs Position::new(ptr)",
    "right_end": "position representation: Position::new(len) vs left_end() + len",
}


def check_xconfig(allfacts):
    r = RuleResult("XCONFIG", _text("XCONFIG"))
    base = allfacts["default"]
    nb = {}
    for fn, h in base.hir.items():
        nb[fn] = collapse_cfg(slice_idiom(norm(h["body"])))
    for cfg, f in allfacts.items():
        if cfg == "default":
            continue
        ncmp = 0
        for fn, h in sorted(f.hir.items()):
            if fn not in nb:
                continue
            ncmp += 1
            t = collapse_cfg(slice_idiom(norm(h["body"])))
            if t == nb[fn]:
                continue
            short = fn.split("::")[-1]
            key = "[%s] %s" % (cfg, fn)
            if short in ACCEPTED_XCONFIG and ("InputIndexer" in fn):
                r.ok(key + " (accepted)", ACCEPTED_XCONFIG[short], nontrivial=False)
                continue
            if cfg == "utf16" and fn in {a["owner"] for a in base.cfg_attrs + f.cfg_attrs if "utf16" in a["cfg"]}:
                r.ok(key + " (accepted)", "the function carries #[cfg(feature = \"utf16\")] code: its source differs by design "
                     "and the utf16 configuration's own rules (SIBPOS, LBSEQ, PLUMB, PANICS) analyse it", nontrivial=False)
                continue
            a, b = json.dumps(nb[fn]), json.dumps(t)
            i = next((i for i, (x, y) in enumerate(zip(a, b)) if x != y), min(len(a), len(b)))
            r.fail(key, "function body differs between the default and the %s configuration beyond the reviewed idioms, near …%s… vs …%s…" % (
                cfg, a[max(0, i - 80):i + 80], b[max(0, i - 80):i + 80]), f.loc(fn))
        only = [fn for fn in f.hir if fn not in nb and "utf16" not in cfg]
        r.ok("[%s] %d functions compared with default" % (cfg, ncmp))
        r.stats["compared_" + cfg] = ncmp
        if ncmp < 400:
            r.error("[%s] only %d functions compared" % (cfg, ncmp))
    return r


OPS = [("Add<usize>", "add"), ("Sub<usize>", "sub"), ("AddAssign<usize>", "add_assign"), ("SubAssign<usize>", "sub_assign")]


def check_possib(facts):
    r = RuleResult("POSSIB", _text("POSSIB"))
    def find(ty, trait_pat, method):
        for fn in facts.hir:
            if fn.startswith("<position::%s<" % ty) and trait_pat in fn and fn.endswith("::" + method):
                return fn
        return None
    pairs = [("std::ops::Add<usize>", "add"), ("std::ops::Sub<usize>", "sub"), ("std::ops::AddAssign<usize>", "add_assign"),
             ("std::ops::SubAssign<usize>", "sub_assign"), ("std::ops::Sub>", "sub"), ("std::ops::Sub<position::", "sub")]
    done = set()
    n = 0
    for trait_pat, method in pairs:
        fi, fr_ = find("IndexPosition", trait_pat, method), find("RefPosition", trait_pat, method)
        if not fi or not fr_ or (fi, fr_) in done:
            continue
        done.add((fi, fr_))
        n += 1
        a = norm(facts.hir[fi]["body"])
        b = norm(facts.hir[fr_]["body"])
        # IndexPosition(v, PhantomData) -> MK(v)
        def mk(t):
            if not isinstance(t, tuple):
                return t
            t = tuple(mk(x) for x in t)
            if t and t[0] == "call" and (t[1] or "").endswith(("IndexPosition", "position::Position")) and t[2]:
                return ("MK", t[2][0])
            if t and t[0] == "call" and (t[1] or "").endswith("::new") and t[2]:
                return ("MK", t[2][0])
            return t
        a, b = mk(a), mk(b)
        key = "%s ~ %s" % (fi.split(" as ")[1], "IndexPosition/RefPosition")
        if a == b:
            r.ok(key, json.dumps(a)[:120])
            r.sample({"impl": fi.split(" as ")[1], "normal_form": json.dumps(a)[:160]})
        else:
            r.fail(key, "IndexPosition and RefPosition implement %s differently: %s vs %s" % (fi.split(" as ")[1], json.dumps(a)[:200], json.dumps(b)[:200]),
                   facts.loc(fi))
    r.floor("operator_impl_pairs", n, 5)
    return r


HASH_ITER_METHODS = {"iter", "keys", "values", "into_iter", "drain", "iter_mut", "values_mut", "into_keys", "into_values", "retain"}
HASH_TRIAGED = {
    "parse::Parser::<I>::check_duplicate_conflicts": "only decides error / no error: any conflict is reported whatever the order",
}


def check_hashiter(facts):
    r = RuleResult("HASHITER", _text("HASHITER"))
    n = 0
    for fn in sorted(facts.body_names()):
        b = facts.body(fn)
        for bb, t in b.iter_calls():
            cal = t.get("callee") or ""
            res = t.get("resolved") or ""
            name = cal.split("::")[-1]
            if name not in HASH_ITER_METHODS:
                continue
            a0 = t["args"][0] if t["args"] else {}
            ty = a0.get("pl", {}).get("ty", "") if a0.get("k") in ("copy", "move") else ""
            if "HashMap<" not in ty and "HashMap" not in cal and "HashMap" not in res and "hash::map" not in res:
                continue
            n += 1
            base = re.sub(r"::\{closure#\d+\}", "", fn)
            key = "%s %s over HashMap" % (base, name)
            if base in HASH_TRIAGED:
                r.ok(key, "triaged: " + HASH_TRIAGED[base])
            else:
                r.fail(key, "iterates a HashMap (%s): the order differs between runs (std RandomState) and between std and hashbrown builds, "
                            "so anything derived from it is configuration-dependent" % name, facts.loc(fn, t.get("line")))
    # positive control: the known site must be seen
    if n == 0:
        r.error("positive control failed: the known HashMap iteration in check_duplicate_conflicts was not observed")
    return r


CFG_KINDS = [
    (r'feature = "prohibit-unsafe"', "checked/unchecked twin"),
    (r'feature = "index-positions"', "position representation"),
    (r'feature = "utf16"', "utf16 lowering / API surface"),
    (r'feature = "backend-pikevm"', "optional executor"),
    (r'feature = "std"', "std/alloc imports"),
    (r'feature = "alloc"', "std/alloc imports"),
    (r'feature = "pattern"', "Pattern trait API surface"),
    (r"debug_assertions", "debug-only assertion"),
    (r"^rs_unreachable!", "checked/unchecked twin"),
    (r"\btest\b", "test-only"),
]


def check_cfginv(facts):
    r = RuleResult("CFGINV", _text("CFGINV"))
    n = 0
    for a in facts.cfg_attrs:
        n += 1
        kind = next((k for rx, k in CFG_KINDS if re.search(rx, a["cfg"])), None)
        key = "%s %s" % (a["owner"], re.sub(r"\s+", " ", a["cfg"]))
        if kind:
            r.ok(key, kind, nontrivial=False)
        else:
            r.fail(key, "unclassified #[cfg] attribute", "%s:%s" % (a["file"], a["line"]))
    for fn, h in facts.hir.items():
        def visit(node, ps):
            if node.get("k") == "lit" and node.get("mac") == "cfg":
                txt = node.get("cfg") or ""
                kind = next((k for rx, k in CFG_KINDS if re.search(rx, txt)), None)
                if not kind:
                    r.fail("%s %s" % (fn, txt[:60]), "unclassified cfg! conditional", facts.loc(fn))
        core.hir_walk(h["body"], visit)
    r.floor("cfg_attributes", n, 25)
    return r


# ---- COUNTSIB -------------------------------------------------------------------------------

def check_countsib(facts):
    """CodePointSet::inverted_interval_count is documented as the number of intervals `inverted` would produce (the
    optimizer picks the cheaper polarity from it). The two are written as the same walk; after rewriting `v.push(..)`
    and `n += 1` to the same token, dropping the accumulator's declaration and the final expression, the trees must
    be identical: every interval of the complement is pushed under exactly the condition under which it is counted
    (a changed bound in one of them — `<` for `<=` at U+10FFFF — loses or invents the last interval)."""
    r = RuleResult("COUNTSIB", " ".join(check_countsib.__doc__.split()))
    fa, fb = "codepointset::CodePointSet::inverted_interval_count", "codepointset::CodePointSet::inverted"
    if fa not in facts.hir or fb not in facts.hir:
        r.error("anchors %s / %s not found" % (fa, fb))
        return r

    def rewrite(t, acc):
        if isinstance(t, tuple):
            if t and t[0] == "mcall" and t[1] == "push" and t[2] == ("v", acc):
                return ("INC",)
            if t and t[0] == "assignop" and t[1] == "+=" and t[2] == ("v", acc) and t[3] == ("lit", 1):
                return ("INC",)
            return tuple(rewrite(x, acc) for x in t)
        return t
    trees = []
    for fn in (fa, fb):
        t = norm(facts.hir[fn]["body"])
        if not (isinstance(t, tuple) and t and t[0] == "block" and t[1] and t[1][0][0] == "let"):
            r.fail("%s shape" % fn, "unrecognised shape (expected `let acc = ..; walk; result`)", facts.loc(fn))
            return r
        acc = t[1][0][1][1]
        trees.append((acc, rewrite(t[1][1:], acc)))
    key = "%s ~ %s" % (fa.split("::")[-1], fb.split("::")[-1])
    ninc = json.dumps(trees[0][1]).count('"INC"')
    if trees[0][1] == trees[1][1] and ninc >= 2:
        r.ok(key, "%d counted/pushed intervals under identical conditions" % ninc)
        r.sample({"siblings": [fa, fb], "normal_form": json.dumps(trees[0][1])[:300]})
    else:
        a, b = json.dumps(trees[0][1]), json.dumps(trees[1][1])
        i = next((i for i, (x, y) in enumerate(zip(a, b)) if x != y), min(len(a), len(b)))
        r.fail(key, "`inverted` does not push an interval under exactly the conditions `inverted_interval_count` counts one: near …%s… vs …%s… "
                    "— a complement loses or gains an interval (e.g. the one ending at U+10FFFF)" % (a[max(0, i - 90):i + 60], b[max(0, i - 90):i + 60]),
               facts.loc(fb))
    return r


# ---- UNFOLDSIB ------------------------------------------------------------------------------

def check_unfoldsib(facts):
    """unicode::unfold_char (unicode mode, table FOLDS, canonicaliser `fold`) and unicode::unfold_uppercase_char (legacy mode,
    table TO_UPPERCASE, canonicaliser `uppercase`, images filtered through `legacy_canonical`) compute the same thing over
    their table: every code point whose image equals the canonical form of c. After mapping the table, the canonicaliser
    and `legacy_canonical(cp, x)` -> x to common tokens the two bodies must be the same tree: in particular both scan
    *every* range whose image interval contains the canonical form — an extra skip condition in one of them (say "ranges
    lying before fcp") drops members whose lower case sorts below the upper case (U+00FF/U+0178, U+00B5/U+039C) in one
    mode only, and the relation stops being symmetric."""
    r = RuleResult("UNFOLDSIB", " ".join(check_unfoldsib.__doc__.split()))
    fa, fb = "unicode::unfold_char", "unicode::unfold_uppercase_char"
    if fa not in facts.hir or fb not in facts.hir:
        r.error("anchors %s / %s not found" % (fa, fb))
        return r

    def rw(t):
        if isinstance(t, tuple):
            if t and t[0] == "def" and str(t[1]).split("::")[-1] in ("FOLDS", "TO_UPPERCASE"):
                return ("TABLE",)
            if t and t[0] == "call" and str(t[1]).split("::")[-1] in ("fold", "uppercase") and len(t[2]) == 1:
                return ("CANON", rw(t[2][0]))
            if t and t[0] == "call" and str(t[1]).split("::")[-1] == "legacy_canonical" and len(t[2]) == 2:
                return rw(t[2][1])
            return tuple(rw(x) for x in t)
        return t
    ta, tb = rw(norm(facts.hir[fa]["body"])), rw(norm(facts.hir[fb]["body"]))
    key = "unfold_char ~ unfold_uppercase_char"

    def bag(h):
        """form-insensitive summary for the case that one sibling is written as a loop and the other as an iterator chain: the
        multiset of comparison / arithmetic operators, literals, fields and callees — without iteration plumbing, negations,
        locals and structure — after the same table / canonicaliser renaming"""
        PLUMB = {"iter", "into_iter", "filter", "extend", "push", "map", "collect", "next", "copied", "cloned", "for_each", "filter_map",
                 "flat_map", "chain", "by_ref", "from", "into", "new", "with_capacity", "to_vec", "is_empty", "len"}
        out_ = []

        def go(n):
            if isinstance(n, list):
                for x in n:
                    go(x)
                return
            if not isinstance(n, dict):
                return
            k_ = n.get("k")
            if k_ == "bin":
                out_.append({">": "<", ">=": "<="}.get(n.get("op"), n.get("op")))
            elif k_ == "lit":
                out_.append("lit:%r" % (n.get("v"),))
            elif k_ == "mcall":
                nm = (n.get("def") or n.get("name") or "").split("::")[-1]
                if nm not in PLUMB:
                    out_.append("call:" + nm)
            elif k_ == "call":
                nm = ((n.get("callee") or {}).get("path") or "").split("::")[-1]
                if nm in ("fold", "uppercase"):
                    nm = "CANON"
                if nm and nm not in PLUMB and nm != "legacy_canonical":
                    out_.append("call:" + nm)
            elif k_ == "field":
                out_.append("field:" + str(n.get("name")))
            elif k_ == "path":
                r0 = n.get("res") or {}
                if r0.get("r") == "def" and str(r0.get("path", "")).split("::")[-1] in ("FOLDS", "TO_UPPERCASE"):
                    out_.append("TABLE")
            for kk, v in n.items():
                if kk not in ("pat", "res", "ty", "recv_ty", "scrut_ty"):
                    go(v)
        go(h)
        return sorted(out_)
    if ta != tb:
        ba, bb_ = bag(facts.hir[fa]["body"]), bag(facts.hir[fb]["body"])
        if ba == bb_ and ba.count("TABLE") == 1:
            r.ok(key, "same operators, tests and callees over the mode's table (one sibling in loop form, the other as an iterator chain)")
            return r
    if ta == tb and json.dumps(ta).count('"TABLE"') == 1:
        r.ok(key, "same scan over the mode's table")
        r.sample({"siblings": [fa, fb], "normal_form": json.dumps(ta)[:300]})
    else:
        a, b = json.dumps(ta), json.dumps(tb)
        i = next((i for i, (x, y) in enumerate(zip(a, b)) if x != y), min(len(a), len(b)))
        r.fail(key, "the unicode and the legacy unfold differ beyond table / canonicaliser: near …%s… vs …%s… — one mode skips ranges (or "
                    "accepts images) the other does not, so /x/i and /X/i stop agreeing in that mode" % (
                        a[max(0, i - 100):i + 80], b[max(0, i - 100):i + 80]), facts.loc(fb))
    return r


# ---- SURRSIB --------------------------------------------------------------------------------

def check_surrsib(facts):
    """Utf16Input::is_high_surrogate and is_low_surrogate are the same range test over their own pair of constants
    (HIGH_START..=HIGH_END, LOW_START..=LOW_END, which tile U+D800..=U+DFFF). After mapping the constants to START / END the
    two bodies must be the same tree, and the four constants must be 0xD800 <= .. adjacent .. <= 0xDFFF. One predicate written
    with an exclusive upper bound stops pairing code points at or above U+10FC00 (high) or every ..FF low surrogate."""
    r = RuleResult("SURRSIB", " ".join(check_surrsib.__doc__.split()))
    hi = [n for n in facts.hir if n.endswith("Utf16Input::<'a>::is_high_surrogate") or n.endswith("Utf16Input::is_high_surrogate")]
    lo = [n for n in facts.hir if n.endswith("Utf16Input::<'a>::is_low_surrogate") or n.endswith("Utf16Input::is_low_surrogate")]
    if not hi or not lo:
        r.error("anchors Utf16Input::is_high_surrogate / is_low_surrogate not found (utf16 configuration)")
        return r

    def rw(t):
        if isinstance(t, tuple):
            if t and t[0] == "def":
                last = str(t[1]).split("::")[-1]
                if last.startswith("SURROGATE_") and last.endswith("_START"):
                    return ("START",)
                if last.startswith("SURROGATE_") and last.endswith("_END"):
                    return ("END",)
            return tuple(rw(x) for x in t)
        return t
    ta, tb = rw(norm(facts.hir[hi[0]]["body"])), rw(norm(facts.hir[lo[0]]["body"]))
    key = "is_high_surrogate ~ is_low_surrogate"
    sa = json.dumps(ta)
    excl = '"std::ops::Range"' in sa or re.search(r'\["bin", "<", \[[^\]]*\], \["END"\]\]', sa) or re.search(r'\["bin", ">", \["END"\]', sa)
    if ta == tb and excl:
        r.fail(key, "both surrogate predicates use an exclusive upper bound although *_END is the last surrogate of its half: %s" % sa[:200],
               facts.loc(hi[0]))
    elif ta == tb and '"START"' in sa and '"END"' in sa:
        r.ok(key, sa[:160])
        r.sample({"siblings": [hi[0], lo[0]], "normal_form": sa[:200]})
    else:
        r.fail(key, "the two surrogate predicates are not the same test over their own constants: %s vs %s — one of them has a different "
                    "(exclusive / shifted) bound" % (sa[:200], json.dumps(tb)[:200]), facts.loc(hi[0]))
    # the constants
    vals = {}
    for name, c in facts.consts.items():
        m = re.search(r"SURROGATE_(HIGH|LOW)_(START|END)$", name)
        v = c.get("eval", c.get("int")) if isinstance(c, dict) else None
        if m and isinstance(v, int):
            vals[(m.group(1), m.group(2))] = v
    if len(vals) == 4:
        okc = vals[("HIGH", "START")] == 0xD800 and vals[("HIGH", "END")] + 1 == vals[("LOW", "START")] and vals[("LOW", "END")] == 0xDFFF \
            and vals[("HIGH", "END")] - vals[("HIGH", "START")] == vals[("LOW", "END")] - vals[("LOW", "START")]
        if okc:
            r.ok("surrogate constants tile U+D800..=U+DFFF", str(sorted(vals.items())))
        else:
            r.fail("surrogate constants tile U+D800..=U+DFFF", "the surrogate bounds %s do not tile U+D800..=U+DFFF in two equal halves" % sorted(vals.items()),
                   facts.loc(hi[0]))
    return r

"""COVERALL — a byte searcher looks at every byte of the haystack it is given (C04, C15).

For every implementation of ByteSearcher::find_in / SmallArraySet::find_in and for ByteBitmap::unsafe_find_in_slice, each
use of the haystack parameter (the `&[u8]` slice) is one of: handing the whole slice to another searcher (memchr,
memchr2, memchr3, memmem find, find_in, unsafe_find_in_slice), iterating it with `iter()`, asking its length, or
`align_to` with all three parts (prefix, body, suffix) consumed. Any other view of the haystack — `chunks_exact`,
`chunks`, `windows`, `get(range)`, range indexing, `split_at`, `take`/`skip`/`step_by` on its iterator — can leave bytes
unvisited (the tail after the last whole chunk) and is reported: the prefilter would then skip a real match start in
one feature configuration only (the safe arm is compiled into every build but selected by `cfg!(prohibit-unsafe)`).
"""
import re

from . import core
from .report import RuleResult

RULE_TEXT = " ".join(x.strip() for x in __doc__.split("\n")[2:] if x.strip())
WHOLE = {"memchr", "memchr2", "memchr3", "find", "find_in", "unsafe_find_in_slice", "iter", "len", "is_empty", "align_to", "into_iter"}
FULL_ADAPTORS = {"enumerate", "copied", "cloned", "position", "into_iter", "next", "find", "any", "all", "map", "iter", "by_ref",
                 "as_ref", "as_ptr", "deref", "eq", "ne", "rev", "peekable"}
PARTIAL_ADAPTORS = {"chunks", "chunks_exact", "rchunks", "windows", "split_at", "split_first", "split_last", "take", "skip", "step_by",
                    "get", "get_unchecked", "index", "first", "last", "take_while", "skip_while", "nth", "array_chunks", "as_chunks"}


def check(facts):
    r = RuleResult("COVERALL", RULE_TEXT)
    fns = [n for n in facts.body_names() if "bytesearch::" in n and "{closure" not in n
           and (n.endswith("::find_in") or n.endswith("::unsafe_find_in_slice")) and "::tests::" not in n]
    n = 0
    for fn in sorted(fns):
        b = facts.body(fn)
        hay = [l for l in range(1, b.argc + 1) if b.local_ty(l).replace(" ", "") == "&[u8]"]
        if not hay:
            continue
        n += 1
        key = "%s visits the whole haystack" % fn
        bad = []
        uses = 0
        for bb, t in b.iter_calls():
            cal = (t.get("callee") or "")
            last = cal.split("::")[-1]
            for a in t["args"]:
                if a.get("k") not in ("copy", "move"):
                    continue
                rt, pr = b.root_of(a["pl"]["l"])
                if rt != hay[0]:
                    continue
                uses += 1
                if last in PARTIAL_ADAPTORS or (last not in WHOLE and last not in FULL_ADAPTORS):
                    bad.append((t.get("line"), last))
                if last == "align_to":
                    dest = t["dest"]["l"]
                    import json as _j
                    txt = _j.dumps(b.j["blocks"])
                    parts = {m for m in re.findall(r'"l": %d, "p": \[\{"f": "(\d)"' % dest, txt)}
                    if parts != {"0", "1", "2"}:
                        bad.append((t.get("line"), "align_to with only parts %s consumed" % sorted(parts)))
        # partial adaptors applied further down the iterator chain (chunks_exact(..).enumerate(), iter().take(n) ...)
        for bb, t in b.iter_calls():
            last = (t.get("callee") or "").split("::")[-1]
            if last in PARTIAL_ADAPTORS - {"get", "index", "first", "last", "get_unchecked"} and not any(x[0] == t.get("line") for x in bad):
                if "u8" in str(t.get("gargs", "")) or "u8" in (b.local_ty(t["dest"]["l"]) or ""):
                    bad.append((t.get("line"), last))
        if uses == 0:
            bad.append((facts.fns.get(fn, {}).get("lo"), "the haystack parameter is never read"))
            # a constant answer (EmptyString) is fine
            if fn.startswith("<bytesearch::EmptyString"):
                bad = []
        if bad:
            r.fail(key, "the haystack is viewed through %s: bytes outside that view (e.g. the tail after the last whole chunk) are never "
                        "tested, so the searcher can miss the first matching byte" % sorted({"%s (line %s)" % (w, ln) for ln, w in bad}),
                   facts.loc(fn, bad[0][0]))
        else:
            r.ok(key, "%d whole-slice uses" % uses)
            r.sample({"function": fn, "uses": uses})
    r.floor("byte_searchers", n, 8)
    # CHUNKSTRIDE: a scan that views the bytes as words (`align_to::<T>()`) keeps a running byte offset; inside the loop over a slice of
    # T the offset advances by size_of::<T>() per element (1 in the byte loops over prefix / suffix)
    import re as _re
    from .lbseq import natural_loops
    SIZES = {"u8": 1, "i8": 1, "u16": 2, "i16": 2, "u32": 4, "i32": 4, "u64": 8, "i64": 8, "usize": 8, "u128": 16}
    nstr = 0
    for fn in sorted(facts.body_names()):
        if "::tests::" in fn:
            continue
        b = facts.body(fn)
        if not any((t.get("callee") or "").endswith("align_to") for _, t in b.iter_calls()):
            continue
        loops = natural_loops(b)
        elem = {}
        for h, ns in loops.items():
            for bb, t in b.iter_calls():
                if bb in ns and (t.get("callee") or "").endswith("Iterator::next"):
                    m = _re.search(r"slice::Iter<'[^,]*, (\w+)>", str((t.get("func") or {}).get("ty", "")))
                    # the loop's own iterator is the one whose `next` is not inside a smaller loop
                    inner = [h2 for h2, ns2 in loops.items() if h2 != h and ns2 < ns and bb in ns2]
                    if m and not inner:
                        elem[h] = m.group(1)
        for bi, i, st in b.iter_stmts():
            if st["k"] != "assign" or st["pl"]["p"] or st["rv"]["k"] not in ("bin", "checked_bin") or not str(st["rv"].get("op", "")).startswith("Add"):
                continue
            a_, c_ = st["rv"]["a"], st["rv"]["b"]
            if a_.get("k") not in ("copy", "move") or a_["pl"]["l"] != st["pl"]["l"] or b.const_of_operand(c_) is None:
                continue
            inl = [(len(ns), h) for h, ns in loops.items() if bi in ns]
            if not inl:
                continue
            h = min(inl)[1]
            if h not in elem or elem[h] not in SIZES:
                continue
            nstr += 1
            k = SIZES[elem[h]]
            c = b.const_of_operand(c_)
            key = "%s offset stride in the loop over [%s] #%d" % (fn, elem[h], nstr)
            if c == k:
                r.ok(key, "+= %d" % c)
            else:
                r.fail(key, "the running byte offset `%s` advances by %d per %s element (line %s) although an element covers %d bytes: after a "
                            "chunk without a hit the reported index drifts, so the prefilter hands the matcher a position that is too early — "
                            "possibly inside a UTF-8 sequence" % (b.local_name(st["pl"]["l"]) or "_%d" % st["pl"]["l"], c, elem[h], st["line"], k),
                       facts.loc(fn, st["line"]))
        # LANE: inside the word loop a hit found by testing byte k of the word (constant array index k) reports offset + k
        for h, ns in loops.items():
            if elem.get(h) not in SIZES or SIZES[elem[h]] == 1:
                continue
            dom = b.dom()
            succ_ = b.succ()
            exits = {y for x in ns if b.blocks[x]["t"]["k"] == "switch" for y in succ_.get(x, []) if y not in ns}
            for bi in sorted(set(ns) | exits):
                for st in b.blocks[bi]["s"]:
                    if st["k"] != "assign" or st["pl"]["l"] != 0 or st["pl"]["p"] or st["rv"]["k"] != "agg" or str(st["rv"].get("variant")) != "Some":
                        continue
                    v = (st["rv"].get("ops") or [{}])[0]
                    k_ = None
                    if v.get("k") in ("copy", "move"):
                        d = b.single_def(v["pl"]["l"])
                        if d and d[2] == "assign" and d[3]["rv"]["k"] == "use":
                            k_ = 0
                        elif d and d[2] == "assign" and d[3]["rv"]["k"] in ("bin", "checked_bin") and str(d[3]["rv"]["op"]).startswith("Add"):
                            k_ = b.const_of_operand(d[3]["rv"]["b"])
                    if k_ is None:
                        continue
                    # the test that admits this return: nearest dominating switch inside the loop
                    ctl = [x for x in dom[bi] if x in ns and x != bi and b.blocks[x]["t"]["k"] == "switch"]
                    if not ctl:
                        continue
                    c = max(ctl, key=lambda x: len(dom[x]))
                    lanes = set()
                    seen = set()
                    work = [b.blocks[c]["t"]["discr"]]
                    while work:
                        o = work.pop()
                        if o.get("k") not in ("copy", "move"):
                            continue
                        for pr in o["pl"]["p"]:
                            if isinstance(pr, dict) and "idx" in pr:
                                cv = b.const_of_operand({"k": "copy", "pl": {"l": pr["idx"], "p": []}})
                                if cv is not None and b.local_ty(o["pl"]["l"]).replace(" ", "").startswith("[u8;"):
                                    lanes.add(cv)
                                work.append({"k": "copy", "pl": {"l": pr["idx"], "p": []}})
                        l_ = o["pl"]["l"]
                        if l_ in seen:
                            continue
                        seen.add(l_)
                        for d in b.defs().get(l_, []):
                            if d[2] != "assign" or d[0] not in ns:
                                continue
                            rv = d[3]["rv"]
                            work += [rv[x] for x in ("op", "a", "b") if isinstance(rv.get(x), dict)]
                    if not lanes:
                        continue
                    nstr += 1
                    key = "%s hit in byte %s of the word reports offset + %s" % (fn, sorted(lanes), k_)
                    if lanes == {k_}:
                        r.ok(key)
                    else:
                        r.fail(key, "the test of byte %s of the word returns offset + %s (line %s): the prefilter reports a byte that was "
                                    "not the one tested — on non-ASCII text the matcher is started inside a character" % (sorted(lanes), k_, st["line"]),
                               facts.loc(fn, st["line"]))
    if facts.config in ("default", "ip", "utf16", "pattern", "alloc"):
        r.floor("chunked_scan_offset_steps", nstr, 1)   # the word loop; the byte loops over prefix / suffix may be iterator calls
    return r

"""PLUMB — iterator and entry-point plumbing (C09, and the prefilter part of C04).

 1. MUSTWRITE: in every function that produces matches for the iterator (it has a
    `next_start: &mut Option<Position>` out-parameter), every path from a successful match attempt
    (`try_at_pos`) to a `Some(Match)` return stores through the out-parameter; the stored value is
    `Some(end)` when `end != start` and `next_right_pos(end)` otherwise, selected by a comparison of
    exactly those two positions (progress past empty matches).
 2. DOM: Regex::find_from only reaches backends::find through `start >= text.len()` or
    `text.is_char_boundary(start)`; backends::find hands the whole `text` and the unmodified `start`
    to the executor / Matches::new; Matches::next reads `position` and passes it as the out-parameter;
    every initial_position is try_move_right(left_end, offset).
 3. PREFILTER: in next_match_with_prefix_search the start offset reported is the position at which
    try_at_pos (ip 0) just succeeded, find_bytes is only called on the CODE_UNITS_ARE_BYTES edge, and
    a failed attempt advances by next_right_pos before retrying.
"""
import re

from . import core
from .report import RuleResult

RULE_TEXT = " ".join(x.strip() for x in __doc__.split("\n")[2:] if x.strip())


def producers(facts):
    out = []
    for fn in facts.body_names():
        if "{closure" in fn:
            continue
        b = facts.body(fn)
        for l in range(1, b.argc + 1):
            ty = b.local_ty(l)
            if ty.startswith("&mut std::option::Option<") or ty.startswith("&mut core::option::Option<"):
                if "Position" in ty:  # the out-parameter through which a producer reports where the next search starts
                    out.append((fn, l))
    return out


def stores_to(b, ns):
    out = []
    for bi, i, s in b.iter_stmts():
        if s["k"] == "assign" and s["pl"]["l"] == ns and s["pl"]["p"] == ["*"]:
            out.append((bi, i, "assign", s))
    for bb, t in b.iter_calls():
        if t["dest"]["l"] == ns and t["dest"]["p"] == ["*"]:
            out.append((bb, -1, "call", t))
    return out


def reach_avoiding(b, src, dst, avoid):
    succ = b.succ()
    seen = set()
    stack = list(succ.get(src, []))
    while stack:
        x = stack.pop()
        if x in seen or x in avoid:
            continue
        seen.add(x)
        if x == dst:
            return True
        stack.extend(succ.get(x, []))
    return False


def root(b, op):
    """Originating local of an operand; user-named variables are roots of their own (`let end = state.pos`
    and `let start = state.pos` are different values even though both read the same place)."""
    if op.get("k") not in ("copy", "move"):
        return None
    cur = op["pl"]["l"]
    for _ in range(12):
        if b.local_name(cur) or (1 <= cur <= b.argc):
            return cur
        d = b.single_def(cur)
        if not d or d[2] != "assign" or d[3]["pl"]["p"]:
            return cur
        rv = d[3]["rv"]
        if rv["k"] == "use" and rv["op"]["k"] in ("copy", "move"):
            nxt = rv["op"]["pl"]
        elif rv["k"] == "ref":
            nxt = rv["pl"]
        else:
            return cur
        if nxt["p"] and not (nxt["p"] == ["*"]):
            return cur
        cur = nxt["l"]
    return cur


def check(facts):
    r = RuleResult("PLUMB", RULE_TEXT)
    prods = producers(facts)
    n_some = 0
    for fn, ns in prods:
        b = facts.body(fn)
        stores = stores_to(b, ns)
        store_blocks = {s[0] for s in stores}
        # delegating producers: pass next_start on to another producer
        delegates = []
        for bb, t in b.iter_calls():
            for a in t["args"]:
                if a["k"] in ("copy", "move") and b.root_of(a["pl"]["l"])[0] == ns and (t.get("resolved") or t.get("callee")) in [p[0] for p in prods]:
                    delegates.append((bb, t))
        attempts = [bb for bb, t in b.iter_calls() if (t.get("callee") or "").endswith("::try_at_pos")]
        some_rets = [(bi, i, s) for bi, i, s in b.iter_stmts() if s["k"] == "assign" and s["pl"]["l"] == 0 and not s["pl"]["p"]
                     and s["rv"]["k"] == "agg" and s["rv"].get("variant") == "Some"]
        if not some_rets and delegates:
            r.ok("%s delegates" % fn, "forwards next_start to %s" % sorted({(t.get('resolved') or t.get('callee')).split('::')[-1] for _, t in delegates}),
                 nontrivial=False)
            continue
        for bi, i, s in some_rets:
            n_some += 1
            key = "%s Some-return#%d" % (fn, n_some)
            doms = [a for a in attempts if a in b.dom()[bi]]
            if not doms:
                r.fail(key, "a match is returned without a dominating try_at_pos attempt", facts.loc(fn, s["line"]))
                continue
            # nearest dominating attempt = the one dominated by all others
            att = max(doms, key=lambda a: len(b.dom()[a]))
            if reach_avoiding(b, att, bi, store_blocks):
                r.fail(key, "a path from the successful attempt (line %s) to this Some(Match) return does not store through "
                            "`next_start`: the iterator would not advance (repeats the same match / hangs)" % b.blocks[att]["t"].get("line"),
                       facts.loc(fn, s["line"]))
                continue
            # shape of the stores that lie between the attempt and the return
            between = [st for st in stores if att in b.dom()[st[0]] and bi in b.reach_from(st[0])]
            somes, nexts = [], []
            problem = None
            end_roots = set()
            # `*next_start = if empty { next_right_pos(end) } else { Some(end) }`: one store of a value with two definitions is the
            # same as two stores, one per definition (each located where the value is defined)
            expanded = []
            for st in between:
                if st[2] != "call" and st[3]["rv"]["k"] == "use" and st[3]["rv"]["op"]["k"] in ("copy", "move") and not st[3]["rv"]["op"]["pl"]["p"]:
                    dl = b.defs().get(st[3]["rv"]["op"]["pl"]["l"], [])
                    if len(dl) > 1 and all(att in b.dom()[d_[0]] for d_ in dl):
                        for d_ in dl:
                            expanded.append((d_[0], d_[1], d_[2], d_[3]))
                        continue
                expanded.append(st)
            between = expanded
            for st in between:
                kind = None
                if st[2] == "call":
                    src = st[3]
                    kind = "callsrc"
                else:
                    v = st[3]["rv"]
                    src = None
                    if v["k"] == "agg" and v.get("variant") == "Some":
                        kind, src = "some", v
                    elif v["k"] == "use" and v["op"]["k"] in ("copy", "move"):
                        d = b.single_def(v["op"]["pl"]["l"])
                        if d and d[2] == "assign" and d[3]["rv"]["k"] == "agg" and d[3]["rv"].get("variant") == "Some":
                            kind, src = "some", d[3]["rv"]
                        elif d and d[2] == "call":
                            kind, src = "callsrc", d[3]
                if kind == "some":
                    somes.append(st)
                    end_roots.add(root(b, src["ops"][0]))
                elif kind == "callsrc" and (src.get("callee") or "").endswith("InputIndexer::next_right_pos"):
                    nexts.append(st)
                    end_roots.add(root(b, src["args"][1]))
                else:
                    problem = "next_start is assigned something other than Some(end) / next_right_pos(end) (line %s)" % st[3].get("line")
                    break
            if problem is None and (not somes or not nexts):
                problem = "both cases are required: Some(end) after a non-empty match and next_right_pos(end) after an empty one " \
                          "(found %d/%d)" % (len(somes), len(nexts))
            if problem is None and len(end_roots) != 1:
                problem = "the two stores use different positions"
            if problem is None:
                end = list(end_roots)[0]
                # governing comparison
                sel = None
                for st in somes:
                    for d in b.dom()[st[0]]:
                        t = b.blocks[d]["t"]
                        if t["k"] == "switch" and t["discr"]["k"] in ("copy", "move") and att in b.dom()[d]:
                            df = b.single_def(t["discr"]["pl"]["l"])
                            for _ in range(4):   # through `let matched_empty = end == pos;`
                                if df and df[2] == "assign" and df[3]["rv"]["k"] == "use" and df[3]["rv"]["op"].get("k") in ("copy", "move") \
                                        and not df[3]["rv"]["op"]["pl"]["p"]:
                                    df = b.single_def(df[3]["rv"]["op"]["pl"]["l"])
                                else:
                                    break
                            if df and df[2] == "call" and (df[3].get("callee") or "").endswith(("PartialEq::ne", "PartialEq::eq")):
                                sel = (d, df[3], t)
                if sel is None:
                    problem = "no comparison of end with the start position selects between the two stores"
                else:
                    d, cmpc, sw = sel
                    roots = {root(b, a) for a in cmpc["args"]}
                    if end not in roots or len(roots) != 2:
                        problem = "the selecting comparison does not compare `end` with another position"
                    else:
                        start = (roots - {end}).pop()
                        is_ne = cmpc["callee"].endswith("ne")
                        true_tgt = sw["otherwise"]
                        some_on_true = all(true_tgt in b.dom()[st[0]] or st[0] == true_tgt for st in somes)
                        if is_ne != some_on_true:
                            problem = "polarity: Some(end) must be stored when end != start and next_right_pos(end) when they are equal"
                        # start must be what the match reports as its start
                        sm = [t for bb, t in b.iter_calls() if (t.get("callee") or "").endswith("successful_match") and bi in b.reach_from(bb)]
                        if not problem and sm:
                            if start not in {root(b, a) for a in sm[0]["args"]}:
                                problem = "the position compared with `end` is not the start reported by successful_match"
            if problem:
                r.fail(key, problem, facts.loc(fn, s["line"]))
            else:
                r.ok(key, "stores Some(end) if end != start else next_right_pos(end) on every path")
                r.sample({"key": key, "line": s["line"], "attempt_line": b.blocks[att]["t"].get("line")})
    r.floor("some_returns", n_some, 3)

    # ---- DOM --------------------------------------------------------------------------------
    fn = "api::Regex::find_from"
    if not facts.has_body(fn):
        r.error("anchor %s not found" % fn)
    else:
        b = facts.body(fn)
        finds = [bb for bb, t in b.iter_calls() if (t.get("callee") or "") == "api::backends::find"]
        icb = [(bb, t) for bb, t in b.iter_calls() if (t.get("callee") or "").endswith("str::<impl str>::is_char_boundary")]
        key = "%s boundary assert" % fn
        if not finds:
            r.error("find_from no longer calls backends::find")
        elif not icb:
            r.fail(key, "find_from no longer checks text.is_char_boundary(start)", facts.loc(fn))
        else:
            ok_args = root(b, icb[0][1]["args"][0]) == 2 and root(b, icb[0][1]["args"][1]) == 3
            # true edge of the is_char_boundary switch and of the `start >= len` switch
            allow = set()
            nb = icb[0][1]["t"]
            t2 = b.blocks[nb]["t"]
            if t2["k"] == "switch":
                allow.add(t2["otherwise"])
            for bb in b.reachable():
                t = b.blocks[bb]["t"]
                if t["k"] == "switch" and t["discr"]["k"] in ("copy", "move"):
                    df = b.single_def(t["discr"]["pl"]["l"])
                    if df and df[2] == "assign" and df[3]["rv"]["k"] == "bin" and df[3]["rv"]["op"] in ("Ge", "Gt"):
                        if root(b, df[3]["rv"]["a"]) == 3:
                            allow.add(t["otherwise"])
            # the find call must be unreachable once those edges are cut
            succ = b.succ()
            seen = set()
            stack = [0]
            reached = False
            while stack:
                x = stack.pop()
                if x in seen:
                    continue
                seen.add(x)
                if x in finds:
                    reached = True
                for y in succ.get(x, []):
                    if y in allow and b.blocks[x]["t"]["k"] == "switch":
                        continue
                    stack.append(y)
            hoisted = False
            if ok_args and reached:
                # `let ok = start >= text.len() || text.is_char_boundary(start); assert!(ok)`: one test on a value that depends on both
                from .flagsrc import sources as _sources
                dom = b.dom()
                for fb in finds:
                    for sb in dom[fb]:
                        ts = b.blocks[sb]["t"]
                        if ts["k"] != "switch" or ts["discr"].get("k") not in ("copy", "move"):
                            continue
                        if not (ts["otherwise"] == fb or ts["otherwise"] in dom[fb]):
                            continue
                        src = _sources(facts, fn, b, ts["discr"])
                        if "other:call is_char_boundary" in src and any(x in src for x in ("other:Ge", "other:Gt", "other:Le", "other:Lt")):
                            hoisted = True
            if ok_args and (not reached or hoisted):
                r.ok(key, "backends::find only reachable through start >= len or is_char_boundary(start)")
            else:
                r.fail(key, "backends::find is reachable without the char-boundary check on `start`: an offset inside a UTF-8 sequence "
                            "would be handed to the unchecked matcher", facts.loc(fn))
    # ---- ENTRY: every entry point hands text / start / the regex's unicode flag on unchanged --------------
    def param_root(b, op):
        """(param local, field path) an operand is a plain copy/reborrow of, else (None, None)."""
        if op.get("k") not in ("copy", "move"):
            return None, None
        rt, pr = b.root_of(op["pl"]["l"])
        pr = list(op["pl"]["p"]) and pr + [x for x in op["pl"]["p"]] or pr
        if not (1 <= rt <= b.argc):
            return None, None
        return rt, [x["f"] for x in pr if isinstance(x, dict) and "f" in x]
    entries = [n for n in facts.body_names() if n.startswith("api::Regex::find_from") or
               (n.startswith("api::backends::find") and n != "api::backends::find" and "{closure" not in n)]
    n_entry = 0
    for fn in sorted(entries):
        b = facts.body(fn)
        pname = {b.local_name(l): l for l in range(1, b.argc + 1)}
        for bb, t in b.iter_calls():
            cal = t.get("callee") or ""
            want = None
            if cal == "api::backends::find" or (cal.startswith("api::backends::find") and fn.startswith("api::backends::")):
                want = [(1, "text"), (2, "start")]
            elif cal.startswith("exec::Matches::<") and cal.endswith("::new"):
                want = [(1, "start")]
            if not want:
                continue
            for ai, pn in want:
                n_entry += 1
                if pn == "start" and fn.endswith("::find_from_utf16"):
                    # UTF-16 has two-unit characters and no boundary assert: the start must be normalised so that it does not split a
                    # surrogate pair (stepping left from a later position decodes the whole pair and passes a start between its halves)
                    key = "%s establishes a character boundary for `start`" % fn
                    a = t["args"][ai]
                    okb = False
                    if a.get("k") in ("copy", "move"):
                        d0 = b.single_def(b.root_of(a["pl"]["l"])[0])
                        if d0 and d0[2] == "call" and facts.has_body(d0[3].get("callee") or ""):
                            cb = facts.body(d0[3]["callee"])
                            preds = {(tt.get("callee") or "").split("::")[-1] for _, tt in cb.iter_calls()}
                            passes_start = any(x.get("k") in ("copy", "move") and b.root_of(x["pl"]["l"])[0] == pname.get("start")
                                               for x in d0[3]["args"])
                            okb = {"is_low_surrogate", "is_high_surrogate"} <= preds and passes_start
                    if okb:
                        r.ok(key, "start goes through %s" % d0[3]["callee"].split("::")[-1])
                    else:
                        r.fail(key, "find_from_utf16 hands `start` to the executor without checking that it does not split a surrogate pair: "
                                    "from a start between the two halves, forward steps see a lone low surrogate but backward steps decode the "
                                    "pair and pass the start, so loop backtracking runs off the left of its range (out-of-bounds reads in the "
                                    "unchecked build)", facts.loc(fn, t.get("line")))
                    continue
                rt, fields = param_root(b, t["args"][ai])
                key = "%s passes `%s` to %s unchanged" % (fn, pn, cal.split("::")[-2].split("<")[0] + "::" + cal.split("::")[-1] if "Matches" in cal else cal)
                if rt is not None and rt == pname.get(pn) and not fields:
                    r.ok(key)
                else:
                    r.fail(key, "%s does not hand its `%s` argument on unchanged (clamped, sliced or recomputed): a start beyond the end must "
                                "yield no match, and text before `start` must stay visible to ^, \\b and lookbehind — sibling entry points "
                                "would disagree" % (fn, pn), facts.loc(fn, t.get("line")))
    r.floor("entry_arguments", n_entry, 3)
    n_flag = 0
    for fn in sorted(facts.body_names()):
        b = facts.body(fn)
        for bb, t in b.iter_calls():
            cal = t.get("callee") or ""
            if not (cal.startswith("indexing::") and "Input" in cal and cal.endswith("::new")) or len(t["args"]) < 2:
                continue
            n_flag += 1
            key = "%s builds %s with the regex's unicode flag" % (fn, cal.split("::")[1].split("<")[0])
            a = t["args"][1]
            fields = []
            if a.get("k") in ("copy", "move"):
                rt, pr = b.root_of(a["pl"]["l"])
                fields = [x["f"] for x in pr if isinstance(x, dict) and "f" in x]
            if fields[-2:] == ["flags", "unicode"] or (fields == ["unicode"] and fn.endswith("::subinput") and "indexing::" in fn):
                r.ok(key)  # subinput copies the parent indexer's own flag
            else:
                r.fail(key, "the input indexer is not built with `<regex>.flags.unicode` (got %s): its fold_equals then compares icase "
                            "backreferences with the wrong case mapping for this regex, and only through this entry point" % (
                                "a constant" if a.get("k") == "const" else (fields or "a computed value")), facts.loc(fn, t.get("line")))
    r.floor("indexer_constructions", n_flag, 4)

    fn = "api::backends::find"
    if facts.has_body(fn):
        b = facts.body(fn)
        newc = [t for bb, t in b.iter_calls() if (t.get("callee") or "").endswith("Executor::new")]
        mnew = [t for bb, t in b.iter_calls() if (t.get("callee") or "").endswith("Matches::<Producer>::new")]
        key = "%s passes text and start unchanged" % fn
        good = bool(newc and mnew)
        if good:
            a = newc[0]["args"][1]
            good = a["k"] in ("copy", "move") and b.root_of(a["pl"]["l"]) == (2, []) or (a["k"] in ("copy", "move") and a["pl"]["l"] == 2 and not a["pl"]["p"])
            a2 = mnew[0]["args"][1]
            good = good and a2["k"] in ("copy", "move") and b.root_of(a2["pl"]["l"])[0] == 3
            # no slicing of text anywhere
            good = good and not any("Index" in (t.get("callee") or "") or "get" == (t.get("callee") or "").split("::")[-1] for bb, t in b.iter_calls())
        if good:
            r.ok(key)
        else:
            r.fail(key, "backends::find does not hand the whole text / the unmodified start to the executor: text before `start` must "
                        "stay visible to ^, \\b and lookbehind", facts.loc(fn))
    else:
        r.error("anchor %s not found" % fn)
    # Matches::next
    mn = [n for n in facts.body_names() if n.startswith("<exec::Matches<Producer> as") and n.endswith("Iterator>::next")]
    if not mn:
        r.error("anchor Matches::next not found")
    else:
        b = facts.body(mn[0])
        nm = [t for bb, t in b.iter_calls() if (t.get("callee") or "").endswith("MatchProducer::next_match")]
        key = "%s reads position and passes it as the out-parameter" % mn[0]
        ok = False
        if nm:
            a2 = nm[0]["args"][2]
            if a2["k"] in ("copy", "move"):
                rt, pr = b.root_of(a2["pl"]["l"])
                ok = any(isinstance(x, dict) and x.get("f") == "position" for x in pr)
        if ok:
            r.ok(key)
        else:
            r.fail(key, "Matches::next does not pass &mut self.position to next_match", facts.loc(mn[0]))
    for n in facts.body_names():
        if n.endswith("MatchProducer>::initial_position"):
            b = facts.body(n)
            calls = [(t.get("callee") or "").split("::")[-1] for bb, t in b.iter_calls()]
            key = "%s = try_move_right(left_end, offset)" % n
            tm = [t for bb, t in b.iter_calls() if (t.get("callee") or "").endswith("try_move_right")]
            ok = bool(tm) and "left_end" in calls and root(b, tm[0]["args"][2]) == 2
            if ok:
                r.ok(key)
            else:
                r.fail(key, "initial_position is not try_move_right(left_end(), offset): a start beyond the end must yield None", facts.loc(n))

    # ---- PREFILTER --------------------------------------------------------------------------
    pf = [n for n in facts.body_names() if n.endswith("::next_match_with_prefix_search")]
    if not pf:
        r.error("anchor next_match_with_prefix_search not found")
    for fn in pf:
        b = facts.body(fn)
        key = "%s attempt/verify/advance" % fn
        probs = []
        att = [(bb, t) for bb, t in b.iter_calls() if (t.get("callee") or "").endswith("::try_at_pos")]
        sm = [(bb, t) for bb, t in b.iter_calls() if (t.get("callee") or "").endswith("successful_match")]
        fb = [(bb, t) for bb, t in b.iter_calls() if (t.get("callee") or "").endswith("InputIndexer::find_bytes")]
        if len(att) != 1 or len(sm) != 1:
            probs.append("expected exactly one try_at_pos and one successful_match")
        else:
            at = att[0][1]
            if not (at["args"][2]["k"] == "const" and at["args"][2].get("int") == 0):
                probs.append("try_at_pos is not started at ip 0")
            if root(b, at["args"][3]) != root(b, sm[0][1]["args"][1]):
                probs.append("the start reported by successful_match is not the position try_at_pos was attempted at")
            if att[0][0] not in b.dom()[sm[0][0]]:
                probs.append("successful_match is not dominated by the attempt")
        for bb, t in fb:
            # dominated by the true edge of a switch on CODE_UNITS_ARE_BYTES
            guarded = False
            for d in b.dom()[bb]:
                tt = b.blocks[d]["t"]
                if tt["k"] == "switch":
                    item = tt["discr"].get("item")
                    if tt["discr"]["k"] in ("copy", "move"):
                        df = b.single_def(tt["discr"]["pl"]["l"])
                        if df and df[2] == "assign" and df[3]["rv"]["k"] == "use":
                            item = df[3]["rv"]["op"].get("item")
                    if item and item.endswith("CODE_UNITS_ARE_BYTES") and tt["otherwise"] in b.dom()[bb]:
                        guarded = True
            if not guarded:
                probs.append("find_bytes is called outside the CODE_UNITS_ARE_BYTES edge")
        # the retry: on the failure edge of the attempt, pos is advanced by next_right_pos(pos)
        if att:
            adv = [t for bb, t in b.iter_calls() if (t.get("callee") or "").endswith("InputIndexer::next_right_pos")
                   and root(b, t["args"][1]) == root(b, att[0][1]["args"][3])]
            if not adv:
                probs.append("a failed attempt does not advance the start by next_right_pos(pos)")
            # every value the attempt position takes comes from the initial position, the prefilter or next_right_pos: a step by code
            # units (try_move_right(pos, 1)) lands between the halves of a surrogate pair / inside a UTF-8 sequence
            from . import backref as _br
            pl_ = root(b, att[0][1]["args"][3])
            if pl_ is not None:
                srcs = set()
                seen_ = set()

                def walk_(l_, depth_=0):
                    if (l_, "v") in seen_ or depth_ > 12:
                        return
                    seen_.add((l_, "v"))
                    for _bi, _si, _kind, _pay in b.defs().get(l_, []):
                        if _kind == "call":
                            cal_ = _pay.get("callee") or "?"
                            if cal_.split("::")[-1] in ("branch", "from_residual", "from_output"):
                                for a_ in _pay["args"]:
                                    if a_.get("k") in ("copy", "move"):
                                        walk_(a_["pl"]["l"], depth_ + 1)
                            else:
                                srcs.add(("call", cal_))
                        else:
                            _rv = _pay["rv"]
                            for _k in ("op", "a", "b"):
                                _o = _rv.get(_k)
                                if isinstance(_o, dict) and _o.get("k") in ("copy", "move") and _o["pl"]["l"] != pl_:
                                    walk_(_o["pl"]["l"], depth_ + 1)
                            if _rv["k"] in ("ref", "discr") and _rv["pl"]["l"] != pl_:
                                walk_(_rv["pl"]["l"], depth_ + 1)
                walk_(pl_)
                odd = sorted({s_[1].split("::")[-1] for s_ in srcs if s_[0] in ("call", "outcome") and len(s_) > 1
                              and s_[1].split("::")[-1] not in ("next_right_pos", "find_bytes", "branch", "from_residual", "add", "offset_to_pos",
                                                                "pos_to_offset", "left_end")})
                if odd:
                    probs.append("the attempt position is also advanced through %s (not by whole characters)" % odd)
        if probs:
            r.fail(key, "; ".join(probs), facts.loc(fn))
        else:
            r.ok(key, "a prefilter hit is only a candidate: the reported start is where try_at_pos(ip 0) succeeded; retry advances by one char")
    # the PikeVM's unanchored loop: after a failed attempt the next start is next_right_pos of the position just attempted — not of a
    # position computed by looking ahead (a "this run was already covered" skip forgets that a backreference makes the rest of the
    # match depend on where the attempt started)
    from . import backref as _br2
    for fn2 in sorted(n_ for n_ in facts.body_names() if n_.startswith("<pikevm::PikeVMExecutor") and n_.endswith("MatchProducer>::next_match")):
        b2 = facts.body(fn2)
        k2 = 0
        for bb, t in b2.iter_calls():
            if not (t.get("callee") or "").endswith("InputIndexer::next_right_pos") or len(t["args"]) < 2:
                continue
            k2 += 1
            key2 = "%s retry #%d steps from the attempted position" % (fn2, k2)
            a_ = t["args"][1]
            odd2 = set()
            if a_.get("k") in ("copy", "move"):
                for s_ in _br2.value_sources(b2, b2.root_of(a_["pl"]["l"])[0]):
                    if s_[0] in ("call", "outcome") and len(s_) > 1 and s_[1].split("::")[-1] not in (
                            "next_right_pos", "branch", "from_residual", "from_output", "offset_to_pos", "left_end", "clone"):
                        # a constructor split off this function (new, called only from here) that wraps the position is looked through
                        if facts.has_body(s_[1]) and s_[1] not in core.fn_names_table() and facts.owner_of(s_[1]) == re.sub(r"(::\{closure#\d+\})+$", "", fn2) \
                                and not any((t3.get("callee") or "").startswith(("indexing::", "pikevm::", "cursor::", "matchers::", "scm::"))
                                            for _, t3 in facts.body(s_[1]).iter_calls()):
                            continue      # builds a value from its arguments; it does not walk the input
                        odd2.add(s_[1].split("::")[-1])
            if odd2:
                r.fail(key2, "after a failed attempt the PikeVM resumes from next_right_pos of a position that comes from %s (line %s), not of "
                             "the position it just tried: start offsets are skipped, and with a backreference an attempt from a skipped "
                             "offset can succeed (`(x*)y\\1` on \"xxyx\")" % (sorted(odd2), t.get("line")), facts.loc(fn2, t.get("line")))
            else:
                r.ok(key2)
    return r

"""Verdicts, known findings, evidence files."""
import json
import re
import os
import time

from . import core

KNOWN_FILE = os.path.join(core.VERIF, "KNOWN_FINDINGS.txt")
EVIDENCE_DIR = os.environ.get("VERIF_EVIDENCE_DIR") or os.path.join(core.VERIF, "evidence")


class Finding:
    """One rule instance that failed. `key` is stable (rule + def-path + construct), no line numbers."""

    def __init__(self, rule, key, message, where=None, detail=None):
        self.rule = rule
        self.key = "%s %s" % (rule, key)
        self.message = message
        self.where = where
        self.detail = detail or {}

    def to_json(self):
        return {"rule": self.rule, "key": self.key, "message": self.message, "where": self.where, "detail": self.detail}


class RuleResult:
    """What one rule decided on one run."""

    def __init__(self, rule, text):
        self.rule = rule
        self.text = text  # the rule applied, in words
        self.instances = []  # (key, verdict 'ok'|'fail'|'info', note)
        self.findings = []
        self.errors = []  # fail-closed problems (missing anchors, floors)
        self.stats = {}
        self.samples = []

    def ok(self, key, note=None, nontrivial=True):
        self.instances.append({"key": "%s %s" % (self.rule, key), "verdict": "ok", "note": note, "nontrivial": nontrivial})

    def fail(self, key, message, where=None, detail=None):
        self.instances.append({"key": "%s %s" % (self.rule, key), "verdict": "fail", "note": message, "nontrivial": True})
        self.findings.append(Finding(self.rule, key, message, where, detail))

    def error(self, message):
        """Fail closed: an anchor is missing or a floor is not met."""
        self.errors.append(message)

    def floor(self, what, actual, minimum):
        self.stats[what] = actual
        self.stats[what + "_floor"] = minimum
        if actual < minimum:
            self.error("%s: %s analysed = %d, below the floor %d counted when the rule was armed "
                       "(an anchor moved or the rule no longer matches anything)" % (self.rule, what, actual, minimum))

    def sample(self, obj):
        if len(self.samples) < 6:
            self.samples.append(obj)


def load_known():
    known = {}
    fixed = []
    if os.path.exists(KNOWN_FILE):
        for line in open(KNOWN_FILE):
            line = line.strip()
            if not line or line.startswith("#"):
                continue
            if line.startswith("known:"):
                body = line[len("known:"):].strip()
                head, _, what = body.partition(" :: ")
                parts = head.split()
                prop = None
                key = []
                for p in parts:
                    if p.startswith("property="):
                        prop = p[len("property="):]
                    else:
                        key.append(p)
                k = " ".join(key)
                if k.startswith("key="):
                    k = k[4:]
                known.setdefault(prop, {})[k.strip()] = what.strip()
            elif line.startswith("fixed:"):
                fixed.append(line)
    return known, fixed


def finish(prop, tier, results, t0, level="other", extra=None, configs=None):
    """Print verdict lines, write evidence, return the exit code."""
    known, fixed = load_known()
    known_p = known.get(prop, {})
    os.makedirs(EVIDENCE_DIR, exist_ok=True)
    vdir = os.path.join(EVIDENCE_DIR, "violations")
    os.makedirs(vdir, exist_ok=True)
    # Clear stale replay files for this property.
    for f in os.listdir(vdir):
        if f.startswith(prop + "-"):
            os.remove(os.path.join(vdir, f))

    violations = []
    known_hits = []
    errors = []
    instances = []
    for r in results:
        instances.extend(r.instances)
        for e in r.errors:
            errors.append((r.rule, e))
        for f in r.findings:
            # a per-configuration run prefixes the construct with "[config] "; the finding is the same source construct
            bare = re.sub(r"^(\S+ )\[[\w+\-]+\] ", r"\1", f.key)
            if f.key in known_p:
                known_hits.append((f, known_p[f.key]))
            elif bare in known_p:
                known_hits.append((f, known_p[bare]))
            else:
                violations.append((r, f))

    n = 0
    printed = set()
    for f, what in known_hits:
        bare = re.sub(r"^(\S+ )\[[\w+\-]+\] ", r"\1", f.key)
        if bare in printed:
            continue
        printed.add(bare)
        print("KNOWN-FINDING: property=%s %s :: %s" % (prop, bare, what))
    for r, f in violations:
        n += 1
        path = os.path.join(vdir, "%s-%d.json" % (prop, n))
        with open(path, "w") as fh:
            json.dump({"property": prop, "rule": r.rule, "rule_text": r.text, "finding": f.to_json()}, fh, indent=1)
        print("VIOLATION property=%s replay=%s" % (prop, path))
        print("  rule %s: %s" % (r.rule, f.message))
        print("  key: %s" % f.key)
        if f.where:
            print("  at: %s" % f.where)
    for rule, e in errors:
        n += 1
        path = os.path.join(vdir, "%s-%d.json" % (prop, n))
        with open(path, "w") as fh:
            json.dump({"property": prop, "rule": rule, "fail_closed": e}, fh, indent=1)
        print("VIOLATION property=%s replay=%s" % (prop, path))
        print("  rule %s cannot decide (fail closed): %s" % (rule, e))

    evaluations = len(instances)
    distinct = len({i["key"] for i in instances if i.get("nontrivial")})
    samples = []
    for r in results:
        for s in r.samples:
            samples.append({"rule": r.rule, **(s if isinstance(s, dict) else {"sample": s})})
    if not samples:
        samples = instances[:5]
    obligations = evaluations
    discharged = sum(1 for i in instances if i["verdict"] == "ok")
    coverage = {
        "explanation": " | ".join("%s: %s" % (r.rule, r.text) for r in results),
        "evaluations": evaluations,
        "distinct_nontrivial": distinct,
        "rule": "one evaluation = one rule instance (a state write, match arm, call site, path, table identity "
                "or type obligation) decided from the MIR/HIR/type facts of /repo's current tree; "
                "distinct_nontrivial counts distinct instance keys whose decision required the rule's analysis "
                "(not pre-filtered as irrelevant)",
        "samples": samples[:12],
        "rules": {r.rule: {"text": r.text, "instances": len(r.instances),
                           "failed": len(r.findings), "stats": r.stats, "errors": r.errors} for r in results},
        "configs": configs or [],
        "known_findings_reported": [f.key for f, _ in known_hits],
        "exhaustive": True,
    }
    if level == "proof":
        coverage.update({
            "obligations": obligations,
            "discharged": discharged,
            "checker_cmd": "bin/check %s --tier %s" % (prop, tier),
            "trusted_base": ["rustc type checker / trait solver / MIR construction (nightly)",
                             "regress-facts driver (driver/src)", "rule engine (rules/)"],
        })
    if extra:
        coverage.update(extra)
    ev = {
        "property_id": prop,
        "tier": tier,
        "seed": int(os.environ.get("VERIF_SEED", "0") or 0),
        "level": level,
        "coverage": coverage,
        "assumptions": [
            "rustc (nightly) type checking, trait resolution and MIR construction are correct",
            "the fact extractor serialises MIR/HIR faithfully (driver/src, zero dependencies)",
            "reviewed tables under /verif/tables state the semantics the rules compare against",
            "only the structural clause named in DESIGN.md is decided; the behavioural remainder is not",
        ],
        "wall_s": round(time.time() - t0, 3),
        "violations": len(violations) + len(errors),
    }
    with open(os.path.join(EVIDENCE_DIR, "%s.json" % prop), "w") as fh:
        json.dump(ev, fh, indent=1)
    print("checked property=%s tier=%s rules=%s instances=%d failed=%d known=%d errors=%d wall=%.1fs" % (
        prop, tier, ",".join(r.rule for r in results), evaluations, len(violations), len(known_hits), len(errors),
        time.time() - t0))
    return 1 if (violations or errors) else 0

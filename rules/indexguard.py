"""INDEXGUARD — direct indexing in the input indexers is guarded exactly (C06, C09, C14).

In indexing.rs a direct `slice[i]` (an implicit bounds check, i.e. a panic site on the match path) must be preceded by an
explicit test that makes it safe *and* is not stricter than needed: for an index `x` (a parameter or local) the assert is
dominated by the true edge of `x < slice.len()` — the plain `x`, not `x + 1`, compared strictly; for an index `x - c` it is
additionally dominated by the true edge of `x > 0` / `x >= c`. `x <= len` lets `x == len` through (index out of bounds for a
start at the end of the haystack); `x + 1 < len` is safe but skips the last position (a surrogate pair at the end of the
text is no longer recognised), so the boundary helper disagrees with the decoders there.
"""
from . import core
from .report import RuleResult

RULE_TEXT = " ".join(x.strip() for x in __doc__.split("\n")[2:] if x.strip())


def check(facts):
    r = RuleResult("INDEXGUARD", RULE_TEXT)
    n = 0
    for fn in sorted(facts.body_names()):
        if not (fn.startswith("indexing::") or fn.startswith("<indexing::")) or "{closure" in fn:
            continue
        if fn.split("::")[-1] == "getb":
            # the designated byte accessor: in the checked builds its index *is* the bounds check that turns a violated position
            # invariant into a panic (the invariant itself is the declared out-of-reach part of C06)
            continue
        b = facts.body(fn)
        dom = b.dom()
        k = 0
        for bi in sorted(b.reachable()):
            t = b.blocks[bi]["t"]
            if t["k"] != "assert" or t.get("msg") != "bounds":
                continue
            d = b.single_def(t["cond"]["pl"]["l"]) if t["cond"].get("k") in ("copy", "move") else None
            if not d or d[2] != "assign" or d[3]["rv"]["k"] != "bin" or d[3]["rv"]["op"] != "Lt":
                continue
            n += 1
            k += 1
            idx = d[3]["rv"]["a"]
            key = "%s direct index #%d" % (fn, k)
            # index = base or base - c
            base, off = None, 0
            if idx.get("k") in ("copy", "move"):
                l = idx["pl"]["l"]
                dd = b.single_def(l)
                if dd and dd[2] == "assign" and dd[3]["rv"]["k"] in ("bin", "checked_bin") and str(dd[3]["rv"]["op"]).startswith("Sub") \
                        and b.const_of_operand(dd[3]["rv"]["b"]) is not None:
                    base, off = b.root_of(dd[3]["rv"]["a"]["pl"]["l"])[0], b.const_of_operand(dd[3]["rv"]["b"])
                elif dd and dd[2] == "assign" and dd[3]["rv"]["k"] == "use" and dd[3]["rv"]["op"].get("k") in ("copy", "move"):
                    base = b.root_of(dd[3]["rv"]["op"]["pl"]["l"])[0]
                else:
                    base = b.root_of(l)[0]
            if base is None:
                r.fail(key, "cannot tell what the index at line %s is" % t.get("line"), facts.loc(fn, t.get("line")))
                continue
            upper = lower = None
            odd = []
            for s_ in dom[bi]:
                ts = b.blocks[s_]["t"]
                if ts["k"] != "switch" or ts["discr"].get("k") not in ("copy", "move"):
                    continue
                dc = b.single_def(ts["discr"]["pl"]["l"])
                if not dc or dc[2] != "assign" or dc[3]["rv"]["k"] != "bin" or dc[3]["rv"]["op"] not in ("Lt", "Le", "Gt", "Ge", "Eq", "Ne"):
                    continue
                on_true = ts["otherwise"] == bi or ts["otherwise"] in dom[bi]
                f0 = [tg for v, tg in ts["targets"] if v == 0]
                on_false = bool(f0) and (f0[0] == bi or f0[0] in dom[bi])
                if on_true == on_false:
                    continue
                op, a_, b_ = dc[3]["rv"]["op"], dc[3]["rv"]["a"], dc[3]["rv"]["b"]
                if on_false:
                    # the index sits on the edge where the test is false: `!(x >= len)` is `x < len`, `!(x == 0)` is `x != 0`
                    op = {"Lt": "Ge", "Le": "Gt", "Gt": "Le", "Ge": "Lt", "Eq": "Ne", "Ne": "Eq"}[op]

                def plain(o):
                    return o.get("k") in ("copy", "move") and b.root_of(o["pl"]["l"])[0] == base and not b.root_of(o["pl"]["l"])[1] and \
                        not (b.single_def(o["pl"]["l"]) and b.single_def(o["pl"]["l"])[2] == "assign" and b.single_def(o["pl"]["l"])[3]["rv"]["k"] in ("bin", "checked_bin"))

                def is_len(o):
                    if o.get("k") not in ("copy", "move"):
                        return False
                    dl = b.single_def(o["pl"]["l"])
                    return bool(dl) and ((dl[2] == "call" and (dl[3].get("callee") or "").split("::")[-1] == "len") or
                                         (dl[2] == "assign" and dl[3]["rv"]["k"] in ("ptr_metadata", "len", "un")))

                def derived(o):
                    """base + c / base - c"""
                    if o.get("k") not in ("copy", "move"):
                        return False
                    dl = b.single_def(o["pl"]["l"])
                    return bool(dl) and dl[2] == "assign" and dl[3]["rv"]["k"] in ("bin", "checked_bin") and dl[3]["rv"]["a"].get("k") in ("copy", "move") \
                        and b.root_of(dl[3]["rv"]["a"]["pl"]["l"])[0] == base
                if is_len(b_) or is_len(a_):
                    other = a_ if is_len(b_) else b_
                    strict_lt = (op == "Lt" and is_len(b_)) or (op == "Gt" and is_len(a_))
                    if plain(other) and strict_lt:
                        upper = ts.get("line")
                    else:
                        odd.append("line %s compares %s with the length (%s)" % (ts.get("line"), "an offset of the index" if derived(other) else "the index", op))
                cz = b.const_of_operand(b_) if plain(a_) else (b.const_of_operand(a_) if plain(b_) else None)
                if cz is not None:
                    if (plain(a_) and ((op == "Gt" and cz >= off - 1) or (op == "Ge" and cz >= off))) or \
                            (plain(b_) and ((op == "Lt" and cz >= off - 1) or (op == "Le" and cz >= off))) or \
                            (op == "Ne" and cz == 0 and off <= 1):
                        lower = ts.get("line")
            if upper is None:
                r.fail(key, "the direct index at line %s is not dominated by a strict test `index < len` on the plain index%s: an index equal "
                            "to the length panics, a stricter test skips the last position" % (t.get("line"), (" (" + "; ".join(odd) + ")") if odd else ""),
                       facts.loc(fn, t.get("line")))
            elif off > 0 and lower is None:
                r.fail(key, "the index at line %s is `x - %d` but no test `x > 0` / `x >= %d` dominates it" % (t.get("line"), off, off), facts.loc(fn, t.get("line")))
            else:
                r.ok(key, "guarded by line %s%s" % (upper, (" and line %s" % lower) if off else ""))
                r.sample({"function": fn, "index_line": t.get("line"), "upper_guard_line": upper, "lower_guard_line": lower})
    if n == 0:
        r.ok("no direct slice indexing in the indexers of this configuration", nontrivial=False)
    return r

"""PROPNEG — the polarity of a property escape reaches the set that is built from it (C11, C12).

`\\p{..}` and `\\P{..}` are parsed at several sites that all call try_consume_unicode_property_escape. For every such
call site S the letter that was consumed just before decides the polarity:
 * the site is dominated by `consume('P')` (a constant): the code-point set built in the region S dominates must pass
   through CodePointSet::inverted;
 * the site is dominated by `consume('p')`: no `inverted` in that region;
 * the letter is a variable (one arm handles both): a flag `negate = (letter == 'P')` must be computed before S, and
   every aggregate built in S's region that has an `invert`/`negate` field takes that flag as the field's operand —
   or the constant false only when an `inverted()` call guarded by the flag reaches the aggregate (the icase branch
   complements first and stores `invert: false`). At least one such use must exist.
At every site that can see `P`, the StringSet outcome (a property of strings has no complement) ends in the parser's error on
every path taken under the `P` polarity. A site that drops the polarity makes `\\P{X}` denote X (in a v-mode class only, where no existing test uses `\\P`).
"""
from . import core
from .report import RuleResult

RULE_TEXT = " ".join(x.strip() for x in __doc__.split("\n")[2:] if x.strip())
ANCHOR = "try_consume_unicode_property_escape"


def _strings_under_negation(b, fn, site, region, dom, letter):
    """(problem text | None, number of StringSet edges decided). `\\P{property of strings}` has no complement: on the StringSet
    outcome every path taken under the `P` polarity must end in the parser's error."""
    cv = b.const_of_operand(letter)
    if cv == ord("p"):
        return None, 0
    edges = []
    for x in sorted(region):
        blk = b.blocks[x]
        for st in blk["s"]:
            if st["k"] == "assign" and st["rv"]["k"] == "discr":
                names = dict((v, nme) for v, nme in st["rv"].get("variants", []))
                if "StringSet" in names.values() and blk["t"]["k"] == "switch":
                    tg = [t_ for v, t_ in blk["t"]["targets"] if names.get(v) == "StringSet"]
                    if not tg and all(names.get(v) != "StringSet" for v, _ in blk["t"]["targets"]):
                        tg = [blk["t"]["otherwise"]]
                    edges += tg
    if not edges:
        return None, 0
    errs = {x for x in region if b.blocks[x]["t"]["k"] == "call" and (b.blocks[x]["t"].get("callee") or "").split("::")[-1] == "error"}
    rets = {x for x in b.reachable() if b.blocks[x]["t"]["k"] == "return"}
    if cv == ord("P"):
        for e in edges:
            if b.reach_from(e, avoid=errs) & rets:
                return ("after `\\P` a property of strings (RGI_Emoji, ...) is not rejected: a path from the StringSet outcome reaches the "
                        "function's return without the parser's error — `[\\P{RGI_Emoji}]` compiles and means `\\p{RGI_Emoji}`"), len(edges)
        return None, len(edges)
    # variable letter: the `== 'P'` flag decides
    flag = None
    for l, ds in b.defs().items():
        for (dbb, si, kind, pay) in ds:
            if kind == "assign" and pay["rv"]["k"] == "bin" and pay["rv"].get("op") == "Eq" and \
                    ord("P") in (b.const_of_operand(pay["rv"]["a"]), b.const_of_operand(pay["rv"]["b"])) and (dbb == site or dbb in dom[site]):
                flag = l
    if flag is None:
        return None, 0   # reported by the polarity clause
    fsw = set()
    true_edges = []
    for x in region:
        tt = b.blocks[x]["t"]
        if tt["k"] != "switch" or tt["discr"].get("k") not in ("copy", "move"):
            continue
        rt_, pr_ = b.root_of(tt["discr"]["pl"]["l"])
        if rt_ == flag and not pr_:
            fsw.add(x)
            true_edges.append(tt["otherwise"])
    for e in edges:
        if b.reach_from(e, avoid=errs | fsw) & rets:
            return ("both `\\p` and `\\P` are handled here, and on the StringSet outcome a path reaches the return without the parser's "
                    "error and without a test of the `== 'P'` flag: `\\P{property of strings}` is accepted and means `\\p{..}`"), len(edges)
    for te in true_edges:
        if any(te == e or e in dom[te] for e in edges) and b.reach_from(te, avoid=errs) & rets:
            return ("on the StringSet outcome the `P` edge of the flag test does not end in the parser's error: "
                    "`\\P{property of strings}` is accepted"), len(edges)
    return None, len(edges)


def check(facts):
    r = RuleResult("PROPNEG", RULE_TEXT)
    nsites = 0
    nstrsites = [0]
    for fn in sorted(facts.body_names()):
        if "{closure" in fn:
            continue
        b = facts.body(fn)
        sites = [(bb, t) for bb, t in b.iter_calls() if (t.get("callee") or "").endswith("::" + ANCHOR)]
        if not sites:
            continue
        dom = b.dom()
        reach = b.reachable()
        succ = b.succ()
        ordinal = 0
        for bb, t in sites:
            nsites += 1
            ordinal += 1
            region = {x for x in reach if bb in dom[x]}
            inv = [x for x in region if b.blocks[x]["t"]["k"] == "call"
                   and (b.blocks[x]["t"].get("callee") or "").endswith("CodePointSet::inverted")]
            # nearest dominating consume call
            letter = None
            best = -1
            for d in dom[bb]:
                tt = b.blocks[d]["t"]
                if tt["k"] == "call" and (tt.get("callee") or "").endswith("::consume") and len(tt["args"]) > 1:
                    # nearest = dominated by every other dominating consume
                    depth = len(dom[d])
                    if depth > best:
                        best = depth
                        letter = tt["args"][1]
            strset_problem = None
            nstr_checked = 0
            if letter is not None:
                strset_problem, nstr_checked = _strings_under_negation(b, fn, bb, region, dom, letter)
                nstrsites[0] += nstr_checked
            if strset_problem:
                r.fail("%s property-escape#%d rejects a negated property of strings" % (fn, ordinal), strset_problem, facts.loc(fn, t.get("line")))
            elif nstr_checked:
                r.ok("%s property-escape#%d rejects a negated property of strings" % (fn, ordinal))
            if letter is None:
                r.fail("%s property-escape#%d" % (fn, ordinal), "cannot tell which letter (p/P) was consumed before the property escape",
                       facts.loc(fn, t.get("line")))
                continue
            cv = b.const_of_operand(letter)
            if cv == ord("P"):
                key = "%s \\P site" % fn
                if inv:
                    r.ok(key, "complemented at line %s" % b.blocks[inv[0]]["t"].get("line"))
                    r.sample({"function": fn, "site_line": t.get("line"), "letter": "P", "inverted_line": b.blocks[inv[0]]["t"].get("line")})
                else:
                    r.fail(key, "after consuming `\\P` the property's code points are never complemented (no CodePointSet::inverted in the "
                                "code this site dominates): \\P{X} denotes X here", facts.loc(fn, t.get("line")))
                continue
            if cv == ord("p"):
                key = "%s \\p site" % fn
                if inv:
                    r.fail(key, "after consuming `\\p` the property's code points are complemented (line %s)" % b.blocks[inv[0]]["t"].get("line"),
                           facts.loc(fn, t.get("line")))
                else:
                    r.ok(key, "not complemented")
                    r.sample({"function": fn, "site_line": t.get("line"), "letter": "p"})
                continue
            if cv is not None:
                r.fail("%s property-escape#%d" % (fn, ordinal), "property escape after an unexpected letter %r" % chr(cv), facts.loc(fn, t.get("line")))
                continue
            # variable letter: find the flag
            key = "%s \\p|\\P site" % fn
            flag = None
            for l, ds in b.defs().items():
                for (dbb, si, kind, pay) in ds:
                    if kind != "assign" or pay["rv"]["k"] != "bin" or pay["rv"].get("op") != "Eq":
                        continue
                    vals = [b.const_of_operand(pay["rv"]["a"]), b.const_of_operand(pay["rv"]["b"])]
                    if ord("P") in vals and (dbb == bb or dbb in dom[bb]):
                        flag = l
            if flag is None:
                r.fail(key, "both `\\p` and `\\P` are handled here but no `letter == 'P'` flag is computed before the property is parsed: "
                            "the polarity is lost", facts.loc(fn, t.get("line")))
                continue

            def is_flag(op):
                if op.get("k") not in ("copy", "move"):
                    return False
                root, proj = b.root_of(op["pl"]["l"])
                return root == flag and not proj

            # inverted() calls guarded by the flag
            guarded = set()
            for s in region:
                tt = b.blocks[s]["t"]
                if tt["k"] == "switch" and is_flag(tt["discr"]):
                    tru = tt["otherwise"]
                    fls = [tg for v, tg in tt["targets"] if v == 0]
                    for x in inv:
                        if tru in dom[x] and not any(f_ in dom[x] for f_ in fls):
                            guarded.add(x)
            uses = 0
            bad = []
            for x in sorted(region):
                for st in b.blocks[x]["s"]:
                    if st["k"] != "assign" or st["rv"]["k"] != "agg":
                        continue
                    a = st["rv"]
                    fields = a.get("fields") or []
                    for fi, fname in enumerate(fields):
                        if fname not in ("invert", "negate") or fi >= len(a.get("ops") or []):
                            continue
                        op = a["ops"][fi]

                        def leaves(o, at, depth=0):
                            """(operand, block) pairs the field's value can come from: through plain copies and through the
                            components of a tuple built on several paths (`let (invert, cps) = if .. {(false, ..)} else {(negate, ..)}`)"""
                            if o.get("k") not in ("copy", "move") or depth > 6 or is_flag(o):
                                return [(o, at)]
                            l_ = o["pl"]["l"]
                            pr_ = o["pl"]["p"]
                            ds_ = b.defs().get(l_, [])
                            if not ds_ or any(d_[2] != "assign" for d_ in ds_):
                                return [(o, at)]
                            out_ = []
                            for d_ in ds_:
                                rv_ = d_[3]["rv"]
                                if not pr_ and rv_["k"] == "use":
                                    out_ += leaves(rv_["op"], d_[0], depth + 1)
                                elif len(pr_) == 1 and isinstance(pr_[0], dict) and str(pr_[0].get("f", "")).isdigit() and rv_["k"] == "agg" \
                                        and rv_.get("ak") == "tuple" and int(pr_[0]["f"]) < len(rv_.get("ops") or []):
                                    out_ += leaves(rv_["ops"][int(pr_[0]["f"])], d_[0], depth + 1)
                                else:
                                    return [(o, at)]
                            return out_
                        okf = True
                        for lo, lb in leaves(op, x):
                            if is_flag(lo):
                                continue
                            if b.const_of_operand(lo) == 0 and any(lb in b.reach_from(g) for g in guarded):
                                continue
                            okf = False
                        if okf:
                            uses += 1
                        else:
                            bad.append((st["line"], "%s::%s.%s" % (a.get("adt", "?"), a.get("variant", ""), fname)))
            if bad:
                r.fail(key, "the `%s` field built at line %s does not receive the `letter == 'P'` flag (nor is it the constant false after a "
                            "complement guarded by the flag): \\P{X} and \\p{X} denote the same set on that path" % (bad[0][1], bad[0][0]),
                       facts.loc(fn, bad[0][0]))
            elif uses == 0 and not guarded:
                r.fail(key, "the `letter == 'P'` flag is never used to complement or mark the set built from the property", facts.loc(fn, t.get("line")))
            else:
                r.ok(key, "%d polarity-carrying aggregates, %d guarded complements" % (uses, len(guarded)))
                r.sample({"function": fn, "site_line": t.get("line"), "flag": b.local_name(flag) or "_%d" % flag,
                          "aggregates": uses, "guarded_complements": len(guarded)})
    r.floor("property_escape_sites", nsites, 3)   # 4 today; 3 when the sibling `p` / `P` arms of one parser are merged into one
    r.floor("property_escape_sites_with_a_string_outcome_under_P", nstrsites[0], 3)
    # \p{Name=Value}: the name part is set at most once (a second `=` is a syntax error, not a new name)
    fnp = [n for n in facts.body_names() if n.endswith("::" + ANCHOR) and "{closure" not in n]
    for fn in fnp:
        b = facts.body(fn)
        dom = b.dom()
        names = [l for l in range(b.argc + 1, len(b.locals)) if b.local_name(l) and "Option<" in b.local_ty(l) and "UnicodePropertyName" in b.local_ty(l)]
        for nl in names:
            k = 0
            for bi, si, kind, pay in b.defs().get(nl, []):
                if kind != "assign":
                    continue
                rv_ = pay["rv"]
                if rv_["k"] == "use" and rv_["op"].get("k") in ("copy", "move") and not rv_["op"]["pl"]["p"]:
                    d1 = b.single_def(rv_["op"]["pl"]["l"])
                    if d1 and d1[2] == "assign":
                        rv_ = d1[3]["rv"]
                if rv_["k"] != "agg" or str(rv_.get("variant")) != "Some":
                    continue
                k += 1
                key = "%s sets the property name once #%d" % (fn, k)
                guarded = False
                for d in dom[bi]:
                    t = b.blocks[d]["t"]
                    if t["k"] != "switch" or t["discr"].get("k") not in ("copy", "move"):
                        continue
                    dd = b.single_def(t["discr"]["pl"]["l"])
                    if not dd:
                        continue
                    if dd[2] == "call" and (dd[3].get("callee") or "").endswith("is_none") and dd[3]["args"] and \
                            dd[3]["args"][0].get("k") in ("copy", "move") and b.root_of(dd[3]["args"][0]["pl"]["l"])[0] == nl:
                        if t["otherwise"] == bi or t["otherwise"] in dom[bi]:
                            guarded = True
                    if dd[2] == "call" and (dd[3].get("callee") or "").endswith("is_some") and dd[3]["args"] and \
                            dd[3]["args"][0].get("k") in ("copy", "move") and b.root_of(dd[3]["args"][0]["pl"]["l"])[0] == nl:
                        f0 = [tg for v, tg in t["targets"] if v == 0]
                        if f0 and (f0[0] == bi or f0[0] in dom[bi]):
                            guarded = True
                    if dd[2] == "assign" and dd[3]["rv"]["k"] == "discr" and dd[3]["rv"]["pl"]["l"] == nl:
                        z = [tg for v, tg in t["targets"] if v == 0]
                        if z and (z[0] == bi or z[0] in dom[bi]):
                            guarded = True
                if guarded:
                    r.ok(key, "only while no name has been read yet")
                else:
                    r.fail(key, "the property name is (re)assigned at line %s without a test that none was read before: `\\p{sc=gc=Lu}` is "
                                "accepted (only the last name counts) instead of being a syntax error" % pay.get("line"), facts.loc(fn, pay.get("line")))
    return r

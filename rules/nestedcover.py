"""NESTEDCOVER — an inner `match` that ends in `unreachable!()` covers everything its enclosing arm lets through (C07).

Where a `match` on a value sits inside an arm of an outer `match` on the *same* value and ends with a catch-all arm whose
body panics (`unreachable!()`, `panic!`), the unguarded literal / range arms of the inner match must cover every value the
outer arm's pattern admits (guarded arms do not count: their guard may fail). Otherwise a value that the outer arm
accepts falls through to the panic: `\\00` reaching `_ => unreachable!()` after the `'0'..='3'` arm became `'1'..='3'`.
The panic triage records "inner match repeats the outer arm's range" for these sites; this rule decides it.
"""
import json

from . import core
from .report import RuleResult

RULE_TEXT = " ".join(x.strip() for x in __doc__.split("\n")[2:] if x.strip())


def intervals(p):
    """Value intervals a literal / range / or pattern admits; None if the pattern is something else (binding, wild, enum)."""
    k = p.get("k")
    if k == "lit" and isinstance(p.get("v"), int):
        return [(p["v"], p["v"])]
    if k == "range":
        lo, hi = p.get("lo") or {}, p.get("hi") or {}
        if isinstance(lo.get("v"), int) and isinstance(hi.get("v"), int):
            end = hi["v"] if p.get("end", "included") in ("included", "Included", None) else hi["v"] - 1
            return [(lo["v"], end)]
        return None
    if k == "or":
        out = []
        for q in p.get("pats", []):
            iv = intervals(q)
            if iv is None:
                return None
            out += iv
        return out
    return None


def covers(cover, need):
    pts = set()
    for lo, hi in need:
        if hi - lo > 0x120000:
            return False
        pts.update(range(lo, hi + 1))
    for lo, hi in cover:
        pts.difference_update(range(lo, hi + 1))
    return not pts, sorted(pts)[:5]


def scrut_key(m):
    s = m.get("scrut") or {}
    if s.get("k") == "path" and (s.get("res") or {}).get("r") == "local":
        return ("local", s["res"].get("id"), s["res"].get("name"))
    return None


def is_panic(body):
    txt = json.dumps(body)
    return any(x in txt for x in ("panicking::unreachable", "panicking::panic", "unreachable_display", "panic_fmt", "panic_explicit"))


def check(facts):
    r = RuleResult("NESTEDCOVER", RULE_TEXT)
    n = 0
    for fn in sorted(facts.hir):
        if "::tests::" in fn or "unicodetables" in fn:
            continue
        found = []

        def visit(node, ps):
            if node.get("k") == "match":
                found.append((node, list(ps)))
        core.hir_walk(facts.hir[fn]["body"], visit)
        for m, ps in found:
            sk = scrut_key(m)
            if sk is None:
                continue
            last = m["arms"][-1] if m["arms"] else None
            if not last or last["pat"].get("k") != "wild" or last.get("guard") is not None or not is_panic(last["body"]):
                continue
            # nearest enclosing match on the same value, and the arm we are in
            outer = None
            for i in range(len(ps) - 1, -1, -1):
                p = ps[i]
                if isinstance(p, dict) and p.get("k") == "match" and scrut_key(p) == sk:
                    outer = p
                    break
            if outer is None:
                continue
            arm = None
            mtxt = json.dumps(m, sort_keys=True)
            for a in outer["arms"]:
                if mtxt in json.dumps(a["body"], sort_keys=True):
                    arm = a
            if arm is None:
                continue
            need = intervals(arm["pat"])
            if need is None:
                continue
            n += 1
            def show(iv):
                return ",".join(("%r" % chr(a)) if a == b_ else "%r..=%r" % (chr(a), chr(b_)) for a, b_ in iv)
            key = "%s inner match on `%s` inside the arm %s" % (fn, sk[2], show(need))
            cover = []
            for a in m["arms"][:-1]:
                if a.get("guard") is not None:
                    continue
                iv = intervals(a["pat"])
                if iv:
                    cover += iv
            ok, missing = covers(cover, need)
            if ok:
                r.ok(key, "inner arms cover the outer arm's values")
                r.sample({"function": fn, "outer_arm_line": arm.get("line"), "inner_match_line": m.get("line"), "values": need})
            else:
                r.fail(key, "the inner match at line %s ends in a panicking catch-all but its unguarded arms do not cover %s (e.g. %r) which "
                            "the enclosing arm admits: that input reaches the panic instead of being parsed" % (
                                m.get("line"), need, [chr(x) for x in missing]), facts.loc(fn, m.get("line")))
    r.floor("nested_matches_with_panicking_default", n, 1)
    return r

"""BACKREFI — case-insensitive backreferences compare code points, on the right input (C10, C15).

Functions that split off a sub-input (`InputIndexer::subinput`, today only matchers::backref_icase) hold two
indexers at once. Two structural conditions are decided for each of them:
 OWNER   a position is only handed to the indexer it was obtained from: for every call `f(X, .., P, ..)` where X is
         an indexer and P a position (or `&mut` position), every definition of P is the result of a call on X
         (`X.left_end()`, `X.right_end()`, ..) or — for the caller's own input — a position parameter. With
         `index-positions` a sub-input's positions restart at 0, so a parent position walked through the sub-input
         reads the wrong text; with pointer positions both coincide, which is why the default build cannot see it.
 DECIDE  every `return false` is decided by code points: each branch it is directly control-dependent on tests a
         value defined only by constants, `fold_equals(..)` results or the Some/None outcome of decoding the next
         element. A case pair may differ in encoded length (U+212A / k), so a decision computed from position
         arithmetic (lengths, distances) rejects text that folds equal.
"""
from . import core
from .report import RuleResult

RULE_TEXT = " ".join(x.strip() for x in __doc__.split("\n")[2:] if x.strip())

DECODE = ("cursor::next", "indexing::InputIndexer::next_right", "indexing::InputIndexer::next_left",
          "indexing::InputIndexer::peek_right", "indexing::InputIndexer::peek_left")
FOLDEQ = ("indexing::InputIndexer::fold_equals", "matchers::CharProperties::fold_equals")


def is_indexer_callee(c):
    return c.startswith("cursor::") or c.startswith("indexing::InputIndexer::")


def operand_root(b, op):
    if op.get("k") not in ("copy", "move"):
        return None
    l, _ = b.root_of(op["pl"]["l"])
    return l


def is_position_ty(ty):
    return "Position" in ty and "Range" not in ty


def param_indexer(b):
    c = [l for l in range(1, b.argc + 1) if "Input" in b.local_ty(l) and "Position" not in b.local_ty(l) and "Range" not in b.local_ty(l)]
    return c[0] if len(c) == 1 else None


def owners_of_position(b, l, pin, depth=0):
    """Set of indexer root locals the position local `l` was obtained from ('?' if it cannot be told)."""
    if l <= b.argc and l != 0:
        return {pin if pin is not None else "?"}
    if depth > 8:
        return {"?"}
    out = set()
    for bi, si, kind, pay in b.defs().get(l, []):
        if kind == "call":
            cal = pay.get("callee") or ""
            if is_indexer_callee(cal) and pay["args"]:
                out.add(operand_root(b, pay["args"][0]))
            else:
                # position arithmetic on other positions: owner of the position operands
                sub = set()
                for a in pay["args"]:
                    if a.get("k") in ("copy", "move") and ("Position" in a["pl"].get("ty", "") or "Position" in b.local_ty(a["pl"]["l"])):
                        r0, _ = b.root_of(a["pl"]["l"])
                        sub |= owners_of_position(b, r0, pin, depth + 1)
                out |= sub or {"?"}
        else:
            rv = pay["rv"]
            src = None
            if rv["k"] == "use" and rv["op"]["k"] in ("copy", "move"):
                src = rv["op"]["pl"]["l"]
            elif rv["k"] == "ref":
                src = rv["pl"]["l"]
            if src is None:
                out.add("?")
            else:
                r0, _ = b.root_of(src)
                out |= owners_of_position(b, r0, pin, depth + 1)
    return out or {"?"}


def value_sources(b, l, seen=None):
    """Where the value of local `l` comes from: set of ('const',), ('call', callee), ('param', name), ('other', text)."""
    seen = seen if seen is not None else set()
    if l in seen:
        return set()
    seen.add(l)
    if l <= b.argc and l != 0:
        return {("param", b.local_name(l) or "_%d" % l)}
    out = set()
    for bi, si, kind, pay in b.defs().get(l, []):
        if kind == "call":
            out.add(("call", pay.get("callee") or "?"))
            continue
        rv = pay["rv"]
        k = rv["k"]
        if k == "use":
            op = rv["op"]
            if op["k"] == "const":
                out.add(("const",))
            else:
                out |= value_sources(b, op["pl"]["l"], seen)
        elif k == "discr":
            out |= {("outcome",) + s[1:] if s[0] == "call" else s for s in value_sources(b, rv["pl"]["l"], seen)}
        elif k in ("un",):
            a = rv["a"]
            out |= {("const",)} if a["k"] == "const" else value_sources(b, a["pl"]["l"], seen)
        elif k in ("bin", "checked_bin"):
            for a in (rv["a"], rv["b"]):
                out |= {("const",)} if a["k"] == "const" else value_sources(b, a["pl"]["l"], seen)
        elif k in ("cast",):
            op = rv["op"]
            out |= {("const",)} if op["k"] == "const" else value_sources(b, op["pl"]["l"], seen)
        else:
            out.add(("other", k))
    return out


def check(facts):
    r = RuleResult("BACKREFI", RULE_TEXT)
    fns = []
    for fn in facts.body_names():
        if "{closure" in fn:
            continue
        b = facts.body(fn)
        if any((t.get("callee") or "").endswith("InputIndexer::subinput") for _, t in b.iter_calls()):
            fns.append(fn)
    r.floor("functions_with_a_subinput", len(fns), 1)
    npos = 0
    nexit = 0
    for fn in sorted(fns):
        b = facts.body(fn)
        pin = param_indexer(b)
        # ---- OWNER
        for bb, t in b.iter_calls():
            cal = t.get("callee") or ""
            if not is_indexer_callee(cal) or cal.endswith("::subinput") or not t["args"]:
                continue
            x = operand_root(b, t["args"][0])
            if x is None:
                continue
            for ai, a in enumerate(t["args"][1:], 1):
                if a.get("k") not in ("copy", "move"):
                    continue
                pr, _ = b.root_of(a["pl"]["l"])
                if not is_position_ty(b.local_ty(pr)):
                    continue
                npos += 1
                own = owners_of_position(b, pr, pin)
                nm = lambda l: (b.local_name(l) or "_%s" % l) if l != "?" else "?"
                key = "%s %s(%s, %s)" % (fn, cal.split("::")[-1], nm(x), nm(pr))
                if own == {x}:
                    r.ok(key, "position obtained from the indexer it is used with")
                    r.sample({"function": fn, "call": cal, "indexer": nm(x), "position": nm(pr)})
                else:
                    r.fail(key, "position `%s` is walked through indexer `%s` but was obtained from %s: with index-positions a sub-input's "
                                "positions restart at 0, so the wrong text is compared (invisible with pointer positions)" % (
                                    nm(pr), nm(x), sorted(nm(o) for o in own)), facts.loc(fn, t.get("line")))
        # ---- DECIDE
        pd = b.pdom()
        succ = b.succ()
        reach = b.reachable()
        for bi in sorted(reach):
            blk = b.blocks[bi]
            hit = [s for s in blk["s"] if s["k"] == "assign" and s["pl"]["l"] == 0 and not s["pl"]["p"] and s["rv"]["k"] == "use"
                   and s["rv"]["op"]["k"] == "const" and s["rv"]["op"].get("int") == 0]
            if not hit or "bool" not in b.local_ty(0):
                continue
            nexit += 1
            ctrl = []
            for s in sorted(reach):
                t = b.blocks[s]["t"]
                if t["k"] != "switch" or len(succ.get(s, [])) < 2:
                    continue
                through = [x for x in succ[s] if x == bi or bi in pd.get(x, ())]
                if through and len(through) < len(succ[s]):
                    ctrl.append(s)
            key = "%s false-exit#%d" % (fn, nexit)
            bad = []
            for s in ctrl:
                d = b.blocks[s]["t"]["discr"]
                if d["k"] == "const":
                    continue
                for src in value_sources(b, d["pl"]["l"]):
                    if src[0] == "const":
                        continue
                    if src[0] == "call" and src[1] in FOLDEQ:
                        continue
                    if src[0] == "outcome" and src[1] in DECODE:
                        continue
                    # `next(..).is_some_and(|c2| fold_equals(c1, c2))`: decoded element present *and* folding equal
                    if src[0] == "call" and src[1].split("::")[-1] in ("is_some_and", "is_none_or", "map_or") and any(
                            (tt.get("callee") or "") in FOLDEQ for cn in facts.body_names() if cn.startswith(fn + "::{closure")
                            for _, tt in facts.body(cn).iter_calls()):
                        continue
                    bad.append((b.blocks[s]["t"].get("line"), src))
            if not ctrl:
                r.fail(key, "`return false` (line %s) is unconditional" % hit[0]["line"], facts.loc(fn, hit[0]["line"]))
            elif bad:
                r.fail(key, "`return false` (line %s) is decided by a branch (line %s) on a value that is not a folded code-point comparison: %s — "
                            "case partners can differ in encoded length, so lengths/distances cannot reject an icase backreference" % (
                                hit[0]["line"], bad[0][0], sorted({"/".join(str(x) for x in s) for _, s in bad})),
                       facts.loc(fn, hit[0]["line"]))
            else:
                r.ok(key, "decided by fold_equals / end of input")
                r.sample({"function": fn, "false_exit_line": hit[0]["line"], "controlled_by_lines": [b.blocks[s]["t"].get("line") for s in ctrl]})
    r.floor("position_uses", npos, 2)
    r.floor("false_exits", nexit, 1)
    return r

"""NAMES — capture slots and names line up, and named access finds the participating group (C16).

 (a) emit.rs: the name of group `id` is stored at an index that flows from the CaptureGroup's `id`
     field; nothing is appended to Emitter.group_names by push/insert (emission order differs from
     id order once the parser has reversed a Cat inside a lookbehind);
 (b) Match::named_group and NamedGroups::next both test the participation of a capture (Option-ness of
     an element of `captures`) when choosing among groups that share a name;
 (c) both successful_match functions build `captures` from one in-order pass over the whole group store
     (no skip/take/rev/filter);
 (d) Node::CaptureGroup is constructed only by the parser (and by derive(Clone));
 (e) every api::Match is built with a clone of the compiled regex's `group_names` on every path (directly or through a parameter
     whose every call site passes one): a match without the table answers named_group() with None while group(i) is Some;
 (f) the capture-group pre-scan (collect_named_group_locations) skips an escaped character in each of its scanning loops.
"""
import json
import re

from . import core
from .report import RuleResult

RULE_TEXT = __doc__.split("\n\n")[1].replace("\n", " ")

ORDER_BREAKERS = {"rev", "skip", "take", "filter", "step_by", "skip_while", "take_while", "filter_map", "chunks", "windows", "swap",
                  "reverse", "sort", "sort_by", "retain", "dedup"}
PARTICIPATION_CALLS = {"is_some", "is_none", "find_map", "filter_map", "or", "or_else", "flatten", "is_some_and"}


def bodies_with_closures(facts, fn):
    return [n for n in facts.body_names() if n == fn or n.startswith(fn + "::{closure")]


def place_rooted_at_field(body, op, field):
    if op.get("k") not in ("copy", "move"):
        return False
    pl = op["pl"]
    if field in core.proj_fields(pl):
        return True
    root, proj = body.root_of(pl["l"])
    return any(isinstance(x, dict) and x.get("f") == field for x in proj)


def check(facts):
    r = RuleResult("NAMES", RULE_TEXT)
    # (a) emitter
    n_store = 0
    for fn in facts.body_names():
        if not fn.startswith("emit::"):
            continue
        b = facts.body(fn)
        for bb, t in b.iter_calls():
            if not t["args"]:
                continue
            a0 = t["args"][0]
            if not place_rooted_at_field(b, a0, "group_names"):
                continue
            cal = (t.get("callee") or "").split("::")[-1]
            key = "%s group_names.%s" % (fn, cal)
            if cal in ("truncate", "clear", "pop", "remove", "swap_remove", "drain", "retain", "split_off"):
                n_store += 1
                r.fail(key, "group names are removed while emitting (%s): names stored for other groups are lost" % cal, facts.loc(fn, t["line"]))
            elif cal == "resize":
                n_store += 1
                # resize may only grow: it must sit on the true edge of a comparison of group_names.len() with the index
                grows = False
                for d in b.dom()[bb]:
                    tt = b.blocks[d]["t"]
                    if tt["k"] != "switch" or tt["discr"]["k"] not in ("copy", "move"):
                        continue
                    df = b.single_def(tt["discr"]["pl"]["l"])
                    if not (df and df[2] == "assign" and df[3]["rv"]["k"] == "bin" and df[3]["rv"]["op"] in ("Le", "Lt", "Ge", "Gt")):
                        continue
                    ops = (df[3]["rv"]["a"], df[3]["rv"]["b"])
                    has_len = False
                    for o in ops:
                        if o["k"] in ("copy", "move"):
                            dd = b.single_def(o["pl"]["l"])
                            if dd and dd[2] == "call" and (dd[3].get("callee") or "").endswith("::len") and dd[3]["args"] \
                                    and place_rooted_at_field(b, dd[3]["args"][0], "group_names"):
                                has_len = True
                    if has_len and bb in b.reach_from(tt["otherwise"]) and not any(
                            bb in b.reach_from(tg) for v, tg in tt["targets"] if tg != tt["otherwise"] and tg not in b.dom()[bb] and False):
                        # the resize block must be dominated by exactly one of the switch's edges
                        if tt["otherwise"] in b.dom()[bb] or any(tg in b.dom()[bb] for v, tg in tt["targets"]):
                            grows = True
                if grows:
                    r.ok(key, "resize only on the edge where group_names.len() was compared with the index (grow only)")
                else:
                    r.fail(key, "group_names.resize is not guarded by a comparison with its current length: Vec::resize also shrinks, so a "
                                "lower group id emitted later (lookbehind order) truncates names already stored for higher ids", facts.loc(fn, t["line"]))
            elif cal in ("push", "insert", "extend", "append", "push_within_capacity"):
                n_store += 1
                r.fail(key, "group name appended in emission order (%s): inside a lookbehind groups are emitted right to left, so names "
                            "attach to the wrong group ids" % cal, facts.loc(fn, t["line"]))
            elif cal == "index_mut":
                n_store += 1
                idx = t["args"][1]

                def id_flow(body_, op_):
                    """(flows from a CaptureGroup's id?, integer parameters of body_ the value flows from)"""
                    got, params_ = False, set()
                    if op_["k"] not in ("copy", "move"):
                        return got, params_
                    seen = set()
                    work = [op_["pl"]["l"]]
                    while work and not got:
                        x = work.pop()
                        if x in seen:
                            continue
                        seen.add(x)
                        if 1 <= x <= body_.argc:
                            params_.add(x)
                        for d in body_.defs().get(x, []):
                            if d[2] != "assign":
                                continue
                            rv = d[3]["rv"]
                            for o in (rv.get("op"), rv.get("a"), rv.get("b")):
                                if isinstance(o, dict) and o.get("k") in ("copy", "move"):
                                    pl = o["pl"]
                                    fields = core.proj_fields(pl)
                                    rt, pr = body_.root_of(pl["l"])
                                    allf = [y.get("f") for y in pr if isinstance(y, dict) and "f" in y] + fields
                                    downs = [y.get("as") for y in pr + pl["p"] if isinstance(y, dict) and "as" in y]
                                    if "id" in allf and "CaptureGroup" in downs:
                                        got = True
                                    work.append(pl["l"])
                    return got, params_
                ok, via = id_flow(b, idx)
                if not ok and via:
                    # the store lives in a helper: every call site in emit.rs passes a value flowing from the group's id
                    sites = [(cn, tt) for cn in facts.body_names() if cn.startswith("emit::")
                             for _, tt in facts.body(cn).iter_calls() if (tt.get("callee") or "") == fn]
                    ok = bool(sites) and all(any(len(tt["args"]) >= p_ and id_flow(facts.body(cn), tt["args"][p_ - 1])[0] for p_ in via)
                                             for cn, tt in sites)
                if ok:
                    r.ok(key, "indexed by a value flowing from CaptureGroup.id")
                    r.sample({"key": key, "line": t["line"]})
                else:
                    r.fail(key, "group name stored at an index that does not flow from the group's id", facts.loc(fn, t["line"]))
    if n_store == 0:
        r.error("no store into Emitter.group_names found (anchor moved)")

    # (b) duplicate-name access
    for fn in ("api::Match::named_group", "<api::NamedGroups<'m> as std::iter::Iterator>::next"):
        names = bodies_with_closures(facts, fn)
        if not names:
            alt = [n for n in facts.body_names() if n.endswith("Iterator>::next") and "NamedGroups" in n]
            names = bodies_with_closures(facts, alt[0]) if (alt and "NamedGroups" in fn) else names
        if not names:
            r.error("anchor %s not found" % fn)
            continue
        touches_captures = False
        participation = []
        for n in names:
            b = facts.body(n)
            for bi, i, s in b.iter_stmts():
                if s["k"] == "assign":
                    for key in ("op", "pl"):
                        o = s["rv"].get(key)
                        pl = o.get("pl") if isinstance(o, dict) and "pl" in o else (o if key == "pl" else None)
                        if isinstance(pl, dict) and "captures" in core.proj_fields(pl):
                            touches_captures = True
                    if s["rv"]["k"] == "discr" and "Option<std::ops::Range<usize>>" in s["rv"]["pl"].get("ty", "").replace("core::", "std::"):
                        participation.append("match on Option at line %s" % s["line"])
            for bb, t in b.iter_calls():
                cal = (t.get("callee") or "").split("::")[-1]
                if cal in PARTICIPATION_CALLS:
                    participation.append("%s at line %s" % (cal, t["line"]))
        key = "%s consults participation" % fn
        if not touches_captures:
            r.fail(key, "does not read `captures` at all", facts.loc(names[0]))
        elif participation:
            r.ok(key, "; ".join(participation[:3]))
            r.sample({"key": key, "evidence": participation[:3]})
        else:
            r.fail(key, "chooses a group by name alone (no test whether the capture participated): with duplicate names in different "
                        "alternatives it reports the first group even when another one matched", facts.loc(names[0]))

    # (b3) the same for any other api function that looks a group up by name in `group_names`
    known = {"api::Match::named_group"} | {re.sub(r"(::\{closure#\d+\})+$", "", n) for n in facts.body_names()
                                              if n.endswith("Iterator>::next") and "NamedGroups" in n}
    groups = {}
    for n in facts.body_names():
        base = re.sub(r"(::\{closure#\d+\})+$", "", n)
        if "::tests::" in n or not (base.startswith("api::") or base.startswith("<api::")) or base in known:
            continue
        groups.setdefault(base, []).append(n)
    for base, members in sorted(groups.items()):
        reads_names = looks_up = touches = False
        part = []
        for n in members:
            b = facts.body(n)
            txt = json.dumps(b.j)
            reads_names = reads_names or '"group_names"' in txt
            touches = touches or '"captures"' in txt
            for bb, t in b.iter_calls():
                cal = t.get("callee") or ""
                last = cal.split("::")[-1]
                if last in ("eq", "ne", "position", "rposition", "find", "find_map", "any", "contains", "binary_search") or "PartialEq" in cal:
                    looks_up = True
                if last in PARTICIPATION_CALLS:
                    part.append(last)
        if not (reads_names and looks_up):
            continue
        key = "%s consults participation" % base
        if touches and part:
            r.ok(key, "; ".join(part[:3]))
        else:
            r.fail(key, "%s looks a group up by name in `group_names` without a test whether the capture participated: with duplicate names "
                        "in different alternatives it resolves to the first group carrying the name even when another one matched "
                        "(`${y}` expands to nothing for the second alternative)" % base.split("::")[-1], facts.loc(members[0]))

    # (b2) the duplicate scan of NamedGroups::next leaves its loop early only when a participating duplicate was found
    ng = [n for n in facts.body_names() if n.endswith("Iterator>::next") and "NamedGroups" in n]
    if ng:
        from .lbseq import natural_loops
        b = facts.body(ng[0])
        loops = natural_loops(b)
        is_some_blocks = [bb for bb, t in b.iter_calls() if (t.get("callee") or "").endswith("Option::<T>::is_some")]
        key = "%s duplicate scan exits early only on a participating duplicate" % ng[0]
        # iterator form: `.find_map(|i| captures[i].clone())` continues past None and stops at the first Some by contract
        fm = [t for bb, t in b.iter_calls() if (t.get("callee") or "").endswith("Iterator::find_map")]
        fm_ok = False
        for t in fm:
            for cl in [n for n in facts.body_names() if n.startswith(ng[0] + "::{closure")]:
                cb = facts.body(cl)
                reads = any(s["k"] == "assign" and "captures" in json.dumps(s["rv"]) for _, _, s in cb.iter_stmts()) or \
                    any("captures" in json.dumps(tt.get("args")) for _, tt in cb.iter_calls())
                rets_opt = "Option<std::ops::Range<usize>>" in cb.local_ty(0).replace("core::", "std::")
                if reads and rets_opt:
                    fm_ok = True
        in_loop = [bb for bb in is_some_blocks if any(bb in nodes for nodes in loops.values())]
        if fm_ok and not in_loop:
            r.ok(key, "find_map over the later captures (first participating duplicate by contract)")
        elif not is_some_blocks:
            r.fail(key, "no is_some() participation test found in the duplicate scan", facts.loc(ng[0]))
        else:
            isb = is_some_blocks[0]
            # innermost loop containing the participation test
            cands = [(h, nodes) for h, nodes in loops.items() if isb in nodes]
            if not cands:
                r.fail(key, "the participation test is not inside a loop over the later groups", facts.loc(ng[0]))
            else:
                h, nodes = min(cands, key=lambda x: len(x[1]))
                # the switch on the is_some() result
                nb = b.blocks[isb]["t"]["t"]
                sw = b.blocks[nb]["t"]
                true_tgt = sw.get("otherwise") if sw["k"] == "switch" else None
                succ = b.succ()
                bad = []
                for x in nodes:
                    for y in succ.get(x, []):
                        if y in nodes:
                            continue
                        # an exit edge: either the iterator is exhausted (exit from the header's `next()` match) or an early break
                        t = b.blocks[x]["t"]
                        exhausted = False
                        if t["k"] == "switch" and t["discr"]["k"] in ("copy", "move"):
                            dd = b.single_def(t["discr"]["pl"]["l"])
                            if dd and dd[2] == "assign" and dd[3]["rv"]["k"] == "discr" and "Option" in (dd[3]["rv"].get("enum") or ""):
                                src = b.single_def(dd[3]["rv"]["pl"]["l"])
                                if src and src[2] == "call" and (src[3].get("callee") or "").endswith("Iterator::next"):
                                    exhausted = True
                        if exhausted:
                            continue
                        if true_tgt is not None and (y == true_tgt or true_tgt in b.dom()[x] or x == true_tgt):
                            continue
                        bad.append(b.blocks[x]["t"].get("line") or b.blocks[y]["t"].get("line"))
                if bad:
                    r.fail(key, "the scan over later groups with the same name is left (line %s) without having found a participating one: "
                                "with three or more duplicates the name is reported as None although a later group matched" % bad[0],
                           facts.loc(ng[0], bad[0]))
                else:
                    r.ok(key, "early exit only on the is_some() edge")

    # (b3) Match::named_group hands out a capture only from a group whose name equals the requested one
    ngf = "api::Match::named_group"
    if not facts.has_body(ngf):
        r.error("anchor %s not found" % ngf)
    else:
        b = facts.body(ngf)
        key = "%s selects captures by name equality" % ngf
        calls = [(bb, t) for bb, t in b.iter_calls()]
        picks = [t for bb, t in calls if (t.get("callee") or "").split("::")[-1] in ("find_map", "find", "next", "filter_map", "last", "nth")
                 and "Iterator" in (t.get("callee") or "")]
        skipping = [t for bb, t in calls if (t.get("callee") or "").split("::")[-1] in ("skip_while", "skip", "take_while", "step_by", "rev")]
        filt = [t for bb, t in calls if (t.get("callee") or "").endswith("Iterator::filter")]
        eq_in_closure = ne_in_closure = False
        for cl in [n for n in facts.body_names() if n.startswith(ngf + "::{closure")]:
            cb = facts.body(cl)
            for _, tt in cb.iter_calls():
                if (tt.get("callee") or "").endswith("PartialEq::eq"):
                    eq_in_closure = True
                if (tt.get("callee") or "").endswith("PartialEq::ne"):
                    ne_in_closure = True
        # loop form: the capture that is returned is picked on the "names are equal" edge of a comparison
        dom = b.dom()
        guarded_pick = False
        picks_l = [bi for bi, i, st in b.iter_stmts() if st["k"] == "assign" and st["pl"]["l"] == 0 and not st["pl"]["p"]
                   and st["rv"]["k"] == "agg" and str(st["rv"].get("variant")) == "Some"]
        for bb, t in calls:
            last = (t.get("callee") or "").split("::")[-1]
            if last not in ("eq", "ne") or "PartialEq" not in (t.get("callee") or ""):
                continue
            sw = b.blocks[t["t"]]["t"] if t.get("t") is not None else None
            if not sw or sw["k"] != "switch":
                continue
            true_edge = sw["otherwise"]
            false_edge = [tg for v, tg in sw["targets"] if v == 0]
            equal_edge = true_edge if last == "eq" else (false_edge[0] if false_edge else None)
            if equal_edge is not None and picks_l and all(equal_edge == pb or equal_edge in dom[pb] for pb in picks_l):
                guarded_pick = True
        if skipping:
            r.fail(key, "named_group positions itself with %s instead of filtering by `name ==`: after the first group with that name it can "
                        "return the capture of a later group with another name (a non-participating named group followed by a participating "
                        "one)" % sorted({(t.get("callee") or "").split("::")[-1] for t in skipping}), facts.loc(ngf))
        elif filt and eq_in_closure and not ne_in_closure and picks:
            r.ok(key, "filter(name == ..) before the capture is picked")
        elif not filt and guarded_pick:
            r.ok(key, "the capture is cloned only on the names-equal edge")
        else:
            r.fail(key, "no equality test of the group name guards the capture named_group returns", facts.loc(ngf))

    # (c) successful_match: in-order pass over the whole store
    sm = [n for n in facts.body_names() if re.search(r"successful_match$", n)]
    if len(sm) < (1 if "pikevm::successful_match" not in facts.body_names() else 2):
        r.error("successful_match anchors missing: %s" % sm)
    for fn in sm:
        breakers = []
        iter_groups = False
        for n in bodies_with_closures(facts, fn):
            b = facts.body(n)
            for bb, t in b.iter_calls():
                cal = (t.get("callee") or "").split("::")[-1]
                if cal in ORDER_BREAKERS:
                    breakers.append("%s (line %s)" % (cal, t["line"]))
                if cal in ("iter", "iter_mut", "into_iter") and t["args"] and place_rooted_at_field(b, t["args"][0], "groups"):
                    iter_groups = True
                if cal in ("iter", "iter_mut", "deref", "deref_mut") and t["args"] and place_rooted_at_field(b, t["args"][0], "groups"):
                    iter_groups = True
        key = "%s captures built in group order" % fn
        if iter_groups and not breakers:
            r.ok(key, "one pass over the group store, no reordering/filtering adaptor")
        else:
            r.fail(key, "captures are not built by one in-order pass over all groups (%s)" % (", ".join(breakers) or "no iteration over groups"),
                   facts.loc(fn))

    # (d) CaptureGroup construction sites
    sites = []
    for fn in facts.body_names():
        b = facts.body(fn)
        for bi, i, s in b.iter_stmts():
            if s["k"] == "assign" and s["rv"]["k"] == "agg" and s["rv"].get("adt") == "ir::Node" and s["rv"]["variant"] == "CaptureGroup":
                sites.append((fn, s["line"]))
    for fn, line in sites:
        key = "%s constructs Node::CaptureGroup" % fn
        if fn.startswith("parse::Parser") or fn.endswith("::clone"):
            r.ok(key, nontrivial=fn.startswith("parse::"))
        else:
            r.fail(key, "a capture group is created outside the parser: group ids/count no longer correspond to left parentheses",
                   facts.loc(fn, line))
    if not any(fn.startswith("parse::Parser") for fn, _ in sites):
        r.error("parser construction site of Node::CaptureGroup not found")

    # (e) every Match carries the regex's name table
    def from_table(b, o, pending, depth=0, seen=None):
        """every definition of the operand is a (clone of a) read of a `group_names` field; a parameter is deferred to the callers"""
        seen = seen if seen is not None else set()
        if o.get("k") not in ("copy", "move") or depth > 8:
            return False
        rt, pr = b.root_of(o["pl"]["l"])
        fl = [x.get("f") for x in pr if isinstance(x, dict) and "f" in x] + core.proj_fields(o["pl"])
        if fl and fl[-1] == "group_names":
            return True
        l = o["pl"]["l"]
        if 1 <= l <= b.argc and not o["pl"]["p"]:
            pending.append(l)
            return True
        if l in seen:
            return True
        seen.add(l)
        ds = b.defs().get(l, [])
        if not ds:
            return False
        for d in ds:
            if d[2] == "call":
                cal = (d[3].get("callee") or "").split("::")[-1]
                if cal in ("clone", "deref", "borrow", "as_ref", "into", "from", "to_owned") and d[3]["args"] and \
                        from_table(b, d[3]["args"][0], pending, depth + 1, seen):
                    continue
                return False
            rv = d[3]["rv"]
            if rv["k"] in ("use", "cast") and from_table(b, rv["op"], pending, depth + 1, seen):
                continue
            if rv["k"] == "ref" and from_table(b, {"k": "copy", "pl": rv["pl"]}, pending, depth + 1, seen):
                continue
            return False
        return True
    nm = 0
    MSG = ("does not (on every path) take its `group_names` from the compiled regex's table: named_group()/named_groups() of that match "
           "find nothing although group(i) does — e.g. an empty table on an anchored fast path, or when no group participated")
    for fn in sorted(facts.body_names()):
        if "::tests::" in fn:
            continue
        b = facts.body(fn)
        k = 0
        for bi, i, st in b.iter_stmts():
            if st["k"] != "assign" or st["rv"]["k"] != "agg" or not str(st["rv"].get("adt", "")).endswith("api::Match"):
                continue
            flds = st["rv"].get("fields") or []
            if "group_names" not in flds:
                continue
            nm += 1
            k += 1
            op = st["rv"]["ops"][flds.index("group_names")]
            base = re.sub(r"::\{closure#\d+\}", "", fn)
            key = "%s Match #%d carries the regex's group names" % (base, k)
            pending = []
            if not from_table(b, op, pending):
                r.fail(key, "the Match built at line %s %s" % (st["line"], MSG), facts.loc(fn, st["line"]))
                continue
            r.ok(key, "a clone of <regex>.group_names" + (" (through parameter %s)" % ", ".join(b.local_name(l) or "_%d" % l for l in pending) if pending else ""))
            for l in pending:
                ncall = 0
                for cn in sorted(facts.body_names()):
                    cb = facts.body(cn)
                    for bb, t in cb.iter_calls():
                        if (t.get("callee") or "") != fn or len(t["args"]) < l:
                            continue
                        ncall += 1
                        ck = "%s passes the regex's group names to %s #%d" % (re.sub(r"::\{closure#\d+\}", "", cn), fn.split("::")[-1], ncall)
                        p2 = []
                        if from_table(cb, t["args"][l - 1], p2) and not p2:
                            r.ok(ck)
                        else:
                            r.fail(ck, "the name table handed to %s at line %s %s" % (fn.split("::")[-1], t.get("line"), MSG), facts.loc(cn, t.get("line")))
                if not ncall:
                    r.error("%s: no call site found for the function that receives the name table as a parameter" % fn)
    r.floor("match_constructions", nm, 2)

    # (f) the capture-group pre-scan skips an escaped character in every scanning loop: the top-level scan and the two class-skipping
    # loops (legacy and v-mode) each test for `\\` wherever they test for a bracket or parenthesis
    pre = [n for n in facts.body_names() if n.endswith("::collect_named_group_locations")]
    if not pre:
        r.error("anchor collect_named_group_locations not found")
    for fn in pre:
        b = facts.body(fn)
        dom = b.dom()
        ns = 0
        for bi in sorted(b.reachable()):
            t = b.blocks[bi]["t"]
            if t["k"] != "switch" or t.get("dty") != "char":
                continue
            vals = {v: tg for v, tg in t["targets"]}
            if not ({0x5B, 0x5D, 0x28} & set(vals)):
                continue
            ns += 1
            key = "%s scan #%d skips escaped characters" % (fn, ns)
            tg = vals.get(0x5C)
            consumes = tg is not None and any((tt.get("callee") or "").split("::")[-1] == "next" and (x == tg or tg in dom[x])
                                              for x, tt in b.iter_calls())
            if consumes:
                r.ok(key, "`\\` arm consumes the escaped character")
            else:
                r.fail(key, "the scanning loop at line %s looks for %s but has no arm that skips an escaped character: `\\[` / `\\]` / `\\(` inside "
                            "it is taken for syntax, the scan loses its place and capture groups after it are not counted (`\\1` becomes an "
                            "octal escape, `\\k<n>` literal text)" % (t.get("line"), sorted(chr(v) for v in vals if v in (0x5B, 0x5D, 0x28))),
                       facts.loc(fn, t.get("line")))
        r.floor("prescan_loops", ns, 3)
    return r

"""REWIND — a `try_` parser routine that answers None has put back what it read (C01, C07).

The optional-syntax routines of the parser (`try_escape_unicode_sequence`, `try_consume_named_capture_group_name`, ...) save
`self.input.clone()` and answer `None` for "not this construct — nothing consumed", after which the caller parses the same
text another way (`\\u` followed by non-hex is the letter u under legacy rules). Decided for every parse.rs function that
returns Option<..> and saves the input: every `None` result that is reachable from a point where input has been consumed
(after `next()` / `consume(..)`, or on the success edge of a `try_consume*` call) is cut off from that point by a store
`self.input = <saved copy>`. One failure exit that forgets the rewind swallows characters: `/\\u12xy/` compiles to just "u".
"""
from . import core
from .report import RuleResult

RULE_TEXT = " ".join(x.strip() for x in __doc__.split("\n")[2:] if x.strip())


def check(facts):
    r = RuleResult("REWIND", RULE_TEXT)
    nfn = 0
    nnone = 0
    for fn in sorted(facts.body_names()):
        if not fn.startswith("parse::Parser::<I>::") or "{closure" in fn:
            continue
        b = facts.body(fn)
        rty = b.local_ty(0).replace("core::", "std::")
        if not rty.startswith("std::option::Option<"):
            continue
        # saved copies of self.input
        saves = set()
        for bb, t in b.iter_calls():
            if (t.get("callee") or "").endswith("Clone::clone") and t["args"] and t["args"][0].get("k") in ("copy", "move"):
                rt, pr = b.root_of(t["args"][0]["pl"]["l"])
                if rt == 1 and [x.get("f") for x in pr if isinstance(x, dict) and "f" in x][-1:] == ["input"]:
                    saves.add(t["dest"]["l"])
        if not saves:
            continue
        nfn += 1
        restores = set()
        for bi, i, s in b.iter_stmts():
            if s["k"] == "assign" and "*" in s["pl"]["p"] and core.proj_fields(s["pl"])[-1:] == ["input"] and s["rv"]["k"] == "use" \
                    and s["rv"]["op"].get("k") in ("copy", "move"):
                cur = s["rv"]["op"]["pl"]["l"]
                for _ in range(5):
                    if cur in saves:
                        break
                    d0 = b.single_def(cur)
                    if d0 and d0[2] == "assign" and d0[3]["rv"]["k"] == "use" and d0[3]["rv"]["op"].get("k") in ("copy", "move"):
                        cur = d0[3]["rv"]["op"]["pl"]["l"]
                    else:
                        break
                if cur in saves:
                    restores.add(bi)
        # closures that restore (`result.or_else(|| { self.input = orig_input; .. })`) count at the call that runs them
        for bb, t in b.iter_calls():
            if (t.get("callee") or "").split("::")[-1] in ("or_else", "unwrap_or_else", "map_or_else"):
                restores.add(bb)
        # points after which input has been consumed
        starts = []
        for bb, t in b.iter_calls():
            cal = t.get("callee") or ""
            last = cal.split("::")[-1]
            if not cal.startswith("parse::Parser::<I>::") and not cal.endswith("Iterator::next"):
                continue
            if last in ("next", "consume"):
                if t.get("t") is not None:
                    starts.append((t["t"], t.get("line")))
            elif last.startswith("try_consume") or last.startswith("consume_"):
                nb = t.get("t")
                sw = b.blocks[nb]["t"] if nb is not None else None
                if sw and sw["k"] == "switch" and b.local_ty(t["dest"]["l"]) == "bool":
                    starts.append((sw["otherwise"], t.get("line")))
                elif nb is not None:
                    starts.append((nb, t.get("line")))
        nones = [(bi, s["line"]) for bi, i, s in b.iter_stmts() if s["k"] == "assign" and s["pl"]["l"] == 0 and not s["pl"]["p"]
                 and s["rv"]["k"] == "agg" and str(s["rv"].get("variant")) == "None"]
        k = 0
        for nb_, nline in nones:
            k += 1
            nnone += 1
            key = "%s None-return #%d" % (fn, k)
            leak = None
            for sb, sline in starts:
                if nb_ in b.reach_from(sb, avoid=restores - {nb_}) and nb_ not in restores:
                    leak = sline
                    break
            if leak is not None:
                r.fail(key, "`None` is returned at line %s on a path that consumed input (line %s) without `self.input = <saved>`: the caller "
                            "re-parses from the wrong place and the skipped characters disappear from the pattern" % (nline, leak), facts.loc(fn, nline))
            else:
                r.ok(key, "rewound or nothing consumed")
        r.sample({"function": fn, "none_returns": len(nones), "restore_blocks": len(restores)})
    r.floor("functions_with_saved_input", nfn, 3)
    r.floor("none_returns", nnone, 6)
    return r

"""Helpers over the HIR JSON trees (resolved, macro-expanded expression trees)."""
import re

from .core import hir_walk


def pat_variants(p):
    """Enum variants (last path segment) named by a pattern; '_' for a catch-all."""
    out = []

    def go(p):
        k = p.get("k")
        if k in ("struct", "tstruct", "path"):
            res = p.get("res", {})
            if res.get("path"):
                out.append(res["path"])
        elif k in ("ref", "box", "deref"):
            go(p["pat"])
        elif k == "or":
            for x in p["pats"]:
                go(x)
        elif k == "bind":
            if p.get("sub"):
                go(p["sub"])
            else:
                out.append("_")
        elif k == "wild":
            out.append("_")
        elif k == "lit":
            out.append("lit:%s" % p.get("v"))
        elif k == "range":
            out.append("range:%s..%s" % ((p.get("lo") or {}).get("v"), (p.get("hi") or {}).get("v")))
        elif k == "tuple":
            out.append("tuple")
    go(p)
    return out


def short(path):
    return path.rsplit("::", 1)[-1]


def find_matches(tree, scrut_ty_rx):
    """All `match` nodes whose scrutinee type matches the regex (pre-order)."""
    rx = re.compile(scrut_ty_rx)
    out = []

    def visit(n, ps):
        if n.get("k") == "match" and rx.search(n.get("scrut_ty", "")):
            out.append(n)
    hir_walk(tree, visit)
    return out


def arms_by_variant(m):
    """variant short name -> list of arms; '_' for wildcard arms."""
    out = {}
    for a in m["arms"]:
        for v in pat_variants(a["pat"]):
            out.setdefault(short(v) if v != "_" else "_", []).append(a)
    return out


def ctor_paths(expr):
    """Resolved paths of every constructor / path / struct-literal reference inside expr."""
    out = []

    def visit(n, ps):
        k = n.get("k")
        if k == "path":
            r = n.get("res", {})
            if r.get("r") == "def":
                out.append(r["path"])
        elif k == "struct":
            r = n.get("res", {})
            if r.get("path"):
                out.append(r["path"])
        elif k == "call":
            r = n.get("callee") or {}
            if r.get("r") == "def":
                out.append(r["path"])
    hir_walk(expr, visit)
    return out


def calls_in(expr):
    """Resolved callee paths (functions and methods) inside expr."""
    out = []

    def visit(n, ps):
        k = n.get("k")
        if k == "call":
            r = n.get("callee") or {}
            if r.get("r") == "def" and r.get("dk") in ("fn", "assocfn"):
                out.append(r["path"])
        elif k == "mcall" and n.get("def"):
            out.append(n["def"])
        elif k == "path":
            r = n.get("res", {})
            if r.get("r") == "def" and r.get("dk") in ("fn", "assocfn"):
                out.append(r["path"])
    hir_walk(expr, visit)
    return out


def strip_types(node, drop=("line", "ty", "mac", "recv_ty", "base_ty", "scrut_ty", "id")):
    if isinstance(node, dict):
        return {k: strip_types(v, drop) for k, v in node.items() if k not in drop}
    if isinstance(node, list):
        return [strip_types(v, drop) for v in node]
    return node

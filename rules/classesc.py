"""CLASSESCB — `\\b` inside a character class is U+0008 in every class parser (C12).

The class grammar has three parsers for a backslash escape inside `[...]`: try_consume_bracket_class_atom (classic / u),
consume_class_set_operand and consume_class_set_character (v mode, the latter also inside `\\q{..}`). In each of them the arm
for the letter `b` (the 0x62 edge of the switch on the escaped character, or the true edge of `x == 0x62`) must produce the constant 8 (backspace) and must not hand on the consumed
character itself (`self.consume(cp)` used as the value), which is how the arms for self-denoting punctuators work. The
siblings must agree: a v-mode class must not differ from a u-mode class on `[\\b]`.
"""
from . import core
from .report import RuleResult

RULE_TEXT = " ".join(x.strip() for x in __doc__.split("\n")[2:] if x.strip())
FNS = ("parse::Parser::<I>::try_consume_bracket_class_atom", "parse::Parser::<I>::consume_class_set_operand",
       "parse::Parser::<I>::consume_class_set_character")


def b_edges(b):
    """Blocks entered exactly when the inspected character is `b` (0x62): the 0x62 target of a switch on a character / code
    point, or the true edge of a test `x == 0x62`."""
    out = []
    for bi in sorted(b.reachable()):
        t = b.blocks[bi]["t"]
        if t["k"] != "switch":
            continue
        if t.get("dty") in ("char", "u32"):
            out += [(tg, t.get("line")) for v, tg in t["targets"] if v == 0x62]
        elif t.get("dty") == "bool" and t["discr"].get("k") in ("copy", "move"):
            d = b.single_def(t["discr"]["pl"]["l"])
            for _ in range(4):   # through plain copies (`let is_backspace = cp == 0x62; if is_backspace`)
                if d and d[2] == "assign" and d[3]["rv"]["k"] == "use" and d[3]["rv"]["op"].get("k") in ("copy", "move") and not d[3]["rv"]["op"]["pl"]["p"]:
                    d = b.single_def(d[3]["rv"]["op"]["pl"]["l"])
            if d and d[2] == "assign" and d[3]["rv"]["k"] == "bin" and d[3]["rv"]["op"] == "Eq" and \
                    0x62 in (b.const_of_operand(d[3]["rv"]["a"]), b.const_of_operand(d[3]["rv"]["b"])):
                out.append((t["otherwise"], t.get("line")))
    return out


def check(facts):
    r = RuleResult("CLASSESCB", RULE_TEXT)
    n = 0
    for fn in FNS:
        if not facts.has_body(fn):
            r.error("anchor %s not found" % fn)
            continue
        b = facts.body(fn)
        dom = b.dom()
        for e, line in b_edges(b):
            region = {x for x in b.reachable() if e == x or e in dom[x]}
            n += 1
            key = "%s arm for `\\b`" % fn
            has8 = False
            consumed = False
            for x in sorted(region):
                for st in b.blocks[x]["s"]:
                    if st["k"] != "assign" or st["rv"]["k"] != "agg":
                        continue
                    for op in st["rv"].get("ops") or []:
                        if b.const_of_operand(op) == 8:
                            has8 = True
                        if op.get("k") in ("copy", "move") and not op["pl"]["p"]:
                            d8 = b.single_def(op["pl"]["l"])
                            if d8 and d8[2] == "call" and (d8[3].get("callee") or "").split("::")[-1] in ("from", "into") and d8[3]["args"] \
                                    and b.const_of_operand(d8[3]["args"][0]) == 8:
                                has8 = True   # u32::from('\x08')
                        if op.get("k") in ("copy", "move"):
                            d = b.single_def(b.root_of(op["pl"]["l"])[0])
                            if d and d[2] == "call" and (d[3].get("callee") or "").split("::")[-1] == "consume" and d[0] in region:
                                consumed = True
            if has8 and not consumed:
                r.ok(key, "yields U+0008")
                r.sample({"function": fn, "line": line})
            else:
                r.fail(key, "the class escape `\\b` yields %s instead of the constant U+0008 (line %s): `[\\b]` matches the letter b in this "
                            "class parser while its siblings match backspace" % ("the consumed character" if consumed else "something else", line),
                       facts.loc(fn, line))
    r.floor("class_escape_b_arms", n, 3)
    return r

"""CLASSESCB — `\\b` inside a character class is U+0008 in every class parser (C12).

The class grammar has three parsers for a backslash escape inside `[...]`: try_consume_bracket_class_atom (classic / u),
consume_class_set_operand and consume_class_set_character (v mode, the latter also inside `\\q{..}`). In each of them the arm
for the letter `b` (pattern `'b'` / 0x62) must produce the constant 8 (backspace) and must not hand on the consumed
character itself (`self.consume(cp)` used as the value), which is how the arms for self-denoting punctuators work. The
siblings must agree: a v-mode class must not differ from a u-mode class on `[\\b]`.
"""
import json

from . import core, hirutil as H
from .report import RuleResult

RULE_TEXT = " ".join(x.strip() for x in __doc__.split("\n")[2:] if x.strip())
FNS = ("parse::Parser::<I>::try_consume_bracket_class_atom", "parse::Parser::<I>::consume_class_set_operand",
       "parse::Parser::<I>::consume_class_set_character")


def check(facts):
    r = RuleResult("CLASSESCB", RULE_TEXT)
    n = 0
    for fn in FNS:
        if fn not in facts.hir:
            r.error("anchor %s not found" % fn)
            continue
        arms = []

        def visit(node, ps):
            if node.get("k") == "match":
                for a in node.get("arms", []):
                    p = a["pat"]
                    vals = set()

                    def lits(q):
                        if q.get("k") == "lit" and isinstance(q.get("v"), int):
                            vals.add(q["v"])
                        for sub in q.get("pats", []) or []:
                            lits(sub)
                    lits(p)
                    if vals == {0x62} and a.get("guard") is None:
                        arms.append(a)
        core.hir_walk(facts.hir[fn]["body"], visit)
        # only arms inside the backslash handling produce a class member; the Term-level \b is not in these functions
        for a in arms:
            n += 1
            key = "%s arm for `\\b`" % fn
            txt = json.dumps(a["body"])
            has8 = '"k": "lit"' in txt and any(('"v": %d' % 8) in seg for seg in txt.split('"k": "lit"')[1:])
            # does the arm's value come from consume(..)?  `Ok(self.consume(cp))` / `ClassSetCharacter(self.consume(cp))`
            body = a["body"]
            tail = body
            while isinstance(tail, dict) and tail.get("k") == "block":
                tail = tail.get("expr") or {}
            returns_consumed = '"name": "consume"' in json.dumps(tail)
            if has8 and not returns_consumed:
                r.ok(key, "yields U+0008")
                r.sample({"function": fn, "line": a.get("line")})
            else:
                r.fail(key, "the class escape `\\b` yields %s instead of the constant U+0008 (line %s): `[\\b]` matches the letter b in this "
                            "class parser while its siblings match backspace" % ("the consumed character" if returns_consumed else "something else",
                                                                                a.get("line")), facts.loc(fn, a.get("line")))
    r.floor("class_escape_b_arms", n, 3)
    return r

"""Smaller repository-specific rules added after studying seeded changes that the first rule set missed.

EMPTYITER  both run_loop implementations keep an unconditional empty-iteration exit: a path that fails with
           exactly the guards `entry == pos` and `iters > min_iters` (plus `!is_initial_entry` in the PikeVM).
ITERBUDGET in run_scm_loop the iteration budgets handed to the single-char-loop helpers add up to `max` on every
           path (greedy: (min, max); lazy: (min, min) then compute_max(limit = max - min)).
           MINPOS: run_scm_loop_impl returns (position after the mandatory iterations, position after all): the first is
           read between its two matcher loops, the second after both (the first is the floor for giving characters back).
L1RESET    pikevm Loop1CharBody: whenever a State's ip is set to the loop's continuation, that State's loop1_iters
           is reset to 0 (the field's documented invariant: a fresh loop entry always observes 0).
           L1COUNT: a State whose pos takes the position reached by the one-character body (a value out of the attempt's
           Option) has its loop1_iters stored as count + 1 — every branch that iterates counts, or the maximum is lost.
COPYFID    ir::Node::try_duplicate rebuilds every variant field-for-field: operand i of the constructed node
           derives from field i of the matched node (no swapped children, flags or bounds).
NARROWCAST in parse.rs a number parsed from the pattern is narrowed (usize -> u32/u16) only after a range
           check on the un-narrowed value.
ASCIIFOLD  ASCIICharProperties::fold is exactly to_ascii_lowercase (unicode) / to_ascii_uppercase (legacy): the
           ASCII restriction of the tables that TABLES checks.
"""
import re

from . import core, symex
from .report import RuleResult

DOC = __doc__


def _text(name):
    m = re.search(r"^%s\s+(.*?)(?=^\w+\s{2,}|\Z)" % name, DOC, re.S | re.M)
    return " ".join(m.group(1).split()) if m else name


# ---- EMPTYITER ------------------------------------------------------------------------------

def check_emptyiter(facts):
    r = RuleResult("EMPTYITER", _text("EMPTYITER"))
    fns = [n for n in facts.body_names() if n.endswith("::run_loop") and "{closure" not in n]
    for fn in fns:
        b = facts.body(fn)
        key = "%s unconditional empty-iteration exit" % fn
        try:
            paths = symex.SymEx(b).run()
        except symex.Unsupported as e:
            r.fail(key, "cannot summarise run_loop (%s)" % e, facts.loc(fn))
            continue
        found = None
        closest = None
        for p in paths:
            if p.diverged or p.ret is None:
                continue
            rv = symex.show(p.ret)
            if not (rv.startswith("None") or rv.startswith("Fail")):
                continue
            gs = symex.cguards(p)  # canonical: only `<` / `==`, negations folded into the polarity

            def is_eq(g, v):
                return "==" in g and ".entry" in g and v is True

            def is_gt(g, v):
                # iters > min_iters, in canonical form `min_iters < ..iters` taken
                m = re.match(r"^(.*) < (.*)$", g)
                return bool(m) and "min_iters" in m.group(1) and ".iters" in m.group(2) and v is True
            has_eq = any(is_eq(g, v) for g, v in gs)
            has_gt = any(is_gt(g, v) for g, v in gs)
            if not (has_eq and has_gt):
                continue
            others = [(g, v) for g, v in gs if not is_eq(g, v) and not is_gt(g, v) and not (g == "is_initial_entry" and v is False)]
            if not others:
                found = gs
                break
            closest = others
        if found:
            r.ok(key, "fails under exactly %s" % [g for g, _ in found])
            r.sample({"function": fn, "path_guards": [[g, str(v)] for g, v in found]})
        else:
            r.fail(key, "the empty-iteration check (entry == pos && iters > min) no longer fails on its own; it is additionally conditioned "
                        "on %s: an iteration that matched nothing can be repeated (exponential blow-up / wrong captures)" % (closest,),
                   facts.loc(fn))
    r.floor("run_loop_functions", len(fns), 2)
    return r


# ---- ITERBUDGET -----------------------------------------------------------------------------

def check_iterbudget(facts):
    r = RuleResult("ITERBUDGET", _text("ITERBUDGET"))
    fn = "classicalbacktrack::MatchAttempter::<'a, Input>::run_scm_loop"
    if not facts.has_body(fn):
        r.error("anchor %s not found" % fn)
        return r
    b = facts.body(fn)
    names = {b.local_name(l): l for l in range(1, b.argc + 1)}
    min_name, max_name = "min", "max"
    if "min" not in names or "max" not in names:
        # renamed parameters: the two usize parameters, in declaration order (min before max, as in every other loop helper)
        us = [l for l in range(1, b.argc + 1) if b.local_ty(l) == "usize"]
        if len(us) != 2:
            r.error("run_scm_loop: cannot identify the min/max iteration-count parameters")
            return r
        min_name, max_name = b.local_name(us[0]), b.local_name(us[1])
    try:
        paths = symex.SymEx(b).run()
    except symex.Unsupported as e:
        r.fail("%s budgets" % fn, "cannot summarise run_scm_loop (%s)" % e, facts.loc(fn))
        return r
    MIN, MAX = ("init", min_name), ("init", max_name)
    n = 0
    bad = None
    for p in paths:
        li = [c for c in p.calls if c[0].endswith("with_scm_loop_impl")]
        cm = [c for c in p.calls if c[0].endswith("with_scm_compute_max")]
        if not li:
            continue
        if not symex.show(p.ret).startswith("Some"):
            continue  # the loop failed before its budget mattered
        n += 1
        first = li[0][1]
        if len(first) < 5 or symex.lin(first[3]) != symex.lin(MIN):
            bad = "with_scm_loop_impl is not driven with `min` as its minimum (line %s)" % li[0][2]
            break
        total = first[4]
        if cm:
            total = symex.lin_add(total, cm[0][1][3], 1)
            # the continuation starts where the mandatory part ended
            if not symex.contains_call(cm[0][1][2], {"with_scm_loop_impl"}):
                bad = "with_scm_compute_max does not start from the position with_scm_loop_impl returned (line %s)" % cm[0][2]
                break
        gs = symex.cguards(p)
        if symex.lin(total) == symex.lin(MAX):
            continue
        if symex.lin(total) == symex.lin(MIN) and ("%s < %s" % (min_name, max_name), False) in gs:
            continue
        bad = "on a path the single-char loop may run %s iterations in total instead of `max` (with_scm_loop_impl(.., %s, %s)%s)" % (
            symex.show(total), symex.show(first[3]), symex.show(first[4]),
            (" + with_scm_compute_max(limit = %s)" % symex.show(cm[0][1][3])) if cm else "")
        break
    if bad:
        r.fail("%s budgets" % fn, bad + ": the backtracker accepts more (or fewer) iterations than the quantifier allows", facts.loc(fn))
    else:
        r.ok("%s budgets" % fn, "%d paths: budgets add up to max" % n)
    r.floor("paths", n, 8)
    # MINPOS: the helper that drives the loop returns (position after the mandatory iterations, position after all of them): the
    # first component is read between the `0..min` loop and the `0..(max - min)` loop, the second after both
    hf = "classicalbacktrack::MatchAttempter::<'a, Input>::run_scm_loop_impl"
    if not facts.has_body(hf):
        r.error("anchor %s not found" % hf)
        return r
    hb = facts.body(hf)
    from .lbseq import natural_loops as _nl
    def matcher_loops(body_):
        return [(h, ns) for h, ns in _nl(body_).items()
                if any(x in ns and (t.get("callee") or "").split("::")[-1] == "matches" for x, t in body_.iter_calls())]
    loops = matcher_loops(hb)
    hdom = hb.dom()
    key = "%s returns (position after min iterations, position after all)" % hf
    # the optional phase may be a second loop, or a call of a local helper that contains such a loop (compute_max_pos)
    helper_calls = [bb for bb, t in hb.iter_calls() if facts.has_body(t.get("callee") or "") and (t.get("callee") or "") != hf
                    and matcher_loops(facts.body(t.get("callee")))]
    loops.sort(key=lambda x: len(hdom[x[0]]))
    if not loops or len(loops) + len(helper_calls) != 2:
        r.fail(key, "expected a loop over the mandatory iterations followed by the optional ones (a second loop, or a call of a helper that "
                    "loops), found %d loop(s) and %d helper call(s) that run the single-character matcher" % (len(loops), len(helper_calls)), facts.loc(hf))
        return r
    h1, n1 = loops[0]
    if len(loops) == 2:
        h2, n2 = loops[1]
        p2 = h2
    else:
        h2, n2, p2 = None, set(), helper_calls[0]
    tup = None
    for bi, i, st in hb.iter_stmts():
        if st["k"] == "assign" and st["rv"]["k"] == "agg" and st["rv"].get("ak") == "tuple" and len(st["rv"].get("ops") or []) == 2:
            tup = st
    probs = []
    if tup is None:
        probs.append("the returned pair was not found")
    else:
        def def_block(op):
            if op.get("k") not in ("copy", "move"):
                return None
            l = op["pl"]["l"]
            for _ in range(4):
                d = hb.single_def(l)
                if d and d[2] == "call":
                    return d[0]
                if not d or d[2] != "assign" or d[3]["rv"]["k"] != "use" or d[3]["rv"]["op"].get("k") not in ("copy", "move"):
                    return None
                src = d[3]["rv"]["op"]["pl"]["l"]
                if 1 <= src <= hb.argc or len(hb.defs().get(src, [])) > 1:
                    return d[0]   # the copy out of the running position
                l = src
            return None
        b1, b2 = def_block(tup["rv"]["ops"][0]), def_block(tup["rv"]["ops"][1])
        if b1 is None or not (h1 in hdom[b1] and b1 not in n1 and (b1 == p2 or b1 in hdom[p2])):
            probs.append("the first component (the minimum position, the floor for giving characters back) is not read between the loop "
                         "over the mandatory iterations and the optional ones")
        if h2 is not None:
            if b2 is None or not (h2 in hdom[b2] and b2 not in n2):
                probs.append("the second component (the maximum position) is not read after the loop over the optional iterations")
        elif b2 != p2:
            probs.append("the second component (the maximum position) is not the result of the helper that runs the optional iterations")
    if probs:
        r.fail(key, "; ".join(probs) + " (line %s): a greedy loop gives back characters below its minimum, a lazy one starts with zero "
                                      "iterations (`^\\w{6}\\d` matches \"abc123\")" % (tup["line"] if tup else "?"), facts.loc(hf))
    else:
        r.ok(key, "min position read between the two loops, max position after them")
    return r


# ---- L1RESET --------------------------------------------------------------------------------

def check_l1reset(facts):
    r = RuleResult("L1RESET", _text("L1RESET"))
    fn = "pikevm::try_match_state"
    if not facts.has_body(fn):
        r.error("anchor %s not found" % fn)
        return r
    b = facts.body(fn)
    cont = [l for l, d in enumerate(b.locals) if d.get("name") == "continuation" and d["ty"] == "usize"]
    # the Loop1CharBody continuation is the usize local `continuation` defined as loop_ip + 2
    cont_l = None
    for l in cont:
        for d in b.defs().get(l, []):
            if d[2] == "assign" and d[3]["rv"]["k"] == "bin" and d[3]["rv"]["op"].startswith("Add") and d[3]["rv"]["b"].get("int") == 2:
                cont_l = l
    if cont_l is None:
        r.error("cannot find the Loop1CharBody continuation (`loop_ip + 2`) in pikevm::try_match_state")
        return r

    def base_of(pl):
        return (pl["l"], tuple("*" if p == "*" else p.get("f", "?") for p in pl["p"][:-1]))
    stores_ip = []
    resets = []
    for bi, i, s in b.iter_stmts():
        if s["k"] != "assign":
            continue
        f = core.proj_fields(s["pl"])
        if f[-1:] == ["ip"] and s["rv"]["k"] == "use" and s["rv"]["op"]["k"] in ("copy", "move"):
            src = s["rv"]["op"]["pl"]
            if b.root_of(src["l"])[0] == cont_l or src["l"] == cont_l:
                stores_ip.append((bi, i, base_of(s["pl"]), s["line"]))
        if f[-1:] == ["loop1_iters"] and s["rv"]["k"] == "use" and s["rv"]["op"]["k"] == "const" and s["rv"]["op"].get("int") == 0:
            resets.append((bi, i, base_of(s["pl"])))
    for bi, i, base, line in stores_ip:
        key = "%s exit at line-order #%d" % (fn, stores_ip.index((bi, i, base, line)) + 1)
        ok = any(rb == base and (b.dominates((rbi, ri), (bi, i)) or b.postdominates((rbi, ri), (bi, i)) or rbi == bi)
                 for rbi, ri, rb in resets)
        if ok:
            r.ok(key, "loop1_iters reset on the state whose ip leaves the loop (line %s)" % line)
        else:
            r.fail(key, "a state leaves the Loop1CharBody loop (ip = continuation, line %s) without resetting loop1_iters: the next "
                        "single-char loop on that thread starts counting from the stale value" % line, facts.loc(fn, line))
    r.floor("loop_exits", len(stores_ip), 3)
    # L1COUNT: a state that takes an iteration (its `pos` becomes the position the one-character body reached, a value that comes
    # out of the Option the body's attempt produced) counts it: the same state's loop1_iters is stored as `<count> + 1`
    takes = []
    counts = []
    for bi, i, s in b.iter_stmts():
        if s["k"] != "assign":
            continue
        f = core.proj_fields(s["pl"])
        if f[-1:] == ["pos"] and s["rv"]["k"] == "use" and s["rv"]["op"].get("k") in ("copy", "move"):
            rt, pr = b.root_of(s["rv"]["op"]["pl"]["l"])
            if any(isinstance(x, dict) and x.get("as") == "Some" for x in pr):
                takes.append((bi, i, base_of(s["pl"]), s["line"]))
        if f[-1:] == ["loop1_iters"]:
            rv = s["rv"]
            if rv["k"] == "use" and rv["op"].get("k") in ("copy", "move") and not rv["op"]["pl"]["p"]:
                d = b.single_def(rv["op"]["pl"]["l"])
                if d and d[2] == "assign":
                    rv = d[3]["rv"]
            if rv["k"] in ("bin", "checked_bin") and str(rv.get("op", "")).startswith("Add") and 1 in (b.const_of_operand(rv["a"]), b.const_of_operand(rv["b"])):
                counts.append((bi, i, base_of(s["pl"])))
    for k, (bi, i, base, line) in enumerate(takes, 1):
        key = "%s iteration taken #%d is counted" % (fn, k)
        ok = any(cb == base and (cbi == bi or b.dominates((cbi, ci), (bi, i)) or b.postdominates((cbi, ci), (bi, i))) for cbi, ci, cb in counts)
        if ok:
            r.ok(key, "loop1_iters = count + 1 on the state that advances (line %s)" % line)
        else:
            r.fail(key, "a state takes an iteration of the one-character loop (its pos advances, line %s) without its loop1_iters being "
                        "stored as count + 1: that branch stops counting, so the loop's maximum is no longer enforced (`a??c` on \"aac\" "
                        "matches 0..3 in the PikeVM, 1..3 in the backtracker)" % line, facts.loc(fn, line))
    r.floor("iterations_taken", len(takes), 3)
    return r


# ---- COPYFID --------------------------------------------------------------------------------

def check_copyfid(facts):
    r = RuleResult("COPYFID", _text("COPYFID"))
    fn = "ir::Node::try_duplicate"
    if not facts.has_body(fn):
        r.error("anchor %s not found" % fn)
        return r
    b = facts.body(fn)
    vfields = {v["name"]: [f["name"] for f in v["fields"]] for v in facts.adts["ir::Node"]["variants"]}

    def sources(l, seen=None, depth=0):
        """(variant, field) places of *self that the value in local l derives from."""
        seen = seen if seen is not None else set()
        out = set()
        if l in seen or depth > 12:
            return out
        seen.add(l)
        for d in b.defs().get(l, []):
            ops = []
            if d[2] == "assign":
                rv = d[3]["rv"]
                for k in ("op", "a", "b"):
                    if isinstance(rv.get(k), dict):
                        ops.append(rv[k])
                ops.extend(rv.get("ops", []))
                if rv["k"] in ("ref", "rawptr", "discr"):
                    ops.append({"k": "copy", "pl": rv["pl"]})
            else:
                ops = list(d[3]["args"])
            for o in ops:
                if o.get("k") not in ("copy", "move"):
                    continue
                pl = o["pl"]
                downs = [p for p in pl["p"] if isinstance(p, dict) and "as" in p]
                flds = [p for p in pl["p"] if isinstance(p, dict) and "f" in p]
                if pl["l"] == 1 and downs and flds:
                    out.add((downs[0]["as"], flds[0]["f"]))
                else:
                    out |= sources(pl["l"], seen, depth + 1)
        return out
    n = 0
    for bi, i, s in b.iter_stmts():
        if s["k"] != "assign" or s["rv"]["k"] != "agg" or s["rv"].get("adt") != "ir::Node":
            continue
        v = s["rv"]["variant"]
        for fname, op in zip(s["rv"]["fields"], s["rv"]["ops"]):
            if op["k"] not in ("copy", "move"):
                n += 1
                r.fail("%s %s.%s" % (fn, v, fname), "field `%s` of the duplicated Node::%s is a constant instead of the original node's value: "
                       "the copy (an unrolled loop iteration) loses the flag/bound the original carries" % (fname, v), facts.loc(fn, s["line"]))
                continue
            n += 1
            src = sources(op["pl"]["l"])
            key = "%s %s.%s" % (fn, v, fname)
            if src == {(v, fname)}:
                r.ok(key)
            elif not src:
                r.fail(key, "field %s of the duplicated Node::%s does not derive from the original node" % (fname, v), facts.loc(fn, s["line"]))
            else:
                r.fail(key, "field `%s` of the duplicated Node::%s is built from %s of the original: the copy is not field-for-field "
                            "(swapped children / bounds change what the unrolled iterations match)" % (
                                fname, v, sorted("%s.%s" % x for x in src)), facts.loc(fn, s["line"]))
    r.floor("copied_fields", n, 12)
    return r


# ---- NARROWCAST -----------------------------------------------------------------------------

def check_narrowcast(facts):
    r = RuleResult("NARROWCAST", _text("NARROWCAST"))
    n = 0
    for fn in sorted(facts.body_names()):
        if not fn.startswith("parse::Parser"):
            continue
        b = facts.body(fn)
        lits = {t["dest"]["l"] for bb, t in b.iter_calls() if (t.get("callee") or "").endswith("try_consume_decimal_integer_literal")}
        if not lits:
            continue

        def from_literal(l, depth=0):
            if depth > 8:
                return False
            if l in lits:
                return True
            for d in b.defs().get(l, []):
                if d[2] == "assign":
                    rv = d[3]["rv"]
                    o = rv.get("op")
                    if rv["k"] == "use" and o and o["k"] in ("copy", "move") and from_literal(o["pl"]["l"], depth + 1):
                        return True
                else:
                    # Option::unwrap / expect of the literal
                    cal = (d[3].get("callee") or "")
                    if cal.endswith(("::unwrap", "::expect")) and d[3]["args"] and d[3]["args"][0]["k"] in ("copy", "move") \
                            and from_literal(d[3]["args"][0]["pl"]["l"], depth + 1):
                        return True
            return False
        for bi, i, s in b.iter_stmts():
            if s["k"] != "assign" or s["rv"]["k"] != "cast" or s["rv"]["ck"] != "IntToInt":
                continue
            if s["rv"]["from"] != "usize" or s["rv"]["to"] not in ("u32", "u16", "u8", "i32"):
                continue
            op = s["rv"]["op"]
            if op["k"] not in ("copy", "move") or not from_literal(op["pl"]["l"]):
                continue
            n += 1
            src = b.root_of(op["pl"]["l"])[0]
            key = "%s narrow %s->%s" % (fn, s["rv"]["from"], s["rv"]["to"])
            guarded = False
            for d in b.dom()[bi]:
                t = b.blocks[d]["t"]
                if t["k"] != "switch" or t["discr"]["k"] not in ("copy", "move"):
                    continue
                df = b.single_def(t["discr"]["pl"]["l"])
                if df and df[2] == "assign" and df[3]["rv"]["k"] == "bin" and df[3]["rv"]["op"] in ("Le", "Lt", "Ge", "Gt"):
                    for o in (df[3]["rv"]["a"], df[3]["rv"]["b"]):
                        if o["k"] in ("copy", "move") and (b.root_of(o["pl"]["l"])[0] == src or o["pl"]["l"] == src) \
                                and b.local_ty(o["pl"]["l"]) == "usize":
                            guarded = True
            if guarded:
                r.ok(key, "range-checked as usize before narrowing (line %s)" % s["line"])
            else:
                r.fail(key, "a decimal number from the pattern is narrowed with `as %s` before any range check on the full value: "
                            "multiples of 2^32 wrap to small numbers (e.g. \\\\4294967296 becomes group 0)" % s["rv"]["to"],
                       facts.loc(fn, s["line"]))
    r.floor("narrowing_casts", n, 2)
    return r


# ---- ASCIIFOLD ------------------------------------------------------------------------------

def check_asciifold(facts):
    r = RuleResult("ASCIIFOLD", _text("ASCIIFOLD"))
    fns = [n for n in facts.body_names() if n.startswith("<matchers::ASCIICharProperties as") and n.endswith("::fold")]
    if not fns:
        r.error("anchor ASCIICharProperties::fold not found")
        return r
    b = facts.body(fns[0])
    try:
        paths = symex.SymEx(b).run()
    except symex.Unsupported as e:
        r.fail("ASCIICharProperties::fold shape", "cannot summarise (%s)" % e, facts.loc(fns[0]))
        return r
    got = {}
    for p in paths:
        gs = symex.cguards(p)
        got[tuple(gs)] = symex.show(p.ret)
    want = {(("unicode", True),): "to_ascii_lowercase(c)", (("unicode", False),): "to_ascii_uppercase(c)"}
    # the non-ASCII siblings must go through fold_code_point(c, unicode) with the flag passed on
    for fn in [n for n in facts.body_names() if n.endswith("CharProperties>::fold") and "ASCIICharProperties" not in n]:
        fb = facts.body(fn)
        key = "%s delegates to unicode::fold_code_point(c, unicode)" % fn
        calls = [t for bb, t in fb.iter_calls() if (t.get("callee") or "").startswith("unicode::")]
        ok = len(calls) == 1 and calls[0]["callee"] == "unicode::fold_code_point" and len(calls[0]["args"]) == 2 \
            and calls[0]["args"][1].get("k") in ("copy", "move") and fb.root_of(calls[0]["args"][1]["pl"]["l"])[0] == 2
        if ok:
            r.ok(key)
        else:
            r.fail(key, "match-time folding ignores the regex's unicode flag (calls %s): backreferences under /i fold differently from "
                        "the UTF-8 executor and from compile-time expansion" % [c.get("callee") for c in calls], facts.loc(fn))
    if got == want:
        r.ok("ASCIICharProperties::fold == to_ascii_lowercase / to_ascii_uppercase", "%s" % got)
    else:
        r.fail("ASCIICharProperties::fold == to_ascii_lowercase / to_ascii_uppercase",
               "the ASCII fold is %s, expected exactly %s: ASCII and UTF-8 entry points would canonicalise differently" % (got, want),
               facts.loc(fns[0]))
    return r


# ---- UTF16BYTES -----------------------------------------------------------------------------

def _byte_node_constructions(facts):
    out = []
    for fn in sorted(facts.body_names()):
        b = facts.body(fn)
        for bi, i, s in b.iter_stmts():
            if s["k"] == "assign" and s["rv"]["k"] == "agg" and s["rv"].get("adt") == "ir::Node" \
                    and s["rv"]["variant"] in ("ByteSequence", "ByteSet"):
                # a field-wise copy of an existing node of the same variant is not a new construction
                op = s["rv"]["ops"][0]
                copy = False
                if op["k"] in ("copy", "move"):
                    l = op["pl"]["l"]
                    seen = set()
                    work = [l]
                    while work:
                        x = work.pop()
                        if x in seen:
                            continue
                        seen.add(x)
                        for d in b.defs().get(x, []):
                            ops = []
                            if d[2] == "assign":
                                rv = d[3]["rv"]
                                for k in ("op",):
                                    if isinstance(rv.get(k), dict):
                                        ops.append(rv[k])
                                if rv["k"] == "ref":
                                    ops.append({"k": "copy", "pl": rv["pl"]})
                            else:
                                ops = list(d[3]["args"])
                            for o in ops:
                                if o.get("k") in ("copy", "move"):
                                    if any(isinstance(p, dict) and p.get("as") == s["rv"]["variant"] for p in o["pl"]["p"]) \
                                            and "ir::Node" in b.local_ty(o["pl"]["l"]):
                                        copy = True
                                    work.append(o["pl"]["l"])
                if not copy:
                    out.append((fn, s["rv"]["variant"], s.get("line")))
    return out


def check_utf16bytes(allfacts):
    r = RuleResult("UTF16BYTES", "with the utf16 feature no ir::Node::ByteSequence / ByteSet is ever constructed (copies of an existing node of "
                                 "the same variant aside), so no byte-level instruction is emitted and the byte-level InputIndexer methods of "
                                 "Utf16Input/Ucs2Input, which panic, are unreachable; positive control: the default configuration constructs them")
    u = _byte_node_constructions(allfacts["utf16"])
    d = _byte_node_constructions(allfacts["default"])
    for fn, v, line in u:
        r.fail("[utf16] %s constructs Node::%s" % (fn, v), "a byte-level node is built in a utf16 build (line %s): matching it against u16 input "
               "reaches a panicking byte accessor" % line, allfacts["utf16"].loc(fn, line))
    if not u:
        r.ok("[utf16] no construction of Node::ByteSequence / Node::ByteSet")
    if len(d) >= 3:
        r.ok("[default] positive control: %d constructions seen" % len(d), nontrivial=False)
        r.sample({"default_constructions": [(a.split("::")[-1], v) for a, v, _ in d]})
    else:
        r.error("positive control failed: only %d byte-node constructions found in the default configuration" % len(d))
    # scm::MatchByteSet keeps a non-byte branch for u16 inputs
    fn = [n for n in allfacts["utf16"].body_names() if n.startswith("<scm::MatchByteSet<") and n.endswith("::matches")]
    if fn:
        b = allfacts["utf16"].body(fn[0])
        calls = {(t.get("callee") or "").split("::")[-1] for _, t in b.iter_calls()}
        if "next" in calls and "next_byte" in calls:
            r.ok("scm::MatchByteSet::matches decodes a full element when code units are not bytes")
        else:
            r.fail("scm::MatchByteSet::matches non-byte branch", "AsciiBracket matching no longer has a branch for non-byte inputs", allfacts["utf16"].loc(fn[0]))
    return r


# ---- CHARSETPAD -----------------------------------------------------------------------------

def check_charsetpad(facts):
    r = RuleResult("CHARSETPAD", "Insn::CharSet holds a fixed array that both executors compare slot by slot: the array the emitter builds "
                                 "must be padded with a member of the set (a repeat of an element read from the CharSet node), never with a "
                                 "constant, which would add a spurious member")
    fn = "emit::Emitter::emit_node"
    if not facts.has_body(fn):
        r.error("anchor %s not found" % fn)
        return r
    b = facts.body(fn)
    n = 0
    for bi, i, s in b.iter_stmts():
        if s["k"] == "assign" and s["rv"]["k"] == "repeat" and re.match(r"\[u32; \d+\]", s["pl"].get("ty", "") or b.local_ty(s["pl"]["l"])):
            n += 1
            op = s["rv"]["op"]
            ok = False
            if op["k"] in ("copy", "move"):
                l = op["pl"]["l"]
                for _ in range(6):
                    d = b.single_def(l)
                    if not d:
                        break
                    if d[2] == "assign" and d[3]["rv"]["k"] == "use" and d[3]["rv"]["op"]["k"] in ("copy", "move"):
                        pl = d[3]["rv"]["op"]["pl"]
                        if any(isinstance(p, dict) and ("idx" in p or "cidx" in p) for p in pl["p"]):
                            rt, pr = b.root_of(pl["l"])
                            if any(isinstance(p, dict) and p.get("as") == "CharSet" for p in pr + pl["p"]):
                                ok = True
                            break
                        l = pl["l"]
                    elif d[2] == "call" and (d[3].get("callee") or "").endswith(("Index::index", "::get_unchecked")):
                        a0 = d[3]["args"][0]
                        rt, pr = b.root_of(a0["pl"]["l"]) if a0["k"] in ("copy", "move") else (None, [])
                        ok = any(isinstance(p, dict) and p.get("as") == "CharSet" for p in pr)
                        # deref of the returned reference
                        break
                    elif d[2] == "assign" and d[3]["rv"]["k"] == "use":
                        break
                    else:
                        break
            key = "%s CharSet padding" % fn
            if ok:
                r.ok(key, "padded with an element of the set")
            else:
                r.fail(key, "the Insn::CharSet array is padded with %s instead of a member of the set: sets with fewer members than slots "
                            "also match that value" % (("the constant %s" % op.get("int")) if op["k"] == "const" else "an unrelated value"),
                       facts.loc(fn, s["line"]))
    r.floor("charset_arrays", n, 1)
    return r


# ---- CROSSMEMB ------------------------------------------------------------------------------

def check_crossmemb(facts):
    r = RuleResult("CROSSMEMB", "in ClassSet::intersect_operand / subtract_operand the single-character strings of one operand are compared "
                                "with the code points of the *other* operand: inside every loop over X.alternatives the receiver of "
                                "CodePointSet::contains is rooted at an operand different from X (testing X against itself makes `&&` / `--` "
                                "ignore the other side)")
    from .lbseq import natural_loops
    n = 0
    for fn in ("parse::ClassSet::intersect_operand", "parse::ClassSet::subtract_operand"):
        if not facts.has_body(fn):
            r.error("anchor %s not found" % fn)
            continue
        b = facts.body(fn)
        loops = natural_loops(b)

        def operand_root(op):
            if op.get("k") not in ("copy", "move"):
                return None
            rt, pr = b.root_of(op["pl"]["l"])
            return b.local_name(rt) or rt
        for header, nodes in sorted(loops.items()):
            # the loop's iterator
            it_root = None
            for x in nodes:
                t = b.blocks[x]["t"]
                if t["k"] == "call" and (t.get("callee") or "").endswith("Iterator::next") and t["args"]:
                    itl = b.root_of(t["args"][0]["pl"]["l"])[0]
                    for d in b.defs().get(itl, []):
                        src = d[3]
                        if d[2] == "assign" and src["rv"]["k"] == "use" and src["rv"]["op"]["k"] in ("copy", "move"):
                            dd = b.single_def(src["rv"]["op"]["pl"]["l"])
                            src = dd[3] if dd and dd[2] == "call" else None
                            d = dd
                        if d and d[2] == "call" and (d[3].get("callee") or "").endswith(("into_iter", "::iter")) and d[3]["args"]:
                            it_root = operand_root(d[3]["args"][0])
            if it_root is None:
                continue
            for x in sorted(nodes):
                t = b.blocks[x]["t"]
                if t["k"] == "call" and (t.get("callee") or "").endswith("CodePointSet::contains"):
                    n += 1
                    recv = operand_root(t["args"][0])
                    key = "%s loop over %s.alternatives tests %s" % (fn, it_root, recv)
                    if recv is not None and recv != it_root:
                        r.ok(key)
                    else:
                        r.fail(key, "a string taken from `%s` is tested against the code points of `%s` itself (line %s): the result of the "
                                    "class-set operation ignores the other operand" % (it_root, recv, t.get("line")), facts.loc(fn, t.get("line")))
    r.floor("membership_tests", n, 6)
    return r


# ---- LENARMS / ASCIIBITMAP ------------------------------------------------------------------

def check_lenarms(facts):
    """Every `match xs.len()` whose arms mention MAX_CHAR_SET_LENGTH covers 1..=MAX before its panic arm."""
    from . import hirutil as H
    r = RuleResult("LENARMS", "a case-fold class has between 1 and MAX_CHAR_SET_LENGTH members (TABLES checks the upper bound): every "
                              "`match <class>.len()` whose catch-all arm panics must accept every length in 1..=MAX_CHAR_SET_LENGTH — "
                              "an exclusive range or a smaller bound turns a legal class into a compile-time panic; the sibling copies "
                              "(parser, literal lowering, utf16 emitter) must agree")
    maxv = (facts.consts.get("insn::MAX_CHAR_SET_LENGTH") or {}).get("int") or (facts.consts.get("insn::MAX_CHAR_SET_LENGTH") or {}).get("eval")
    if not maxv:
        r.error("insn::MAX_CHAR_SET_LENGTH not found")
        return r
    n = 0
    for fn, h in sorted(facts.hir.items()):
        for m in H.find_matches(h["body"], r"^usize$"):
            sc = m["scrut"]
            if not (sc.get("k") == "mcall" and sc.get("name") == "len"):
                continue
            arms = m["arms"]
            # only matches whose last arm panics
            last = arms[-1]
            txt = str(H.calls_in(last["body"])) + str(H.ctor_paths(last["body"]))
            if "panic" not in txt:
                continue
            uses_max = "MAX_CHAR_SET_LENGTH" in str(m)
            if not uses_max:
                continue
            n += 1
            covered = set()
            for a in arms[:-1]:
                p = a["pat"]
                for x in (p["pats"] if p["k"] == "or" else [p]):
                    if x.get("k") == "lit":
                        covered.add(x["v"])
                    elif x.get("k") == "range":
                        lo = (x.get("lo") or {}).get("v")
                        hi = x.get("hi") or {}
                        hv = hi.get("v")
                        if hv is None and "MAX_CHAR_SET_LENGTH" in str(hi):
                            hv = maxv
                        if lo is not None and hv is not None:
                            covered |= set(range(lo, hv + (1 if x.get("incl") else 0)))
            # arms that panic explicitly for a literal (e.g. `0 => panic!`) do not count as covered
            for a in arms[:-1]:
                if "panic" in (str(H.calls_in(a["body"])) + str(H.ctor_paths(a["body"]))):
                    p = a["pat"]
                    for x in (p["pats"] if p["k"] == "or" else [p]):
                        if x.get("k") == "lit":
                            covered.discard(x["v"])
            want = set(range(1, maxv + 1))
            key = "%s match on len()" % fn
            if want <= covered:
                r.ok(key, "accepts 1..=%d" % maxv)
            else:
                r.fail(key, "lengths %s fall into the panicking arm although a case-fold class may have up to %d members: compiling such a "
                            "character under /i panics instead of returning" % (sorted(want - covered), maxv), facts.loc(fn, m["arms"][0]["line"]))
    r.floor("len_matches", n, 2)
    return r


def check_asciibitmap(facts):
    r = RuleResult("ASCIIBITMAP", "emit::bracket_as_ascii only sets bits below the capacity of AsciiBitmap (8 x its byte array): the early "
                                  "return that rejects non-ASCII intervals must bound `last` by capacity - 1")
    a = facts.adts.get("bytesearch::AsciiBitmap")
    if not a:
        r.error("bytesearch::AsciiBitmap not found")
        return r
    m = re.search(r"\[u8; (\d+)\]", a["variants"][0]["fields"][0]["ty"])
    if not m:
        r.error("AsciiBitmap is not a byte array")
        return r
    cap = int(m.group(1)) * 8
    fn = "emit::bracket_as_ascii"
    if not facts.has_body(fn):
        r.error("anchor %s not found" % fn)
        return r
    b = facts.body(fn)
    sets = [bb for bb, t in b.iter_calls() if (t.get("callee") or "").endswith("AsciiBitmap::set")]
    if not sets:
        r.error("bracket_as_ascii no longer calls AsciiBitmap::set")
        return r
    bound = None
    for bb in sets:
        for d in b.dom()[bb]:
            t = b.blocks[d]["t"]
            if t["k"] != "switch" or t["discr"]["k"] not in ("copy", "move"):
                continue
            df = b.single_def(t["discr"]["pl"]["l"])
            if not (df and df[2] == "assign" and df[3]["rv"]["k"] == "bin" and df[3]["rv"]["op"] in ("Ge", "Gt", "Lt", "Le")):
                continue
            op, x, y = df[3]["rv"]["op"], df[3]["rv"]["a"], df[3]["rv"]["b"]
            def reads_last(o, depth=0):
                if o["k"] not in ("copy", "move") or depth > 3:
                    return False
                if core.proj_fields(o["pl"])[-1:] == ["last"]:
                    return True
                dd = b.single_def(o["pl"]["l"]) if not o["pl"]["p"] else None
                return bool(dd and dd[2] == "assign" and dd[3]["rv"]["k"] in ("use", "cast") and reads_last(dd[3]["rv"]["op"], depth + 1))
            if y["k"] == "const" and reads_last(x):
                k = y.get("int")
                # which edge reaches the set call?
                false_edge = [tg for v, tg in t["targets"] if v == 0]
                on_false = bool(false_edge) and bb in b.reach_from(false_edge[0]) and bb not in b.reach_from(t["otherwise"])
                if op == "Ge" and on_false:
                    bound = k - 1
                elif op == "Gt" and on_false:
                    bound = k
                elif op == "Lt" and not on_false:
                    bound = k - 1
                elif op == "Le" and not on_false:
                    bound = k
    key = "%s sets only bits < %d" % (fn, cap)
    if bound is None:
        r.fail(key, "no guard on the interval's `last` dominates AsciiBitmap::set", facts.loc(fn))
    elif bound <= cap - 1:
        r.ok(key, "`last` <= %d on the path to set()" % bound)
    else:
        r.fail(key, "the guard lets `last` reach %d but the bitmap has %d bits: set(%d) indexes past the array (panic while compiling)" % (
            bound, cap, bound), facts.loc(fn))
    return r


# ---- ASCIIGUARD -----------------------------------------------------------------------------

def check_asciiguard(facts):
    r = RuleResult("ASCIIGUARD", "a set of code points is lowered to a raw *byte* set (Node::ByteSet / Piece::ByteSet, built with `c as u8`) only "
                                 "under an `all(|c| c <= 0x7F)` test: a byte >= 0x80 in a byte set matches UTF-8 continuation / lead bytes and "
                                 "lands the cursor inside a character")
    n = 0
    for fn in sorted(facts.body_names()):
        if "{closure" in fn:
            continue
        b = facts.body(fn)
        builds = []
        for bi, i, s in b.iter_stmts():
            if s["k"] == "assign" and s["rv"]["k"] == "agg" and s["rv"].get("variant") == "ByteSet" \
                    and s["rv"].get("adt") in ("ir::Node", "literal::Piece"):
                builds.append((bi, s))
        if not builds:
            continue
        for bi, s in builds:
            # the vector must come from a u32 -> u8 narrowing map, i.e. a fresh lowering (not a copy of an existing ByteSet)
            op = s["rv"]["ops"][0]
            d = b.single_def(op["pl"]["l"]) if op["k"] in ("copy", "move") else None
            if not (d and d[2] == "call" and (d[3].get("callee") or "").endswith("collect")):
                continue
            n += 1
            key = "%s lowers to ByteSet" % fn
            # dominating `all(...)` call whose closure compares with a constant
            ok = None
            for dd in b.dom()[bi]:
                t = b.blocks[dd]["t"]
                if t["k"] == "call" and (t.get("callee") or "").endswith("Iterator::all"):
                    cl = t["args"][1]
                    cd = b.single_def(cl["pl"]["l"]) if cl["k"] in ("copy", "move") else None
                    if cd and cd[2] == "assign" and cd[3]["rv"]["k"] == "agg" and cd[3]["rv"].get("ak") == "closure":
                        cb = facts.body(cd[3]["rv"]["def"]) if facts.has_body(cd[3]["rv"]["def"]) else None
                        if cb:
                            for ci, cj, cs in cb.iter_stmts():
                                if cs["k"] == "assign" and cs["rv"]["k"] == "bin" and cs["rv"]["op"] in ("Le", "Lt"):
                                    k = cs["rv"]["b"].get("int")
                                    if k is not None:
                                        lim = k if cs["rv"]["op"] == "Le" else k - 1
                                        ok = lim
            if ok is None:
                r.fail(key, "no `all(|c| c <= 0x7F)` test dominates the construction of the byte set", facts.loc(fn, s["line"]))
            elif ok <= 0x7F:
                r.ok(key, "guarded by all(c <= %#x)" % ok)
            else:
                r.fail(key, "the ASCII test admits code points up to %#x: bytes >= 0x80 in a raw byte set match inside multi-byte characters" % ok,
                       facts.loc(fn, s["line"]))
    r.floor("byte_set_lowerings", n, 2)
    return r


# ---- KEEPLIVE -------------------------------------------------------------------------------

def _arm_access(s):
    """The place `(*arm)..` a statement takes a mutable reference to, or copies the box pointer out of (both are how the
    surviving arm of an Alt is reached: `&mut *right`, `mem::swap(.., &mut *right)`, `let survivor: &mut Node = right`)."""
    if s["k"] != "assign":
        return None
    rv = s["rv"]
    pl = None
    if rv["k"] == "ref" and rv.get("m") == "mut":
        pl = rv["pl"]
    elif rv["k"] == "use" and rv["op"].get("k") in ("copy", "move"):
        pl = rv["op"]["pl"]
    if pl is not None and pl["p"][:1] == ["*"]:
        return pl
    return None


def check_keeplive(facts):
    r = RuleResult("KEEPLIVE", "optimizer::propagate_early_fails: where one arm of an Alt is selected by a branch on `X.match_always_fails()`, "
                               "the arm kept on the true edge is never X itself and the arm kept on the false edge is X (the surviving arm "
                               "replaces the alternation; keeping the dead one makes the whole alternation unmatchable)")
    fn = "optimizer::propagate_early_fails"
    if not facts.has_body(fn):
        r.error("anchor %s not found" % fn)
        return r
    b = facts.body(fn)
    flags = {}
    for l, d in enumerate(b.locals):
        df = b.single_def(l)
        if d.get("name") and df and df[2] == "call" and (df[3].get("callee") or "") == "ir::Node::match_always_fails":
            a0 = df[3]["args"][0]
            if a0["k"] in ("copy", "move"):
                # the binding the receiver derives from
                cur = a0["pl"]["l"]
                src = None
                for _ in range(10):
                    if b.local_name(cur):
                        src = cur
                        break
                    dd = b.single_def(cur)
                    if not dd or dd[2] != "assign":
                        break
                    rv = dd[3]["rv"]
                    nxt = rv.get("pl") if rv["k"] == "ref" else (rv.get("op") or {}).get("pl")
                    if not nxt:
                        break
                    cur = nxt["l"]
                if src is not None:
                    flags[l] = src
    n = 0
    arms = {v for v in flags.values()}
    arm_flag = {}
    for fl, arm in flags.items():
        arm_flag.setdefault(arm, set()).add(fl)

    def flag_of_discr(d):
        """the match_always_fails() flag local a switch discriminant stands for (directly, through copies, or as a field of a tuple
        built from the flags: `match (left_fails, right_fails)`)"""
        if d.get("k") not in ("copy", "move"):
            return None
        l = d["pl"]["l"]
        proj = d["pl"]["p"]
        for _ in range(6):
            if l in flags and not proj:
                return l
            d0 = b.single_def(l)
            if not d0 or d0[2] != "assign":
                return None
            rv = d0[3]["rv"]
            if proj and rv["k"] == "agg" and rv.get("ak") == "tuple" and len(proj) == 1 and isinstance(proj[0], dict) \
                    and str(proj[0].get("f", "")).isdigit():
                op_ = rv["ops"][int(proj[0]["f"])]
                if op_.get("k") not in ("copy", "move"):
                    return None
                l, proj = op_["pl"]["l"], op_["pl"]["p"]
                continue
            if not proj and rv["k"] == "use" and rv["op"].get("k") in ("copy", "move"):
                l, proj = rv["op"]["pl"]["l"], rv["op"]["pl"]["p"]
                continue
            return None
        return None
    # the flags are booleans computed once: enumerate their values and follow only the consistent edge of every test on them
    flag_switch = {}
    for bb in sorted(b.reachable()):
        t = b.blocks[bb]["t"]
        if t["k"] != "switch":
            continue
        fl = flag_of_discr(t["discr"])
        if fl is not None:
            f_edge = [tg for v, tg in t["targets"] if v == 0]
            flag_switch[bb] = (fl, t["otherwise"], f_edge[0] if f_edge else None)
    flag_blocks = [b.single_def(l)[0] for l in flags]
    dom = b.dom()
    succ = b.succ()
    fl_list = sorted(flags)

    def reach_under(vals):
        seen, stack = set(), [0]
        while stack:
            x = stack.pop()
            if x in seen:
                continue
            seen.add(x)
            if x in flag_switch:
                fl, te, fe = flag_switch[x]
                nxt = [te] if vals[fl] else ([fe] if fe is not None else [])
            else:
                nxt = succ.get(x, [])
            stack.extend(nxt)
        return seen
    import itertools
    reach_by = {}
    for combo in itertools.product([False, True], repeat=len(fl_list)):
        vals = dict(zip(fl_list, combo))
        reach_by[combo] = (vals, reach_under(vals))
    seen_sites = set()
    for bi, i, st in b.iter_stmts():
        apl = _arm_access(st)
        if apl is None or apl["l"] not in arms:
            continue
        if bi in flag_blocks or not all(fb in dom[bi] for fb in flag_blocks):
            continue  # receivers of the match_always_fails() calls themselves
        if st["rv"]["k"] == "ref" and st["rv"].get("m") != "mut":
            continue
        X = apl["l"]
        if (bi, X) in seen_sites:
            continue
        seen_sites.add((bi, X))
        n += 1
        key = "%s keeps `%s` only where it can match" % (fn, b.local_name(X))
        if not flag_switch:
            r.fail(key, "the arm `%s` is taken (line %s) although no test of match_always_fails() separates the cases: the arm that can never "
                        "match may be kept" % (b.local_name(X), st["line"]), facts.loc(fn, st["line"]))
            continue
        bad = [vals for vals, reach in reach_by.values() if bi in reach and any(vals[fl] for fl in arm_flag.get(X, ()))]
        if bad:
            r.fail(key, "an arm of the alternation (`%s`) is taken at line %s in a case where %s.match_always_fails() is true (%s): the arm "
                        "that can never match is kept and the alternation becomes unmatchable" % (
                            b.local_name(X), st["line"], b.local_name(X),
                            ", ".join("%s=%s" % (b.local_name(k) or k, v) for k, v in sorted(bad[0].items()))), facts.loc(fn, st["line"]))
        else:
            r.ok(key, "line %s is only reached when %s does not always fail" % (st["line"], b.local_name(X)))
            r.sample({"function": fn, "arm": b.local_name(X), "line": st["line"]})
    r.floor("arm_selections", n, 1)
    return r


# ---- CASESRC --------------------------------------------------------------------------------

CASESRC_BUILDERS = {
    "ir::Node::make_always_fails": "the empty set (matches nothing)",
    "optimizer::try_reduce_bracket": "members are the code points of a bracket whose intervals were already case-closed by "
                                     "unicode::add_icase_code_points when the class was parsed",
}


def check_casesrc(facts):
    from . import backref
    r = RuleResult("CASESRC", "a CharSet (ir::Node::CharSet / literal::Piece::CharSet) is the case-fold class of one code point: every site "
                              "that constructs one takes its members from unicode::expand_code_point (the fold tables TABLES checks), copies an "
                              "existing CharSet, or is one of two reviewed builders (the empty set; a small bracket that was case-closed when "
                              "parsed). Members computed any other way (ASCII arithmetic, literals) bypass the tables: U+212A/U+017F drop out of "
                              "k/s under `iu` and the relation stops being symmetric. Likewise the parser builds an `ir::Node::Char` only "
                              "inside its case-aware constructor (the function that consults expand_code_point under `i`), so no spelling "
                              "of a literal (`\\101`) skips the case expansion")
    n = 0
    ntab = 0
    for fn in sorted(facts.body_names()):
        b = facts.body(fn)
        for bi, i, s in b.iter_stmts():
            if s["k"] != "assign" or s["rv"]["k"] != "agg":
                continue
            a = s["rv"]
            if a.get("variant") != "CharSet" or a.get("adt") not in ("ir::Node", "literal::Piece"):
                continue
            ops = a.get("ops") or []
            if not ops or ops[0].get("k") not in ("copy", "move"):
                r.fail("%s CharSet members" % fn, "CharSet built from a constant operand", facts.loc(fn, s["line"]))
                continue
            n += 1
            root, proj = b.root_of(ops[0]["pl"]["l"])
            srcs = backref.value_sources(b, root)
            key = "%s %s::CharSet members" % (fn, a["adt"].split("::")[-1])
            bad = []
            for src in srcs:
                if src == ("call", "unicode::expand_code_point"):
                    ntab += 1
                    continue
                if src == ("call", "std::clone::Clone::clone"):
                    continue
                if src[0] == "param" and any(isinstance(p, dict) and p.get("as") == "CharSet" for p in proj):
                    continue
                if src[0] == "call" and src[1].startswith("std::vec::Vec::<T>::new") and facts.owner_of(fn) in CASESRC_BUILDERS:
                    continue
                bad.append(src)
            if bad:
                r.fail(key, "the members of this CharSet do not come from the fold tables (unicode::expand_code_point) or an existing CharSet "
                            "but from %s" % sorted("/".join(x) for x in bad), facts.loc(fn, s["line"]))
            else:
                r.ok(key, "members from %s" % sorted("/".join(x) for x in srcs))
                r.sample({"function": fn, "line": s["line"], "sources": sorted("/".join(x) for x in srcs)})
    r.floor("charset_constructions", n, 6)
    r.floor("constructions_from_expand_code_point", ntab, 1)
    # the parser builds a literal character only through its case-aware constructor (the function that consults
    # expand_code_point under `i`): an `ir::Node::Char` assembled directly in another parser routine skips the case expansion for
    # that one spelling of the character (`\101` vs `A`)
    aware = set()
    nchar = 0
    for fn in sorted(facts.body_names()):
        if fn.startswith("parse::") and any((t.get("callee") or "").endswith("unicode::expand_code_point") for _, t in facts.body(fn).iter_calls()):
            aware.add(re.sub(r"::\{closure#\d+\}", "", fn))
    for fn in sorted(facts.body_names()):
        if not fn.startswith("parse::"):
            continue
        b = facts.body(fn)
        base = re.sub(r"::\{closure#\d+\}", "", fn)
        k = 0
        for bi, i, s_ in b.iter_stmts():
            if s_["k"] != "assign" or s_["rv"]["k"] != "agg" or not str(s_["rv"].get("adt", "")).endswith("ir::Node") or str(s_["rv"].get("variant")) != "Char":
                continue
            nchar += 1
            k += 1
            key = "%s builds Node::Char #%d" % (base, k)
            if base in aware or facts.owner_of(base) in aware:
                r.ok(key, "inside the case-aware constructor")
            else:
                r.fail(key, "a literal character node is built directly (line %s) instead of through the parser's case-aware constructor "
                            "(%s): under `/i` this spelling of the character is not case-expanded while every other spelling is" % (
                                s_["line"], ", ".join(sorted(x.split("::")[-1] for x in aware)) or "none found"), facts.loc(fn, s_["line"]))
    r.floor("parser_char_nodes", nchar, 2)
    return r


# ---- KEEPCLEAN ------------------------------------------------------------------------------

def check_keepclean(facts):
    r = RuleResult("KEEPCLEAN", "an optimizer pass (fn(&mut Node, &Walk) -> PassAction) that answers PassAction::Keep has not overwritten part of "
                                "its node: no direct store through the node reference (or a `&mut` borrowed from it), and no mem::take/replace/"
                                "swap on such a place, reaches a `Keep` return. (Mutating calls whose effect the pass then measures — `retain` "
                                "followed by a length comparison, a `modified` flag — are not stores and are left to the pass.) A bookkeeping "
                                "write hoisted above a bail-out leaves x{n,m} rewritten to x{0,m-n} with nothing unrolled")
    passes = [n for n, fn in facts.fns.items() if fn.get("output") == "optimizer::PassAction" and facts.has_body(n) and "{closure" not in n]
    nw = 0
    for fn in sorted(passes):
        b = facts.body(fn)
        node_params = [l for l in range(1, b.argc + 1) if b.local_ty(l).replace(" ", "") in ("&mutir::Node",)]
        if not node_params:
            continue
        derived = set(node_params)
        changed = True
        while changed:
            changed = False
            for l, ds in b.defs().items():
                if l in derived:
                    continue
                for d in ds:
                    if d[2] != "assign":
                        continue
                    rv = d[3]["rv"]
                    src = None
                    if rv["k"] == "ref" and rv.get("m") == "mut":
                        src = rv["pl"]["l"]
                    elif rv["k"] == "use" and rv["op"].get("k") in ("copy", "move") and b.local_ty(l).startswith("&mut"):
                        src = rv["op"]["pl"]["l"]
                    if src in derived:
                        derived.add(l)
                        changed = True
        writes = []
        for bi, i, s in b.iter_stmts():
            if s["k"] == "assign" and "*" in s["pl"]["p"] and s["pl"]["l"] in derived:
                writes.append((bi, s["line"], "store to %s" % core.place_str(s["pl"], b)))
        for bb, t in b.iter_calls():
            cal = t.get("callee") or ""
            if cal in ("std::mem::take", "std::mem::replace", "std::mem::swap"):
                for a in t["args"]:
                    if a.get("k") in ("copy", "move") and a["pl"]["l"] in derived:
                        writes.append((bb, t.get("line"), cal.split("::")[-1] + " on the node"))
        keeps = [(bi, s["line"]) for bi, i, s in b.iter_stmts() if s["k"] == "assign" and s["pl"]["l"] == 0 and s["rv"]["k"] == "agg"
                 and s["rv"].get("variant") == "Keep"]
        nw += len(writes)
        bad = []
        for wb, line, what in writes:
            reach = b.reach_from(wb)
            for kb, kline in keeps:
                if kb in reach and kb != wb:
                    bad.append((line, what, kline))
        key = "%s writes never reach Keep" % fn
        if bad:
            line, what, kline = sorted(bad)[0]
            r.fail(key, "%s (line %s) can be followed by `return PassAction::Keep` (line %s): the pass reports the node as untouched after "
                        "having rewritten part of it" % (what, line, kline), facts.loc(fn, line))
        else:
            r.ok(key, "%d stores, %d Keep returns" % (len(writes), len(keeps)))
            r.sample({"function": fn, "stores": len(writes), "keep_returns": len(keeps)})
    r.floor("optimizer_passes", len(passes), 6)
    r.floor("node_stores", nw, 5)
    return r


# ---- LOOPBOUNDS -----------------------------------------------------------------------------

def check_loopbounds(facts):
    r = RuleResult("LOOPBOUNDS", "both interpreters decide `may iterate again` / `may leave the loop` by comparing the iteration counter with the "
                                 "quantifier's bounds. Every comparison one of whose operands is a plain load of `min_iters` / `max_iters` (or the "
                                 "min/max parameters of the single-char loop helpers) compares it with a plain load of the counter or a constant: "
                                 "no `+ 1` / `- 1` on either side. An offset in one interpreter only (`iters + 1 >= min_iters`) lets it leave a "
                                 "loop one iteration early, and nothing in the other interpreter changes")
    BOUNDS = ("min_iters", "max_iters")

    def describe(b, op, depth=0):
        """('load', field) | ('param', name) | ('const', v) | ('arith', text) | ('other', text)"""
        if op.get("k") == "const":
            return ("const", op.get("int"))
        pl = op["pl"]
        flds = core.proj_fields(pl)
        if flds:
            return ("load", flds[-1])
        l = pl["l"]
        if 1 <= l <= b.argc:
            return ("param", b.local_name(l))
        ds = b.defs().get(l, [])
        if len(ds) == 1 and ds[0][2] == "assign" and depth < 6:
            rv = ds[0][3]["rv"]
            if rv["k"] == "use":
                return describe(b, rv["op"], depth + 1)
            if rv["k"] in ("bin", "checked_bin"):
                return ("arith", "%s(%s, %s)" % (rv["op"], describe(b, rv["a"], depth + 1)[1], describe(b, rv["b"], depth + 1)[1]))
            if rv["k"] == "cast":
                return describe(b, rv["op"], depth + 1)
            return ("other", rv["k"])
        return ("other", b.local_name(l) or "_%d" % l)
    n = 0
    for fn in sorted(facts.body_names()):
        if not (fn.startswith("classicalbacktrack::") or fn.startswith("pikevm::")):
            continue
        b = facts.body(fn)
        params = {b.local_name(l) for l in range(1, b.argc + 1)}
        k = 0
        for bi, i, s in b.iter_stmts():
            if s["k"] != "assign" or s["rv"]["k"] != "bin" or s["rv"]["op"] not in ("Lt", "Le", "Gt", "Ge", "Eq", "Ne"):
                continue
            da, db = describe(b, s["rv"]["a"]), describe(b, s["rv"]["b"])

            def is_bound(d):
                return (d[0] == "load" and d[1] in BOUNDS) or (d[0] == "param" and d[1] in ("min", "max") and "scm" in fn)

            def mentions_bound(d):
                return d[0] == "arith" and any(x in str(d[1]) for x in BOUNDS)
            if not (is_bound(da) or is_bound(db) or mentions_bound(da) or mentions_bound(db)):
                continue
            n += 1
            k += 1
            key = "%s bound test #%d" % (re.sub(r"::\{closure#\d+\}", "", fn), k)
            bad = [d for d in (da, db) if d[0] in ("arith", "other")]
            if bad:
                r.fail(key, "the iteration-bound test at line %s compares %s with %s: an offset / computed operand in a bound test moves the "
                            "loop's minimum or maximum by one in this interpreter only" % (s["line"], da[1], db[1]), facts.loc(fn, s["line"]))
            else:
                r.ok(key, "%s %s %s" % (da[1], s["rv"]["op"], db[1]))
                r.sample({"function": fn, "line": s["line"], "lhs": str(da[1]), "op": s["rv"]["op"], "rhs": str(db[1])})
    r.floor("bound_tests", n, 10)
    return r


# ---- CLOSEDIV -------------------------------------------------------------------------------

def check_closediv(facts):
    r = RuleResult("CLOSEDIV", "code point intervals are closed ([first, last], both included). Wherever the `first` of one interval is compared "
                               "with the `last` of another (set algebra in codepointset.rs, case closure in unicode.rs, class parsing), the test "
                               "is, in canonical form, `B.last < A.first` (A lies wholly after B; optionally `B.last + 1 < A.first` for "
                               "non-adjacency) or its negation. The other orientation — `A.first < B.last` / `A.first >= B.last` — treats two "
                               "intervals that share exactly one code point as disjoint: an intersection or difference loses that code point")

    def side(b, op, depth=0):
        """(base local, 'first'|'last', offset?) for a plain load of an interval bound, else None"""
        if op.get("k") not in ("copy", "move"):
            return None
        fl = core.proj_fields(op["pl"])
        if fl and fl[-1] in ("first", "last"):
            return (b.root_of(op["pl"]["l"])[0], fl[-1], 0)
        if fl:
            return None
        d = b.single_def(op["pl"]["l"])
        if d and d[2] == "assign" and depth < 4:
            rv = d[3]["rv"]
            if rv["k"] == "use":
                return side(b, rv["op"], depth + 1)
            if rv["k"] in ("bin", "checked_bin") and rv["op"].startswith(("Add", "Sub")) and b.const_of_operand(rv["b"]) == 1:
                x = side(b, rv["a"], depth + 1)
                if x:
                    return (x[0], x[1], 1 if rv["op"].startswith("Add") else -1)
            if rv["k"] == "use" or rv["k"] == "cast":
                return side(b, rv["op"], depth + 1)
        return None
    n = 0
    for fn in sorted(facts.body_names()):
        if not fn.split("::")[0].lstrip("<") in ("codepointset", "unicode", "parse") or "::tests::" in fn:
            continue
        b = facts.body(fn)
        k = 0
        for bi, i, s in b.iter_stmts():
            if s["k"] != "assign" or s["rv"]["k"] != "bin" or s["rv"]["op"] not in ("Lt", "Le", "Gt", "Ge"):
                continue
            a, c = side(b, s["rv"]["a"]), side(b, s["rv"]["b"])
            if not a or not c or a[1] == c[1] or a[0] == c[0]:
                continue
            n += 1
            k += 1
            op = s["rv"]["op"]
            # canonical `<` orientation: which side is the smaller one
            lo, hi = (a, c) if op in ("Lt", "Le") else (c, a)
            strict = op in ("Lt", "Gt")
            # canonical atom after folding <= / >= into the negation of the strict reverse
            if not strict:
                lo, hi = hi, lo
            key = "%s first/last test #%d" % (re.sub(r"::\{closure#\d+\}", "", fn), k)
            if lo[1] == "last" and hi[1] == "first":
                r.ok(key, "`last%s < first` form" % ("+1" if lo[2] else ""))
                r.sample({"function": fn, "line": s["line"], "op": op})
            else:
                r.fail(key, "the comparison at line %s relates one interval's `first` to another's `last` in the orientation `first < last` "
                            "(written %s): with closed intervals this treats two intervals sharing one code point as not overlapping" % (
                                s["line"], op), facts.loc(fn, s["line"]))
    # a merge of two sorted interval lists decides *both* disjointness directions for its two cursors
    from .lbseq import natural_loops as _nl
    for fn in sorted(facts.body_names()):
        if not fn.startswith("codepointset::CodePointSet::") or "::tests::" in fn or "{closure" in fn:
            continue
        b = facts.body(fn)
        loops = _nl(b)
        if not loops:
            continue
        inloop = set().union(*loops.values())
        pairs = {}
        for bi, i, s in b.iter_stmts():
            if bi not in inloop or s["k"] != "assign" or s["rv"]["k"] != "bin" or s["rv"]["op"] not in ("Lt", "Le", "Gt", "Ge"):
                continue
            a, c = side(b, s["rv"]["a"]), side(b, s["rv"]["b"])
            if not a or not c or a[1] == c[1] or a[0] == c[0]:
                continue
            last_side = a if a[1] == "last" else c
            first_side = c if a[1] == "last" else a
            pairs.setdefault(frozenset([a[0], c[0]]), set()).add((last_side[0], first_side[0]))
        for locs, dirs in pairs.items():
            x, y = sorted(locs)
            nx, ny = b.local_name(x) or "the set's interval", b.local_name(y) or "the set's interval"
            key = "%s decides both `%s before %s` and the reverse" % (fn, nx, ny)
            if {(x, y), (y, x)} <= dirs:
                r.ok(key)
            else:
                have = sorted("%s.last vs %s.first" % (b.local_name(p) or "interval", b.local_name(q) or "interval") for p, q in dirs)
                r.fail(key, "the merge loop only tests %s: the other disjointness direction is decided by something else than a last/first "
                            "comparison (e.g. two `first`s), so an interval that overlaps the head of the other is treated as lying before it" % have,
                       facts.loc(fn))
    r.floor("first_last_tests", n, 4)
    return r


# ---- PROVIDED -------------------------------------------------------------------------------

PROVIDED_TRAITS = ("matchers::CharProperties", "indexing::InputIndexer")
PROVIDED_REVIEWED = {}   # (impl type, method) -> reason, for an override shown to agree with the default on that encoding


def check_provided(facts):
    r = RuleResult("PROVIDED", "the provided (default) methods of matchers::CharProperties and indexing::InputIndexer — word-character tests, line "
                               "terminators, bracket membership, peek_left/right, fold_equals — are the one definition shared by every input "
                               "encoding (UTF-8, ASCII, UTF-16, UCS-2): no impl overrides one, so the encodings cannot disagree there. An "
                               "override in one impl (an 'ASCII fast path' for is_word_char_unicode_icase that forgets `_`) changes the result "
                               "through that entry point only. Positive control: the provided methods are found")
    import collections
    prov = collections.defaultdict(set)
    for n in facts.body_names():
        for t in PROVIDED_TRAITS:
            if n.startswith(t + "::") and "{closure" not in n and n.count("::") == t.count("::") + 1:
                prov[t].add(n.split("::")[-1])
    nprov = sum(len(v) for v in prov.values())
    novr = 0
    for n, fn in sorted(facts.fns.items()):
        t = (fn.get("impl_trait") or "").split("<")[0]
        if t in prov and fn.get("name") in prov[t]:
            novr += 1
            impl = n.split(" as ")[0].lstrip("<")
            key = "%s overrides %s::%s" % (impl, t.split("::")[-1], fn["name"])
            why = PROVIDED_REVIEWED.get((impl, fn["name"]))
            if why:
                r.ok(key, "reviewed: " + why)
            else:
                r.fail(key, "%s overrides the provided method %s::%s: this encoding now answers it differently from the others (only "
                            "through this entry point), and the default that the other rules analyse is bypassed" % (impl, t, fn["name"]),
                       facts.loc(n))
    for t in PROVIDED_TRAITS:
        r.ok("%s: %d provided methods, none overridden" % (t, len(prov[t])) if not novr else "%s provided methods counted" % t,
             ", ".join(sorted(prov[t])))
        r.sample({"trait": t, "provided": sorted(prov[t])})
    r.floor("provided_methods", nprov, 8)
    return r


# ---- POSOUT ---------------------------------------------------------------------------------

def check_posout(facts):
    r = RuleResult("POSOUT", "InputIndexer::subrange_eq and match_bytes compare text at the cursor and, on a match, leave the cursor behind the "
                             "compared text — in both directions and in every impl (UTF-8, ASCII, UTF-16, UCS-2). Decided per impl: every path "
                             "from the entry to a return that is not the constant `false` passes a store through the `pos` out-parameter "
                             "(cut-set reachability; both `Dir::FORWARD` arms are kept because Dir is generic). An arm that forgets `*pos = "
                             "start` leaves the cursor unmoved after a backward back-reference in that encoding only")
    n = 0
    for fn in sorted(facts.body_names()):
        if not (fn.startswith("<indexing::") and "InputIndexer>::" in fn and fn.split("::")[-1] in ("subrange_eq", "match_bytes")) or "{closure" in fn:
            continue
        b = facts.body(fn)
        pos_l = [l for l in range(1, b.argc + 1) if b.local_ty(l).startswith("&mut") and "Position" in b.local_ty(l)]
        if not pos_l:
            continue
        pl = pos_l[0]
        stores = set()
        for bi, i, s in b.iter_stmts():
            if s["k"] == "assign" and s["pl"]["p"][:1] == ["*"] and b.root_of(s["pl"]["l"])[0] == pl:
                stores.add(bi)
        for bb, t in b.iter_calls():
            # `*pos += n` on a position type is a call to AddAssign with &mut *pos
            if (t.get("callee") or "").split("::")[-1] in ("add_assign", "sub_assign") and t["args"] and t["args"][0].get("k") in ("copy", "move") \
                    and b.root_of(t["args"][0]["pl"]["l"])[0] == pl:
                stores.add(bb)
        rets = []
        for bi, i, s in b.iter_stmts():
            if s["k"] == "assign" and s["pl"]["l"] == 0 and not s["pl"]["p"]:
                if s["rv"]["k"] == "use" and s["rv"]["op"].get("k") == "const" and s["rv"]["op"].get("int") == 0:
                    continue
                rets.append((bi, s["line"]))
        for bb, t in b.iter_calls():
            if t["dest"]["l"] == 0 and not t["dest"]["p"]:
                rets.append((bb, t.get("line")))
        if not rets:
            continue
        n += 1
        key = "%s moves the cursor on a match" % fn
        reach = b.reach_from(0, avoid=stores)
        bad = [(bi, ln) for bi, ln in rets if bi in reach and bi not in stores]
        if bad:
            r.fail(key, "a path reaches the result at line %s without storing through `pos`: in one direction the cursor is not moved past "
                        "the compared text (the next instruction re-reads it)" % bad[0][1], facts.loc(fn, bad[0][1]))
        else:
            r.ok(key, "%d store sites cut every path to a possibly-true return" % len(stores))
            r.sample({"function": fn, "store_blocks": len(stores), "returns": len(rets)})
    r.floor("comparing_methods", n, 3)
    return r


# ---- GROUPSCLEAN ----------------------------------------------------------------------------

def check_groupsclean(facts):
    r = RuleResult("GROUPSCLEAN", "the backtracking executor keeps its capture slots across the searches of one iterator, so every path on which "
                                  "it hands out a Match resets every slot (`start = None; end = None` for each GroupData) before the next search: "
                                  "each `Some(Match)` built by a match producer is dominated by a reset of the group store (in the producer or in "
                                  "a function it calls, e.g. successful_match), or every caller of the producer resets before it returns. Checked "
                                  "in every feature configuration — a reset moved into a `#[cfg(not(feature = \"utf16\"))]` block leaves a group "
                                  "that took part in an earlier match set in a later one (find_iter, replace_all) in the utf16 build only")

    prim = set()

    def clearing_blocks(b):
        """blocks that store a None into a `start`/`end` field of a GroupData reached through the group store"""
        out = {}
        for bi, i, s in b.iter_stmts():
            if s["k"] != "assign" or "*" not in s["pl"]["p"]:
                continue
            fl = core.proj_fields(s["pl"])
            if not fl or fl[-1] not in ("start", "end"):
                continue
            rv = s["rv"]
            is_none = rv["k"] == "agg" and str(rv.get("variant")) == "None"
            if not is_none and rv["k"] == "use" and rv["op"].get("k") in ("copy", "move") and not rv["op"]["pl"]["p"]:
                d0 = b.single_def(rv["op"]["pl"]["l"])
                is_none = bool(d0) and d0[2] == "assign" and d0[3]["rv"]["k"] == "agg" and str(d0[3]["rv"].get("variant")) == "None"
            if is_none:
                out.setdefault(bi, set()).add(fl[-1])
        res = {bi for bi, fs in out.items() if fs >= {"start", "end"}}
        for bb, t in b.iter_calls():
            if (t.get("callee") or "") in prim:
                res.add(bb)
        return res
    # a method that sets both fields of one GroupData to None (types::GroupData::reset) counts like the two stores
    for fn in facts.body_names():
        if fn.startswith("types::GroupData") and "{closure" not in fn:
            if clearing_blocks(facts.body(fn)):
                prim.add(fn)
    clearing_fns = set()
    for fn in facts.body_names():
        if "classicalbacktrack::" in fn.split(" as ")[0] and "{closure" not in fn:
            b = facts.body(fn)
            cb = clearing_blocks(b)
            if cb and any((t.get("callee") or "").endswith("iter_mut") for _, t in b.iter_calls()):
                clearing_fns.add(fn)

    def clear_points(b):
        from .lbseq import natural_loops
        pts = set(clearing_blocks(b))
        # a reset written as a loop over the store is entered through its header on every path
        for h, nodes in natural_loops(b).items():
            if nodes & pts:
                pts.add(h)
        for bb, t in b.iter_calls():
            if (t.get("callee") or "") in clearing_fns:
                pts.add(bb)
        return pts
    n = 0
    cg_callers = {}
    for fn in facts.body_names():
        if not fn.startswith("classicalbacktrack::") and "classicalbacktrack::BacktrackExecutor" not in fn:
            continue
        b = facts.body(fn)
        for bb, t in b.iter_calls():
            cg_callers.setdefault(t.get("callee") or "", []).append((fn, bb))
    for fn in sorted(facts.body_names()):
        if "BacktrackExecutor" not in fn or "{closure" in fn or fn in clearing_fns:
            continue
        b = facts.body(fn)
        if "Option<api::Match>" not in b.local_ty(0).replace("core::", "std::").replace("std::option::", ""):
            continue
        somes = [(bi, s["line"]) for bi, i, s in b.iter_stmts() if s["k"] == "assign" and s["pl"]["l"] == 0 and s["rv"]["k"] == "agg"
                 and str(s["rv"].get("variant")) == "Some"]
        if not somes:
            continue
        pts = clear_points(b)
        dom = b.dom()
        for k, (bi, line) in enumerate(somes, 1):
            n += 1
            key = "%s Some(Match) #%d resets the groups" % (fn, k)
            if any(p == bi or p in dom[bi] for p in pts):
                r.ok(key, "dominated by a reset of the group store")
                r.sample({"function": fn, "line": line})
                continue
            # one level up: every caller resets after the call on all paths to its return
            callers = cg_callers.get(fn, [])
            ok = bool(callers)
            for cfn, cbb in callers:
                cb_ = facts.body(cfn)
                cpts = clear_points(cb_)
                reach = cb_.reach_from(cbb, avoid=cpts - {cbb})
                if any(x in reach for x in cb_.exits()):
                    ok = False
            if ok:
                r.ok(key, "every caller resets the group store before returning")
            else:
                r.fail(key, "the Match built at line %s is handed out without the capture slots having been reset (no reset dominates it, and "
                            "not every caller resets afterwards): the next match of the same iterator reports groups from this one" % line,
                       facts.loc(fn, line))
    r.floor("match_returns", n, 1)
    if not clearing_fns:
        r.error("no function resets the group store (start = None, end = None over groups.iter_mut())")
    return r


# ---- EXECSTATE ------------------------------------------------------------------------------

def check_execstate(facts):
    import json as _j
    import os as _os
    r = RuleResult("EXECSTATE", "a Matches iterator keeps one executor for all of its searches, so every field of the executor structs is state that "
                                "could carry one search's history into the next. The fields of exec::Matches, BacktrackExecutor, "
                                "classicalbacktrack::MatchAttempter / State, PikeVMExecutor and pikevm::MatchAttempter are exactly the reviewed "
                                "ones (tables/exec_state.json gives, per field, the rule or argument that resets or restores it between searches). "
                                "A new field — a step counter, a budget, a memo — is reported until it has such an argument: a budget that is "
                                "zeroed only in `new` makes the N-th search of an iterator fail where a fresh search succeeds")
    tab = _j.load(open(_os.path.join(core.VERIF, "tables", "exec_state.json")))
    tab.pop("_comment", None)
    n = 0
    for adt, fields in sorted(tab.items()):
        a = facts.adts.get(adt)
        if not a:
            r.error("executor struct %s not found" % adt)
            continue
        cur = [f["name"] for f in a["variants"][0]["fields"]]
        for f_ in cur:
            n += 1
            key = "%s.%s" % (adt, f_)
            if f_ in fields:
                r.ok(key, fields[f_][:110])
            else:
                r.fail(key, "new per-iterator state: field `%s` of %s is not in the reviewed list; nothing says it is reset or restored between "
                            "the searches of one iterator, so a later search may depend on earlier ones" % (f_, adt),
                       "%s:%s" % (a.get("file"), a.get("line")))
        r.sample({"struct": adt, "fields": cur})
    r.floor("executor_fields", n, 12)
    return r


# ---- PASSES ---------------------------------------------------------------------------------

def check_passes(facts):
    import json as _j
    import os as _os
    r = RuleResult("PASSES", "the IR rewrites the optimizer runs are exactly the reviewed ones: every function (or closure) handed to "
                             "optimizer::run_pass, anywhere, is listed in tables/optimizer_passes.json with the rules that decide its structural "
                             "conditions, and PassAction::Replace / Remove values are produced only inside those passes. A rewrite has to preserve "
                             "captures as well as matches — `x?` is not `(?:x|)`: the loop rejects an empty iteration and resets the groups inside, "
                             "the alternation keeps the capture — so a new pass is reported until it has been reviewed. The same for the rewrites of a reviewed "
                             "pass: what it stores over the node it was handed (`*n = Node::V{..}` built on the spot, per pass in the table) and "
                             "which actions it returns; a child moved over its parent, or a Replace from a pass that never replaced, is new")
    tab = _j.load(open(_os.path.join(core.VERIF, "tables", "optimizer_passes.json")))
    tab.pop("_comment", None)
    rewrites = tab.pop("_rewrites", {})
    rewrites.pop("_comment", None)
    seen = set()
    n = 0
    for fn in sorted(facts.body_names()):
        if "::tests::" in fn:
            continue
        b = facts.body(fn)
        for bb, t in b.iter_calls():
            cal = t.get("callee") or ""
            if not cal.endswith("optimizer::run_pass") and cal != "optimizer::run_pass":
                continue
            n += 1
            fty = str((t.get("func") or {}).get("ty") or "")
            m = re.findall(r"PassAction \{([^{}]+?)\}", fty)
            names = {x.strip() for x in m}
            if not names:
                m2 = re.findall(r"\{closure[^}]*\}|\[closure[^\]]*\]", fty)
                names = {"closure in " + fn} if m2 or "closure" in fty else {"?"}
            for nm in sorted(names):
                seen.add(nm)
                key = "pass %s" % nm
                own = nm if nm in tab else None
                if own:
                    r.ok(key, tab[own][:120])
                    r.sample({"pass": nm, "run_from": fn, "line": t.get("line")})
                else:
                    r.fail(key, "%s (line %s) runs the IR rewrite `%s`, which is not in the reviewed pass list: nothing decides that it "
                                "preserves captures and matches (e.g. lowering `x?` to `(?:x|)` keeps an empty capture the loop would reset)" % (
                                    fn, t.get("line"), nm), facts.loc(fn, t.get("line")))
    r.floor("run_pass_calls", n, 6)
    # Replace / Remove are only produced inside the passes (or functions owned by one)
    np_ = 0
    for fn in sorted(facts.body_names()):
        if "::tests::" in fn:
            continue
        b = facts.body(fn)
        makes = [s for bi, i, s in b.iter_stmts() if s["k"] == "assign" and s["rv"]["k"] == "agg" and str(s["rv"].get("adt", "")).endswith("PassAction")
                 and str(s["rv"].get("variant")) in ("Replace", "Remove")]
        if not makes:
            continue
        np_ += 1
        base = re.sub(r"::\{closure#\d+\}", "", fn)
        owner = base if base in tab else facts.owner_of(base)
        key = "%s builds PassAction::%s" % (base, makes[0]["rv"].get("variant"))
        if owner in tab:
            r.ok(key, "inside the reviewed pass %s" % owner)
        else:
            r.fail(key, "a node replacement / removal is produced (line %s) outside the reviewed passes" % makes[0]["line"], facts.loc(fn, makes[0]["line"]))
    r.floor("functions_producing_replacements", np_, 4)
    # the rewrites themselves: what a pass stores over the node it was handed, and which actions it returns
    nw = 0
    kc = {}
    built_bad = set()
    for fn in sorted(facts.body_names()):
        base = re.sub(r"::\{closure#\d+\}", "", fn)
        owner = base if base in tab else facts.owner_of(base)
        if owner not in tab or "::tests::" in fn:
            continue
        spec = rewrites.get(owner, {"writes": [], "actions": []})
        b = facts.body(fn)
        node_params = [l for l in range(1, b.argc + 1) if b.local_ty(l).replace(" ", "") == "&mutir::Node"]
        for bi, i, st in b.iter_stmts():
            if st["k"] != "assign":
                continue
            if st["pl"]["p"] == ["*"] and st["pl"]["l"] in node_params:
                nw += 1
                rv = st["rv"]
                var = None
                if rv["k"] == "agg":
                    var = str(rv.get("variant"))
                elif rv["k"] == "use" and rv["op"].get("k") in ("copy", "move") and not rv["op"]["pl"]["p"]:
                    d = b.single_def(rv["op"]["pl"]["l"])
                    if d and d[2] == "assign" and d[3]["rv"]["k"] == "agg" and str(d[3]["rv"].get("adt", "")).endswith("ir::Node"):
                        # a local that was only ever the freshly built node (not later swapped with something else)
                        l_ = rv["op"]["pl"]["l"]
                        swapped = any((t.get("callee") or "").split("::")[-1] in ("swap", "replace", "take") and any(
                            a.get("k") in ("copy", "move") and b.root_of(a["pl"]["l"])[0] == l_ for a in t["args"]) for _, t in b.iter_calls())
                        var = None if swapped else str(d[3]["rv"].get("variant"))
                key = "%s overwrites its node with %s" % (owner, var or "a node taken from elsewhere")
                if var is not None and var in spec.get("writes", []):
                    r.ok(key, "reviewed rewrite")
                else:
                    r.fail(key, "the pass %s stores %s over the node it was handed (line %s): not one of its reviewed rewrites %s — e.g. "
                                "replacing `(?:x*?)*` by its inner loop keeps the inner quantifier's greediness and drops the outer one's" % (
                                    owner.split("::")[-1], ("Node::" + var) if var else "a node moved from elsewhere (a child)", st["line"],
                                    spec.get("writes", [])), facts.loc(fn, st["line"]))
            if st["rv"]["k"] == "agg" and str(st["rv"].get("adt", "")).endswith("ir::Node"):
                var_ = str(st["rv"].get("variant"))
                if var_ not in spec.get("builds", []) and (owner, var_) not in built_bad:
                    built_bad.add((owner, var_))
                    r.fail("%s builds Node::%s" % (owner, var_),
                           "the pass %s constructs a Node::%s (line %s), which it never did (reviewed: %s): e.g. spelling a bounded tail "
                           "`x{0,3}` out as `x?x?x?` creates loops the parser's MAX_LOOPS guard never counted and turns n+1 choices into "
                           "2^n" % (owner.split("::")[-1], var_, st["line"], spec.get("builds", [])), facts.loc(fn, st["line"]))
            if st["rv"]["k"] == "agg" and str(st["rv"].get("adt", "")).endswith("PassAction") and str(st["rv"].get("variant")) in ("Replace", "Remove"):
                v = str(st["rv"].get("variant"))
                kc[(owner, v)] = kc.get((owner, v), 0) + 1
                key = "%s returns PassAction::%s #%d" % (owner, v, kc[(owner, v)])
                carried = None
                if v == "Replace" and st["rv"].get("ops"):
                    op_ = st["rv"]["ops"][0]
                    carried = "moved"
                    if op_.get("k") in ("copy", "move") and not op_["pl"]["p"]:
                        d_ = b.single_def(op_["pl"]["l"])
                        if d_ and d_[2] == "assign" and d_[3]["rv"]["k"] == "agg" and str(d_[3]["rv"].get("adt", "")).endswith("ir::Node"):
                            l_ = op_["pl"]["l"]
                            swapped = any((t.get("callee") or "").split("::")[-1] in ("swap", "replace", "take") and any(
                                a.get("k") in ("copy", "move") and b.root_of(a["pl"]["l"])[0] == l_ for a in t["args"]) for _, t in b.iter_calls())
                            carried = "moved" if swapped else str(d_[3]["rv"].get("variant"))
                        elif d_ and d_[2] == "call":
                            carried = (d_[3].get("callee") or "?").split("::")[-1]
                            if carried in ("replace", "take", "unwrap", "expect", "pop", "remove", "swap_remove", "into_inner"):
                                carried = "moved"     # a node taken out of the tree by value
                if v in spec.get("actions", []) and carried is not None and carried not in spec.get("replaces", []):
                    r.fail(key, "the pass %s replaces a node by `%s` (line %s), which is not one of its reviewed replacements %s: e.g. a "
                                "one-character node rewritten into a two-node Cat after single-character loops were formed makes the loop "
                                "iterate over half a character" % (owner.split("::")[-1], carried, st["line"], spec.get("replaces", [])),
                           facts.loc(fn, st["line"]))
                elif v in spec.get("actions", []):
                    r.ok(key, "reviewed")
                else:
                    r.fail(key, "the pass %s now answers PassAction::%s (line %s), which it never did: a new rewrite that has had no review" % (
                        owner.split("::")[-1], v, st["line"]), facts.loc(fn, st["line"]))
    r.floor("whole_node_stores", nw, 2)
    return r


# ---- ITERREL --------------------------------------------------------------------------------

ITER_REVIEWED = {"next", "next_back", "size_hint"}


def check_iterrel(facts):
    r = RuleResult("ITERREL", "the crate's iterators (api::Groups, api::NamedGroups, exec::Matches) implement `next`; any other Iterator method an "
                              "impl overrides (nth, advance_by, fold, ...) has to agree with the `next`-based default on a partly consumed "
                              "iterator. Decided structurally: a store such a method makes to a cursor field (a field of self that `next` "
                              "stores to) computes the new value from the field's old value — a relative move. `self.idx = n` in `nth` is "
                              "right only on a fresh iterator: after `g.next()`, `g.nth(0)` yields group 0 again, and groups() disagrees with "
                              "group(i). The set of overridden methods is itself reviewed (next, next_back, size_hint): any other override "
                              "is reported until it has been read against the default")
    impls = {}
    for fn in facts.body_names():
        m = re.match(r"^<(.+) as std::iter::(?:traits::\w+::)?(Iterator|DoubleEndedIterator|ExactSizeIterator)>::(\w+)$", fn)
        if m and "::tests::" not in fn:
            impls.setdefault(m.group(1), {})[m.group(3)] = fn
    r.floor("iterator_impls", len(impls), 3)

    def stores(b):
        out = []
        for bi, i, st in b.iter_stmts():
            if st["k"] != "assign" or not st["pl"]["p"]:
                continue
            rt, pr = b.root_of(st["pl"]["l"])
            fl = [x.get("f") for x in pr if isinstance(x, dict) and "f" in x] + core.proj_fields(st["pl"])
            if rt == 1 and fl:
                out.append((fl[0], st))
        return out

    def reads_field(b, op, field, depth=0, seen=None):
        seen = seen if seen is not None else set()
        if op.get("k") not in ("copy", "move") or depth > 12:
            return False
        rt, pr = b.root_of(op["pl"]["l"])
        fl = [x.get("f") for x in pr if isinstance(x, dict) and "f" in x] + core.proj_fields(op["pl"])
        if rt == 1 and fl and fl[0] == field:
            return True
        l = op["pl"]["l"]
        if l in seen:
            return False
        seen.add(l)
        for bi, si, kind, pay in b.defs().get(l, []):
            if kind == "call":
                if any(reads_field(b, a, field, depth + 1, seen) for a in pay["args"]):
                    return True
                continue
            rv = pay["rv"]
            ops = [rv[k] for k in ("op", "a", "b") if isinstance(rv.get(k), dict)] + list(rv.get("ops") or [])
            if rv["k"] in ("ref", "copy_for_deref") and "pl" in rv:
                ops.append({"k": "copy", "pl": rv["pl"]})
            if any(reads_field(b, o, field, depth + 1, seen) for o in ops):
                return True
        return False
    nm = 0
    for impl, methods in sorted(impls.items()):
        if "next" not in methods:
            continue
        cursor = {f_ for f_, _ in stores(facts.body(methods["next"]))}
        for mname, fn in sorted(methods.items()):
            if mname in ("next", "next_back"):
                continue
            nm += 1
            b = facts.body(fn)
            bad = [(f_, st) for f_, st in stores(b) if f_ in cursor and not (st["rv"]["k"] in ("bin", "checked_bin") and any(
                reads_field(b, o, f_) for o in (st["rv"]["a"], st["rv"]["b"]))) and not (
                    st["rv"]["k"] in ("use", "cast") and reads_field(b, st["rv"]["op"], f_))]
            key = "%s::%s moves the cursor relatively" % (impl, mname)
            if mname not in ITER_REVIEWED:
                r.fail("%s::%s is a reviewed override" % (impl, mname),
                       "the iterator %s overrides `%s`, which std would otherwise derive from next(): nothing decides that the hand-written "
                       "version agrees with the next()-based default (e.g. a `last()` that looks a name up in the first group carrying it, "
                       "not the participating one) — reviewed overrides are %s" % (impl, mname, sorted(ITER_REVIEWED)), facts.loc(fn))
                continue
            if bad:
                r.fail(key, "`%s` of the iterator %s stores to the cursor field `%s` (line %s) a value that does not depend on the field's "
                            "old value: correct on a fresh iterator only — after next() the override disagrees with the next()-based default" % (
                                mname, impl, bad[0][0], bad[0][1]["line"]), facts.loc(fn, bad[0][1]["line"]))
            else:
                r.ok(key, "no absolute store to %s" % (sorted(cursor) or "a cursor field"))
    r.floor("iterator_methods_besides_next", nm, 2)
    return r


# ---- ACCUM ----------------------------------------------------------------------------------

def check_accum(facts):
    r = RuleResult("ACCUM", "a bracket's members are accumulated: a parse.rs function that is handed the class under construction (`&mut "
                            "BracketContents`) only ever adds to it — its `cps` is touched through CodePointSet::add* alone, never replaced, "
                            "complemented or cleared, and `invert` is not written there. A negated member (`\\P{..}`, `\\W`) is complemented "
                            "on its own before it is added; complementing the accumulator instead turns `[a\\P{Ll}]` into "
                            "not(a ∪ Ll): the members written before the negated one drop out")
    ADD = {"add", "add_one", "add_set", "add_range", "add_interval"}
    nf = 0
    nadd = 0
    for fn in sorted(facts.body_names()):
        if not fn.startswith("parse::") or "{closure" in fn:
            continue
        b = facts.body(fn)
        params = [l for l in range(1, b.argc + 1) if b.local_ty(l).replace(" ", "").startswith("&mut") and b.local_ty(l).endswith("BracketContents")]
        if not params:
            continue
        nf += 1
        probs = []
        for bb, t in b.iter_calls():
            for ai, a in enumerate(t["args"]):
                if a.get("k") not in ("copy", "move"):
                    continue
                rt, pr = b.root_of(a["pl"]["l"])
                fl = [x.get("f") for x in pr if isinstance(x, dict) and "f" in x] + core.proj_fields(a["pl"])
                if rt not in params or "cps" not in fl:
                    continue
                last = (t.get("callee") or "").split("::")[-1]
                if ai == 0 and last in ADD:
                    nadd += 1
                else:
                    probs.append("line %s: the accumulated set is passed to `%s`" % (t.get("line"), last))
        for bi, i, st in b.iter_stmts():
            if st["k"] != "assign" or not st["pl"]["p"]:
                continue
            rt, pr = b.root_of(st["pl"]["l"])
            fl = [x.get("f") for x in pr if isinstance(x, dict) and "f" in x] + core.proj_fields(st["pl"])
            if rt in params and fl and fl[-1] in ("cps", "invert"):
                probs.append("line %s: `%s` of the class under construction is overwritten" % (st["line"], fl[-1]))
        key = "%s only adds to the class it is handed" % fn
        if probs:
            r.fail(key, "; ".join(probs[:3]) + " — members accumulated so far are complemented / dropped together with the new one", facts.loc(fn))
        else:
            r.ok(key, "cps reached only through add*")
    r.floor("functions_handed_the_class_under_construction", nf, 1)
    r.floor("add_calls", nadd, 2)
    return r


# ---- MERGEDEP -------------------------------------------------------------------------------

def check_mergedep(facts):
    r = RuleResult("MERGEDEP", "in codepointset.rs a function that is handed an Interval and builds an Interval (CodePointSet::add, merge_intervals) "
                               "computes *each* bound of the result from the Interval(s) it was handed: both `first` and `last` depend, through "
                               "the data flow (min/max, calls, copies), on every Interval parameter. A merged interval whose `first` is taken "
                               "from the existing entries alone forgets the part of the new interval that sticks out on the left: "
                               "`[c-eh-ka-z]` loses a and b")
    n = 0

    def deps(b, op, depth=0, seen=None):
        """parameter locals the operand's value depends on"""
        seen = seen if seen is not None else set()
        if op.get("k") not in ("copy", "move") or depth > 14:
            return set()
        l = op["pl"]["l"]
        rt, _pr = b.root_of(l)
        out = set()
        for x in (l, rt):
            if 1 <= x <= b.argc:
                out.add(x)
        if l in seen:
            return out
        seen.add(l)
        for bi, si, kind, pay in b.defs().get(l, []) + (b.defs().get(rt, []) if rt != l else []):
            if kind == "call":
                # an element read out of a container takes its *value* from the container, not from the index that selected it
                selects = (pay.get("callee") or "").split("::")[-1] in ("index", "index_mut", "get", "get_mut", "get_unchecked", "first", "last")
                for a in (pay["args"][:1] if selects else pay["args"]):
                    out |= deps(b, a, depth + 1, seen)
                continue
            rv = pay["rv"]
            ops = [rv[k] for k in ("op", "a", "b") if isinstance(rv.get(k), dict)] + list(rv.get("ops") or [])
            if "pl" in rv and isinstance(rv["pl"], dict):
                ops.append({"k": "copy", "pl": rv["pl"]})
            for o in ops:
                out |= deps(b, o, depth + 1, seen)
        return out
    for fn in sorted(facts.body_names()):
        if not fn.startswith("codepointset::") or "::tests::" in fn or "{closure" in fn:
            continue
        b = facts.body(fn)
        ivp = [l for l in range(1, b.argc + 1) if re.match(r"^&?(mut )?codepointset::Interval$", b.local_ty(l))]
        if not ivp:
            continue
        k = 0
        for bi, i, st in b.iter_stmts():
            if st["k"] != "assign" or st["rv"]["k"] != "agg" or not str(st["rv"].get("adt", "")).endswith("codepointset::Interval"):
                continue
            k += 1
            n += 1
            key = "%s Interval #%d built from the interval(s) handed in" % (fn, k)
            bad = []
            for fname, op in zip(st["rv"].get("fields") or [], st["rv"].get("ops") or []):
                d = deps(b, op)
                miss = [b.local_name(l) or "_%d" % l for l in ivp if l not in d]
                if miss:
                    bad.append("`%s` does not depend on %s" % (fname, ", ".join("`%s`" % m for m in miss)))
            if bad:
                r.fail(key, "line %s: %s — the part of that interval beyond the existing entries is lost from the set" % (st["line"], "; ".join(bad)),
                       facts.loc(fn, st["line"]))
            else:
                r.ok(key, "both bounds depend on %s" % ", ".join(b.local_name(l) or "_%d" % l for l in ivp))
                r.sample({"function": fn, "line": st["line"]})
    r.floor("intervals_built_from_an_interval_parameter", n, 1)
    # a union never shrinks an interval: in the add* functions a bound of an existing interval is only ever rewritten to a value that
    # depends on its old value (max / min with it) — `prev.last = next.last` shrinks `prev` when `next` lies inside it
    for fn in sorted(facts.body_names()):
        if not fn.startswith("codepointset::CodePointSet::add") or "::tests::" in fn:
            continue
        b = facts.body(fn)
        k = 0
        for bi, i, st in b.iter_stmts():
            if st["k"] != "assign" or not st["pl"]["p"]:
                continue
            fl = core.proj_fields(st["pl"])
            if not fl or fl[-1] not in ("first", "last"):
                continue
            k += 1
            key = "%s bound store #%d keeps the old bound in play" % (re.sub(r"::\{closure#\d+\}", "", fn), k)
            base_root = b.root_of(st["pl"]["l"])[0]

            def reads_old(op, depth=0, seen=None):
                seen = seen if seen is not None else set()
                if op.get("k") not in ("copy", "move") or depth > 10:
                    return False
                f2 = core.proj_fields(op["pl"])
                if f2 and f2[-1] == fl[-1] and b.root_of(op["pl"]["l"])[0] == base_root:
                    return True
                l = op["pl"]["l"]
                if l in seen:
                    return False
                seen.add(l)
                for d in b.defs().get(l, []):
                    ops = list(d[3]["args"]) if d[2] == "call" else [d[3]["rv"][x] for x in ("op", "a", "b") if isinstance(d[3]["rv"].get(x), dict)] + \
                        list(d[3]["rv"].get("ops") or []) + ([{"k": "copy", "pl": d[3]["rv"]["pl"]}] if isinstance(d[3]["rv"].get("pl"), dict) else [])
                    if any(reads_old(o, depth + 1, seen) for o in ops):
                        return True
                return False
            rv = st["rv"]
            ops = [rv[x] for x in ("op", "a", "b") if isinstance(rv.get(x), dict)]
            if any(reads_old(o) for o in ops):
                r.ok(key)
            else:
                r.fail(key, "`.%s` of an interval already in the set is overwritten (line %s) with a value that does not depend on its old "
                            "value: when the other interval lies inside this one the interval shrinks and members drop out of the union "
                            "(`[\\S\\d]` loses `a`)" % (fl[-1], st["line"]), facts.loc(fn, st["line"]))
    return r


# ---- MULBOUND -------------------------------------------------------------------------------

def check_mulbound(facts):
    r = RuleResult("MULBOUND", "numbers written in a pattern (quantifier bounds, `\\u{...}` digits, `$N`) are unbounded, so on the compile path and in "
                               "the template scanner a plain `*` is only applied where it cannot overflow: (a) no multiplication of two "
                               "non-constant values (two quantifier counts multiplied overflow usize; saturating / checked forms are calls and "
                               "are fine); (b) a multiplication by a constant inside a loop — a digit accumulator `v = v * 16 + d` — has, in that "
                               "same loop, a comparison of the accumulator with a constant whose one edge leaves the loop, so the value is "
                               "bounded per iteration instead of after the last digit (`\\u{FFFFFFFFF}` overflows u32: a panic in debug builds, "
                               "a wrapped code point in release)")
    from .lbseq import natural_loops as _nl
    MODS = ("parse::", "optimizer::", "emit::", "ir::", "startpredicate::", "literal::", "api::Regex::expand_replacement", "<ir::", "<parse::")
    n = 0
    for fn in sorted(facts.body_names()):
        if "::tests::" in fn or not fn.startswith(MODS):
            continue
        b = facts.body(fn)
        loops = None
        k = 0
        for bi, i, st in b.iter_stmts():
            if st["k"] != "assign" or st["rv"]["k"] not in ("bin", "checked_bin") or not str(st["rv"]["op"]).startswith("Mul"):
                continue
            a_, c_ = st["rv"]["a"], st["rv"]["b"]
            ca, cc = b.const_of_operand(a_), b.const_of_operand(c_)
            if a_.get("k") == "const" or c_.get("k") == "const":
                ca = ca if ca is not None else (0 if a_.get("k") == "const" else None)
                cc = cc if cc is not None else (0 if c_.get("k") == "const" else None)
            n += 1
            k += 1
            key = "%s multiplication #%d cannot overflow" % (re.sub(r"::\{closure#\d+\}", "", fn), k)
            if ca is None and cc is None:
                r.fail(key, "two values that both come from the pattern are multiplied with a plain `*` (line %s): quantifier bounds saturate "
                            "at usize::MAX in the parser, so the product overflows — a panic while compiling in debug builds, a wrapped count "
                            "(`(?:a{4294967296}){4294967296}` becomes `a{0}`) in release" % st["line"], facts.loc(fn, st["line"]))
                continue
            if ca is not None and cc is not None:
                r.ok(key, "constant")
                continue
            loops = loops if loops is not None else _nl(b)
            inl = [(len(ns), h, ns) for h, ns in loops.items() if bi in ns]
            if not inl:
                r.ok(key, "by a constant, outside any loop (a fixed number of digits)")
                continue
            _, h, ns = min(inl)
            var = a_ if ca is None else c_
            acc = b.root_of(var["pl"]["l"])[0]
            # the accumulator: the local the product (plus a digit) is stored back into
            accs = {acc}
            for x in ns:
                for st2 in b.blocks[x]["s"]:
                    if st2["k"] == "assign" and st2["rv"]["k"] == "use" and st2["rv"]["op"].get("k") in ("copy", "move") and \
                            st2["rv"]["op"]["pl"]["l"] in accs and not st2["pl"]["p"]:
                        accs.add(st2["pl"]["l"])
            succ = b.succ()
            bounded = False
            for x in ns:
                t = b.blocks[x]["t"]
                if t["k"] != "switch" or t["discr"].get("k") not in ("copy", "move"):
                    continue
                d = b.single_def(t["discr"]["pl"]["l"])
                if not d or d[2] != "assign" or d[3]["rv"]["k"] != "bin" or d[3]["rv"]["op"] not in ("Lt", "Le", "Gt", "Ge"):
                    continue
                oa, ob = d[3]["rv"]["a"], d[3]["rv"]["b"]
                for v_, c2 in ((oa, ob), (ob, oa)):
                    if v_.get("k") in ("copy", "move") and (b.const_of_operand(c2) is not None or c2.get("k") == "const"):
                        rt = b.root_of(v_["pl"]["l"])[0]
                        # the compared value is the accumulator or derives from the product
                        if rt in accs or rt == st["pl"]["l"] or _mb_derives(b, rt, st["pl"]["l"], accs, ns):
                            if any(y not in ns for y in succ.get(x, [])) or any(ns.isdisjoint(b.reach_from(y) & {h}) for y in succ.get(x, [])):
                                bounded = True
            if bounded:
                r.ok(key, "accumulator tested against a constant inside the loop")
            else:
                r.fail(key, "a value is multiplied by a constant on every iteration of a loop over characters of the pattern (line %s) and is "
                            "not compared with a bound inside that loop: with enough digits it overflows before the check after the loop "
                            "(`\\u{FFFFFFFFF}`: debug panic, release wraps to a valid code point)" % st["line"], facts.loc(fn, st["line"]))
    r.floor("multiplications_on_the_compile_path", n, 5)
    return r


def _mb_derives(b, l, prod, accs, ns, depth=0):
    if depth > 6:
        return False
    for bi, si, kind, pay in b.defs().get(l, []):
        if kind != "assign" or bi not in ns:
            continue
        rv = pay["rv"]
        ops = [rv[k] for k in ("op", "a", "b") if isinstance(rv.get(k), dict)]
        for o in ops:
            if o.get("k") in ("copy", "move"):
                x = o["pl"]["l"]
                if x == prod or x in accs or _mb_derives(b, x, prod, accs, ns, depth + 1):
                    return True
    return False


# ---- COMPILESTATE ---------------------------------------------------------------------------

def check_compilestate(facts):
    import json as _j
    import os as _os
    r = RuleResult("COMPILESTATE", "the state of the compile pipeline and the facts it precomputes are exactly the reviewed ones "
                                   "(tables/compile_state.json): fields of parse::Parser (they live across the whole pattern while `flags` "
                                   "changes inside modifier groups), of emit::Emitter, of insn::CompiledRegex / ir::Regex, and the variants of "
                                   "insn::StartPredicate (facts computed once that both executors act on for every haystack and every start "
                                   "offset). A new one — a per-pattern cache filled under whatever flags were in force first, a 'required "
                                   "literal' or minimum length searched only to the right of the cursor, an 'end anchored' bit — is reported "
                                   "until it has an argument in the table")
    tab = _j.load(open(_os.path.join(core.VERIF, "tables", "compile_state.json")))
    tab.pop("_comment", None)
    n = 0
    for adt, entries in sorted(tab.items()):
        optional = adt.startswith("?")
        adt = adt.lstrip("?")
        a = facts.adts.get(adt)
        if not a:
            if not optional:
                r.error("%s not found" % adt)
            continue
        if len(a["variants"]) == 1:
            cur = [f_["name"] for f_ in a["variants"][0]["fields"]]
            what = "field"
        else:
            cur = [v.get("name") for v in a["variants"]]
            what = "variant"
        for c in cur:
            n += 1
            key = "%s %s %s" % (adt, what, c)
            if c in entries:
                r.ok(key, entries[c][:110])
            else:
                r.fail(key, "new %s `%s` of %s is not in the reviewed list: nothing says it stays right when flags change mid-pattern "
                            "(Parser), or for every haystack, start offset and direction (CompiledRegex / StartPredicate) — e.g. a literal "
                            "required by a lookbehind lies *before* the cursor" % (what, c, adt), "%s:%s" % (a.get("file"), a.get("line")))
        r.sample({"type": adt, what + "s": cur})
    r.floor("compile_state_entries", n, 25)
    return r


# ---- ICASEGUARD -----------------------------------------------------------------------------

def check_icaseguard(facts):
    from . import flagsrc
    r = RuleResult("ICASEGUARD", "case closure is applied only under the `i` flag: in parse.rs every call of unicode::add_icase_code_points sits on "
                                 "the true edge of a test whose value comes from an `icase` flag (self.flags.icase, a parameter or node field "
                                 "named icase); and inside the parser's case-aware constructor a `Node::Char` that carries the raw code point "
                                 "is built only on the false edge of that test (under `i` the node comes from expand_code_point's answer). A "
                                 "closure applied under `v` alone makes case-sensitive `[\\p{Lu}]` match \"a\"; a shortcut past the expansion "
                                 "under `i` makes a character that is only the *target* of a mapping (ß ← ẞ) case-sensitive")
    n = 0

    def icase_test_edges(fn, b):
        """(switch block, true-edge target, false-edge target) of tests on an icase value"""
        out = []
        for bi in sorted(b.reachable()):
            t = b.blocks[bi]["t"]
            if t["k"] != "switch" or t.get("dty") != "bool" or t["discr"].get("k") not in ("copy", "move"):
                continue
            src = flagsrc.sources(facts, fn, b, t["discr"])
            names = {x for x in src if x.startswith("flags.") or x.startswith("param:")}
            l = t["discr"]["pl"]["l"]
            d = b.single_def(l)
            neg = False
            if d and d[2] == "assign" and d[3]["rv"]["k"] == "un" and d[3]["rv"].get("op") == "Not":
                neg = True
            direct = core.proj_fields(t["discr"]["pl"])[-1:] == ["icase"] or (b.local_name(b.root_of(l)[0]) or "") == "icase"
            if not (names and all(x in ("flags.icase", "param:icase") for x in names) or direct):
                continue
            if "other:Not" in src or "other:not" in src:
                neg = True
            f0 = [tg for v, tg in t["targets"] if v == 0]
            tru, fls = (t["otherwise"], f0[0] if f0 else None)
            if neg:
                tru, fls = fls, tru
            out.append((bi, tru, fls))
        return out
    for fn in sorted(facts.body_names()):
        if not fn.startswith("parse::") or "::tests::" in fn:
            continue
        b = facts.body(fn)
        calls = [(bb, t) for bb, t in b.iter_calls() if (t.get("callee") or "").endswith("unicode::add_icase_code_points")]
        if not calls:
            continue
        dom = b.dom()
        edges = icase_test_edges(fn, b)
        k = 0
        for bb, t in calls:
            n += 1
            k += 1
            key = "%s case closure #%d is under the i flag" % (re.sub(r"::\{closure#\d+\}", "", fn), k)
            if any(tru is not None and (tru == bb or tru in dom[bb]) for _, tru, _ in edges):
                r.ok(key)
            else:
                r.fail(key, "add_icase_code_points is called (line %s) on a path that has not tested an `icase` flag: a case-sensitive regex "
                            "gets its class closed under case folding (`[\\p{Lu}]` under `v` matches \"a\")" % t.get("line"), facts.loc(fn, t.get("line")))
    r.floor("case_closure_calls", n, 4)
    # the case-aware constructor
    nc = 0
    for fn in sorted(facts.body_names()):
        if not fn.startswith("parse::") or "{closure" in fn:
            continue
        b = facts.body(fn)
        if not any((t.get("callee") or "").endswith("unicode::expand_code_point") for _, t in b.iter_calls()):
            continue
        dom = b.dom()
        edges = icase_test_edges(fn, b)
        for bi, i, st in b.iter_stmts():
            if st["k"] != "assign" or st["rv"]["k"] != "agg" or not str(st["rv"].get("adt", "")).endswith("ir::Node") or str(st["rv"].get("variant")) != "Char":
                continue
            op = (st["rv"].get("ops") or [{}])[0]
            if op.get("k") not in ("copy", "move"):
                continue
            root = b.root_of(op["pl"]["l"])[0]
            if not (1 <= root <= b.argc):
                continue     # comes from the expansion's answer
            nc += 1
            key = "%s raw Node::Char #%d only without the i flag" % (fn, nc)
            if any(fls is not None and (fls == bi or fls in dom[bi]) for _, _, fls in edges):
                r.ok(key)
            else:
                r.fail(key, "a `Node::Char` carrying the raw code point is built (line %s) on a path where the `i` flag may be set, bypassing "
                            "expand_code_point: a character that maps to itself but is the target of another character's mapping (ß ← ẞ, "
                            "Cherokee capitals) becomes case-sensitive" % st["line"], facts.loc(fn, st["line"]))
    r.floor("raw_char_nodes_in_the_case_aware_constructor", nc, 1)
    return r


# ---- EXPANDSRC ------------------------------------------------------------------------------

# accessors through which an element of the expansion's answer is read: the value still comes from the container (argument 0)
_EXPAND_ACCESSORS = ("std::ops::Index::index", "std::ops::Deref::deref", "std::vec::Vec::<T, A>::as_slice", "std::slice::<impl [T]>::first",
                     "std::slice::<impl [T]>::get", "std::option::Option::<T>::unwrap", "std::option::Option::<T>::expect",
                     "std::option::Option::<&T>::copied", "std::option::Option::<&T>::cloned", "std::clone::Clone::clone",
                     "std::slice::<impl [T]>::iter", "std::iter::Iterator::next", "std::iter::IntoIterator::into_iter",
                     "std::iter::Iterator::copied", "std::iter::Iterator::cloned")


def _expand_trace(b, l, seen):
    """value sources of local `l`, looking through references, casts and container accessors"""
    if l in seen:
        return set()
    seen.add(l)
    if l <= b.argc and l != 0:
        return {("param", b.local_name(l) or "_%d" % l)}
    out = set()
    for bi, si, kind, pay in b.defs().get(l, []):
        if kind == "call":
            cal = pay.get("callee") or "?"
            a0 = (pay.get("args") or [{}])[0]
            if cal in _EXPAND_ACCESSORS and a0.get("k") in ("copy", "move"):
                out |= _expand_trace(b, b.root_of(a0["pl"]["l"])[0], seen)
            else:
                out.add(("call", cal))
            continue
        rv = pay["rv"]
        k = rv["k"]
        ops = []
        if k in ("use", "cast"):
            ops = [rv["op"]]
        elif k == "un":
            ops = [rv["a"]]
        elif k in ("ref", "rawptr", "addr", "discr", "copy_for_deref"):
            out |= _expand_trace(b, b.root_of(rv["pl"]["l"])[0], seen)
        else:
            out.add(("other", k))
        for o in ops:
            if o["k"] == "const":
                out.add(("const",))
            else:
                out |= _expand_trace(b, b.root_of(o["pl"]["l"])[0], seen)
    return out


def check_expandsrc(facts):
    from . import backref
    r = RuleResult("EXPANDSRC", "the lowering of a code-point sequence (the string alternatives of `\\q{..}` and string properties) is case-aware "
                                "in every build: outside the parser, a function that consults unicode::expand_code_point builds its "
                                "single-character node (`ir::Node::Char` / `literal::Piece` character variants) only from that call's answer, "
                                "never from the raw code point it was handed. The utf16 build has its own copy of the emitter's routine "
                                "(#[cfg(feature = \"utf16\")]) that XCONFIG cannot compare with the default one; a shortcut there that emits "
                                "the raw code point (for instance for supplementary-plane characters, which do have case pairs: Deseret, "
                                "Osage, Adlam) makes `/[\\q{\\u{10400}}]/vi` match in one build and not in the other")
    n = 0
    nfn = 0
    for fn in sorted(facts.body_names()):
        if fn.startswith("parse::") or fn.startswith("unicode::") or "::tests::" in fn or "{closure" in fn:
            continue
        b = facts.body(fn)
        if not any((t.get("callee") or "").endswith("unicode::expand_code_point") for _, t in b.iter_calls()):
            continue
        nfn += 1
        k = 0
        for bi, i, st in b.iter_stmts():
            if st["k"] != "assign" or st["rv"]["k"] != "agg":
                continue
            a = st["rv"]
            if a.get("adt") not in ("ir::Node", "literal::Piece") or str(a.get("variant")) != "Char":
                continue
            k += 1
            n += 1
            key = "%s %s::Char #%d comes from the expansion" % (fn, a["adt"].split("::")[-1], k)
            op = (a.get("ops") or [{}])[0]
            if op.get("k") not in ("copy", "move"):
                r.fail(key, "a Char node with a constant payload is built (line %s) in a routine that lowers arbitrary code points" % st["line"],
                       facts.loc(fn, st["line"]))
                continue
            srcs = _expand_trace(b, op["pl"]["l"], set())
            bad = sorted("/".join(map(str, x)) for x in srcs if x != ("call", "unicode::expand_code_point"))
            if bad or not srcs:
                r.fail(key, "the character of this node (line %s) does not come from unicode::expand_code_point's answer but from %s: the "
                            "case expansion is bypassed on this path, so under `i` the builds (or the two lowerings) disagree" % (
                                st["line"], bad or "nothing traceable"), facts.loc(fn, st["line"]))
            else:
                r.ok(key, "payload from unicode::expand_code_point")
                r.sample({"function": fn, "line": st["line"]})
    r.floor("lowering_routines_consulting_expand_code_point", nfn, 1)
    r.floor("char_nodes_in_lowering_routines", n, 1)
    return r


# ---- PARSEONLY ------------------------------------------------------------------------------

def check_parseonly(facts):
    r = RuleResult("PARSEONLY", "the parser works on code points and produces character-level IR: (a) parse.rs builds no byte-level node "
                                "(`Node::ByteSequence` / `Node::ByteSet`) — those appear only in the optimizer, after `finalize` has run "
                                "`reverse_cats`, which panics on them (a lowering done in the parser under `!has_lookbehind` meets a lookbehind "
                                "written later in the pattern); (b) parse.rs never slices a `str` by byte ranges (`&name[..32]` panics inside a "
                                "multi-byte identifier character); (c) an Option-returning `try_*` routine that keeps no saved copy of the input "
                                "never answers `None` at a point that is only reached after it consumed something — callers rely on `first character is a digit => Some` "
                                "(`.unwrap()`), and on `None` meaning that nothing was read")
    n = 0
    for fn in sorted(facts.body_names()):
        if not (fn.startswith("parse::") or fn.startswith("<parse::")) or "::tests::" in fn:
            continue
        b = facts.body(fn)
        base = re.sub(r"(::\{closure#\d+\})+$", "", fn)
        for bi, i, st in b.iter_stmts():
            if st["k"] == "assign" and st["rv"]["k"] == "agg" and str(st["rv"].get("adt", "")).endswith("ir::Node") and \
                    str(st["rv"].get("variant")) in ("ByteSequence", "ByteSet"):
                r.fail("%s builds Node::%s" % (base, st["rv"].get("variant")),
                       "the parser builds a byte-level node (line %s): Parser::finalize reverses the IR of a lookbehind and panics on byte nodes "
                       "(\"Should not be reversing literal bytes\") — e.g. when the lookbehind comes later in the pattern than the node" % st["line"],
                       facts.loc(fn, st["line"]))
        for bb, t in b.iter_calls():
            cal = t.get("callee") or ""
            if cal.endswith("ops::Index::index") or cal.endswith("ops::IndexMut::index_mut"):
                a0 = t["args"][0] if t["args"] else {}
                ty0 = str(a0.get("pl", {}).get("ty", "")) + " " + (b.local_ty(a0["pl"]["l"]) if a0.get("k") in ("copy", "move") else "")
                ity = b.local_ty(t["args"][1]["pl"]["l"]) if len(t["args"]) > 1 and t["args"][1].get("k") in ("copy", "move") else ""
                if re.search(r"(^|[ &])(str|std::string::String)\b", ty0.replace("alloc::", "std::")) and "Range" in ity:
                    r.fail("%s slices a str" % base, "the parser slices a string by a byte range (line %s): a bound that falls inside a "
                           "multi-byte character panics while compiling" % t.get("line"), facts.loc(fn, t.get("line")))
            if cal.startswith("literal::") or cal.startswith("<literal::"):
                r.fail("%s calls literal::%s" % (base, cal.split("::")[-1]), "the parser calls %s (line %s): the byte lowering belongs to the optimizer / emitter, "
                       "after `finalize` has reversed the lookbehinds — byte-level nodes built while parsing make `reverse_cats` panic when a "
                       "lookbehind follows later in the pattern" % (cal.split("::")[-1], t.get("line")), facts.loc(fn, t.get("line")))
    r.ok("parse.rs builds no byte-level node and slices no str")
    # (c)
    for fn in sorted(facts.body_names()):
        if not re.match(r"^parse::Parser::<I>::try_\w+$", fn):
            continue
        b = facts.body(fn)
        if not b.local_ty(0).replace("core::", "std::").startswith("std::option::Option<"):
            continue
        saves = any((t.get("callee") or "").endswith("Clone::clone") and t["args"] and t["args"][0].get("k") in ("copy", "move") and
                    [x.get("f") for x in b.root_of(t["args"][0]["pl"]["l"])[1] if isinstance(x, dict) and "f" in x][-1:] == ["input"]
                    for _, t in b.iter_calls())
        if saves:
            continue      # REWIND decides those
        n += 1
        consume = set()
        for bb, t in b.iter_calls():
            last = (t.get("callee") or "").split("::")[-1]
            if last in ("next", "consume") and (t.get("callee") or "").startswith("parse::"):
                consume.add(t.get("t"))
        nones = set()
        for bi in b.reachable():
            blk = b.blocks[bi]
            if any(st["k"] == "assign" and st["pl"]["l"] == 0 and not st["pl"]["p"] and st["rv"]["k"] == "agg" and str(st["rv"].get("variant")) == "None"
                   for st in blk["s"]):
                nones.add(bi)
            t = blk["t"]
            if t["k"] == "call" and t["dest"]["l"] == 0 and not t["dest"]["p"] and (t.get("callee") or "").endswith("FromResidual::from_residual"):
                nones.add(bi)
        key = "%s answers None only before consuming" % fn
        passed = [st["line"] for bi, i, st in b.iter_stmts() if st["k"] == "assign" and st["pl"]["l"] == 0 and not st["pl"]["p"] and st["rv"]["k"] != "agg"]
        passed += [t.get("line") for bb, t in b.iter_calls() if t["dest"]["l"] == 0 and not t["dest"]["p"]
                   and not (t.get("callee") or "").endswith("FromResidual::from_residual")
                   and (t.get("callee") or "").split("::")[-1] not in ("then_some", "then")]     # `cond.then_some(v)` is Some/None by a bool
        if passed:
            r.fail(key, "the routine returns an Option it computed elsewhere (line %s) instead of an explicit `Some(..)` / `None`: whether it can "
                        "answer None after consuming input is no longer visible — a checked arithmetic chain that fails on overflow returns "
                        "None for a number the caller `unwrap()`s" % passed[0], facts.loc(fn, passed[0]))
            continue
        late = set()
        dom_ = b.dom()
        for c in consume:
            if c is not None:
                late |= {x for x in nones if c == x or c in dom_[x]}     # on every path to that None something was consumed
        if late:
            ln = b.blocks[sorted(late)[0]]["t"].get("line")
            r.fail(key, "a `None` (line %s) is reachable after the routine has consumed input and it keeps no saved copy to restore: callers "
                        "treat None as 'nothing read' or rely on Some once the first character fits (`\\18446744073709551616` reaches an "
                        "`unwrap()` on None)" % ln, facts.loc(fn, ln))
        else:
            r.ok(key)
    r.floor("try_routines_without_a_saved_copy", n, 1)
    return r


# ---- DUPCONT --------------------------------------------------------------------------------

def check_dupcont(facts):
    r = RuleResult("DUPCONT", "the backtracker's run_loop schedules each continuation once: on a path that returns `Some(ip)` no "
                              "`BacktrackInsn::SetPosition` carrying that same ip was pushed on the way (dominating the return) — the greedy arm "
                              "pushes the exit and enters the body, the lazy arm pushes the body and takes the exit. Pushing the exit and then "
                              "also returning it explores the same continuation twice per loop: k such loops in a row cost 2^k visits "
                              "instead of k + 1 (results unchanged, so no differential test sees it)")
    fn = "classicalbacktrack::MatchAttempter::<'a, Input>::run_loop"
    if not facts.has_body(fn):
        r.error("anchor %s not found" % fn)
        return r
    b = facts.body(fn)
    dom = b.dom()

    def same_value(l):
        """the local a value was first computed into (through plain copies only)"""
        for _ in range(8):
            d = b.single_def(l)
            if d and d[2] == "assign" and d[3]["rv"]["k"] == "use" and d[3]["rv"]["op"].get("k") in ("copy", "move") and not d[3]["rv"]["op"]["pl"]["p"]:
                l = d[3]["rv"]["op"]["pl"]["l"]
            else:
                break
        return l
    pushes = []
    for bi, i, st in b.iter_stmts():
        if st["k"] == "assign" and st["rv"]["k"] == "agg" and str(st["rv"].get("adt", "")).endswith("BacktrackInsn") and \
                str(st["rv"].get("variant")) == "SetPosition":
            flds = st["rv"].get("fields") or []
            if "ip" in flds:
                op = st["rv"]["ops"][flds.index("ip")]
                if op.get("k") in ("copy", "move"):
                    pushes.append((bi, same_value(op["pl"]["l"]), st["line"]))
    n = 0
    for bi, i, st in b.iter_stmts():
        if st["k"] != "assign" or st["pl"]["l"] != 0 or st["pl"]["p"] or st["rv"]["k"] != "agg" or str(st["rv"].get("variant")) != "Some":
            continue
        op = (st["rv"].get("ops") or [{}])[0]
        if op.get("k") not in ("copy", "move"):
            continue
        n += 1
        root = same_value(op["pl"]["l"])
        key = "%s return #%d takes a continuation it did not also push" % (fn, n)
        dup = [ln for pb, pr, ln in pushes if pr == root and (pb == bi or pb in dom[bi])]
        if dup:
            r.fail(key, "the path returning `Some(%s)` (line %s) has already pushed a SetPosition with the same ip (line %s): that "
                        "continuation runs now and again when the record is popped" % (b.local_name(root) or "ip", st["line"], dup[0]),
                   facts.loc(fn, st["line"]))
        else:
            r.ok(key)
    r.floor("run_loop_returns", n, 3)
    r.floor("set_position_pushes", len(pushes), 1)
    return r


# ---- APIENTRY -------------------------------------------------------------------------------

def check_apientry(facts):
    r = RuleResult("APIENTRY", "what the user writes is what gets compiled: (a) the string constructors of api::Regex (`new`, `with_flags`) hand "
                               "the caller's pattern to the parser as it is — the only thing done to it is `chars()` (no trimming, prefix "
                               "stripping, replacing or case change: a stripped U+FEFF is an ordinary pattern character that `escape` left "
                               "intact); (b) `Flags::new` turns each flag letter into exactly one field — the edge taken for one letter stores "
                               "to one field of the Flags under construction (an implied second flag set there exists only for flags that "
                               "came as a string, not for a `Flags` struct built by the caller); (c) in parse.rs a character is not pushed onto "
                               "a buffer under a test of that buffer's length (silent truncation: an over-long property name is looked up by its prefix)")
    n = 0
    for fn in ("api::Regex::with_flags", "api::Regex::new"):
        if not facts.has_body(fn):
            r.error("anchor %s not found" % fn)
            continue
        b = facts.body(fn)
        pats = [l for l in range(1, b.argc + 1) if b.local_ty(l).replace(" ", "") == "&str"]
        key = "%s passes the pattern on unchanged" % fn
        bad = []
        for bb, t in b.iter_calls():
            for ai, a in enumerate(t["args"]):
                if a.get("k") in ("copy", "move") and b.root_of(a["pl"]["l"])[0] in pats:
                    last = (t.get("callee") or "").split("::")[-1]
                    n += 1
                    if last not in ("chars", "with_flags", "from_unicode", "into", "as_ref", "borrow", "deref"):
                        bad.append("`%s` (line %s)" % (last, t.get("line")))
        if bad:
            r.fail(key, "the pattern is passed through %s before it reaches the parser: the compiled regex no longer denotes the string the "
                        "caller gave (escape(s) for an s starting with U+FEFF matches s without its first character)" % ", ".join(bad), facts.loc(fn))
        else:
            r.ok(key)
    r.floor("pattern_uses_in_the_string_constructors", n, 2)
    fn = "api::Flags::new"
    if not facts.has_body(fn):
        r.error("anchor %s not found" % fn)
    else:
        b = facts.body(fn)
        dom = b.dom()
        ne = 0
        for bi in sorted(b.reachable()):
            t = b.blocks[bi]["t"]
            if t["k"] != "switch" or t.get("dty") != "char":
                continue
            for v, tg in t["targets"]:
                region = {x for x in b.reachable() if x == tg or tg in dom[x]}
                flds = set()
                for x in region:
                    for st in b.blocks[x]["s"]:
                        if st["k"] == "assign" and st["pl"]["p"] and "Flags" in b.local_ty(b.root_of(st["pl"]["l"])[0]):
                            flds |= set(core.proj_fields(st["pl"])[-1:])
                ne += 1
                key = "api::Flags::new letter %r sets one flag" % chr(v)
                if len(flds) == 1:
                    r.ok(key, sorted(flds)[0])
                else:
                    r.fail(key, "the arm for the flag letter %r stores to %s: one letter, one flag — an implication wired in here holds only "
                                "for flags parsed from a string, while the parser is also handed `Flags` structs built field by field" % (
                                    chr(v), sorted(flds) or "no field"), facts.loc(fn, t.get("line")))
        r.floor("flag_letters", ne, 5)
    # (c)
    for fn in sorted(facts.body_names()):
        if not fn.startswith("parse::") or "::tests::" in fn:
            continue
        b = facts.body(fn)
        dom = None
        for bb, t in b.iter_calls():
            if not (t.get("callee") or "").endswith("String::push") or not t["args"] or t["args"][0].get("k") not in ("copy", "move"):
                continue
            buf = b.root_of(t["args"][0]["pl"]["l"])[0]
            dom = dom or b.dom()
            for sb in dom[bb]:
                ts = b.blocks[sb]["t"]
                if ts["k"] != "switch" or ts["discr"].get("k") not in ("copy", "move"):
                    continue
                d = b.single_def(ts["discr"]["pl"]["l"])
                if not d or d[2] != "assign" or d[3]["rv"]["k"] != "bin" or d[3]["rv"]["op"] not in ("Lt", "Le", "Gt", "Ge"):
                    continue
                for o in (d[3]["rv"]["a"], d[3]["rv"]["b"]):
                    if o.get("k") in ("copy", "move"):
                        dl = b.single_def(o["pl"]["l"])
                        if dl and dl[2] == "call" and (dl[3].get("callee") or "").split("::")[-1] == "len" and dl[3]["args"] and \
                                dl[3]["args"][0].get("k") in ("copy", "move") and b.root_of(dl[3]["args"][0]["pl"]["l"])[0] == buf:
                            r.fail("%s pushes under a length test of the buffer" % re.sub(r"::\{closure#\d+\}", "", fn),
                                   "a character is appended to `%s` only while the buffer is shorter than a bound (line %s): the rest of the "
                                   "text is consumed and dropped, so an over-long name is accepted by its prefix "
                                   "(`\\p{Default_Ignorable_Code_Points}`)" % (b.local_name(buf) or "the buffer", t.get("line")),
                                   facts.loc(fn, t.get("line")))
    r.ok("parse.rs appends consumed characters unconditionally")
    return r


# ---- MONOID ---------------------------------------------------------------------------------

def check_monoid(facts):
    r = RuleResult("MONOID", "the emitter hands out loop slots from a counter (`next_loop_id`), sizes the loop store from `result.loops` and counts "
                             "capture groups in `result.groups` (one per emitted CaptureGroup node, where the group's name is recorded): every "
                             "store to any of them is `<itself> + constant` (the initial 0 in the constructor aside), so no two loops of a "
                             "program share a slot, the store has one entry per loop, and groups are not counted in bulk past the place that "
                             "records their names. Rewinding the counter (`self.next_loop_id = saved`) makes a "
                             "loop inside a lookaround and a loop after it share a LoopData whose undo records live on different backtrack "
                             "stacks: the empty-iteration check reads a stale count and the search does not terminate")
    n = 0
    for fn in sorted(facts.body_names()):
        if not fn.startswith("emit::") and "emit::" not in fn.split(" as ")[0]:
            continue
        b = facts.body(fn)
        for bi, i, s in b.iter_stmts():
            if s["k"] != "assign" or "*" not in s["pl"]["p"]:
                continue
            fl = core.proj_fields(s["pl"])
            if not fl or fl[-1] not in ("next_loop_id", "loops", "groups") or (fl[-1] in ("loops", "groups") and "result" not in fl):
                continue
            n += 1
            key = "%s store to %s #%d" % (re.sub(r"::\{closure#\d+\}", "", fn), ".".join(fl), n)
            rv = s["rv"]
            ok = False
            src = rv
            if rv["k"] == "use" and rv["op"].get("k") in ("copy", "move") and not rv["op"]["pl"]["p"]:
                d0 = b.single_def(rv["op"]["pl"]["l"])
                if d0 and d0[2] == "assign":
                    src = d0[3]["rv"]
                    # checked arithmetic: (tmp.0) of AddWithOverflow
            if rv["k"] == "use" and rv["op"].get("k") in ("copy", "move") and rv["op"]["pl"]["p"]:
                d0 = b.single_def(rv["op"]["pl"]["l"])
                if d0 and d0[2] == "assign":
                    src = d0[3]["rv"]
            if src["k"] in ("bin", "checked_bin") and str(src.get("op", "")).startswith("Add"):
                a, c = src["a"], src["b"]
                same = a.get("k") in ("copy", "move") and core.proj_fields(a["pl"])[-1:] == fl[-1:] if a.get("k") in ("copy", "move") and a["pl"]["p"] else False
                if not same and a.get("k") in ("copy", "move"):
                    d1 = b.single_def(a["pl"]["l"])
                    same = bool(d1) and d1[2] == "assign" and d1[3]["rv"]["k"] == "use" and d1[3]["rv"]["op"].get("k") in ("copy", "move") \
                        and core.proj_fields(d1[3]["rv"]["op"]["pl"])[-1:] == fl[-1:]
                ok = same and b.const_of_operand(c) is not None and b.const_of_operand(c) >= 1
            if ok:
                r.ok(key, "incremented")
                r.sample({"function": fn, "line": s["line"], "field": ".".join(fl)})
            else:
                r.fail(key, "`%s` is assigned something other than itself plus a constant (line %s): loop slots can be handed out twice, the "
                            "loop store no longer has one entry per loop, or groups are counted without their names being recorded" % (
                                ".".join(fl), s["line"]), facts.loc(fn, s["line"]))
    r.floor("counter_stores", n, 3)
    return r


# ---- FOLDEQ ---------------------------------------------------------------------------------

def check_foldeq(facts):
    r = RuleResult("FOLDEQ", "InputIndexer::fold_equals decides case-insensitive back-references at match time: two code units are equal under "
                             "/i when they are identical or when *both* canonicalise to the same thing. Every equality test in it compares "
                             "either the two raw arguments or the fold of one with the fold of the other; a fold compared with a raw argument "
                             "(`fold(c1) == c2`) is only right when one side is already canonical — two non-canonical members of one class "
                             "(U+212A and K, U+017F and S) stop matching each other while literals and classes, expanded at compile time, still do")
    fn = "indexing::InputIndexer::fold_equals"
    if not facts.has_body(fn):
        r.error("anchor %s not found" % fn)
        return r
    b = facts.body(fn)

    def kind(op):
        """('raw', param) | ('fold', param) | ('other',)"""
        if op.get("k") not in ("copy", "move"):
            return ("other",)
        rt, pr = b.root_of(op["pl"]["l"])
        if 1 <= rt <= b.argc:
            return ("raw", rt)
        d = b.single_def(rt)
        if d and d[2] == "call" and (d[3].get("callee") or "").split("::")[-1] == "fold" and len(d[3]["args"]) >= 2:
            a = d[3]["args"][1]
            if a.get("k") in ("copy", "move"):
                r2, _ = b.root_of(a["pl"]["l"])
                if 1 <= r2 <= b.argc:
                    return ("fold", r2)
        return ("other",)
    n = 0
    both = False
    for bb, t in b.iter_calls():
        if not (t.get("callee") or "").endswith("PartialEq::eq") and not (t.get("callee") or "").endswith("PartialEq::ne"):
            continue
        n += 1
        ka, kb = kind(t["args"][0]), kind(t["args"][1])
        key = "%s comparison #%d" % (fn, n)
        kinds = {ka[0], kb[0]}
        if kinds == {"raw"} and ka[1] != kb[1]:
            r.ok(key, "raw == raw")
        elif kinds == {"fold"} and ka[1] != kb[1]:
            both = True
            r.ok(key, "fold(c1) == fold(c2)")
        else:
            r.fail(key, "fold_equals compares %s with %s (line %s): a folded value is compared with an unfolded one (or a value with itself)" % (
                ka, kb, t.get("line")), facts.loc(fn, t.get("line")))
    for bi, i, s in b.iter_stmts():
        if s["k"] == "assign" and s["rv"]["k"] == "bin" and s["rv"]["op"] in ("Eq", "Ne"):
            n += 1
            ka, kb = kind(s["rv"]["a"]), kind(s["rv"]["b"])
            key = "%s comparison #%d" % (fn, n)
            if {ka[0], kb[0]} == {"fold"} and ka[1] != kb[1]:
                both = True
                r.ok(key, "fold == fold")
            elif {ka[0], kb[0]} == {"raw"} and ka[1] != kb[1]:
                r.ok(key, "raw == raw")
            else:
                r.fail(key, "fold_equals compares %s with %s (line %s)" % (ka, kb, s["line"]), facts.loc(fn, s["line"]))
    if not both:
        r.fail("%s folds both sides" % fn, "no comparison of fold(c1) with fold(c2) found", facts.loc(fn))
    r.floor("comparisons", n, 1)
    return r


# ---- RANGEORDER -----------------------------------------------------------------------------

def check_rangeorder(facts):
    r = RuleResult("RANGEORDER", "a class range `a-b` parsed from the pattern becomes Interval{first: a, last: b} only after `a > b` was tested and "
                                 "rejected with an error: every Interval built in parse.rs from two different parsed values is dominated by an "
                                 "ordering comparison of those two values (the sibling range sites — legacy bracket, first and later items of a "
                                 "v-mode class — all have it). Without it a reversed range reaches CodePointSet::add, whose precondition "
                                 "`first <= last` is only a debug_assert: a panic in checked builds, a corrupted set in release instead of Err")

    def named_root(b, op, depth=0):
        if op.get("k") not in ("copy", "move") or depth > 8:
            return None
        l = op["pl"]["l"]
        if b.local_name(l):
            return l
        d = b.single_def(l)
        if not d or d[2] != "assign":
            return None
        rv = d[3]["rv"]
        if rv["k"] in ("use", "cast"):
            return named_root(b, rv["op"], depth + 1)
        if rv["k"] == "ref":
            return named_root(b, {"k": "copy", "pl": rv["pl"]}, depth + 1)
        return None
    n = 0
    for fn in sorted(facts.body_names()):
        if not fn.startswith("parse::") or "{closure" in fn:
            continue
        b = facts.body(fn)
        dom = b.dom()
        k = 0
        for bi, i, s in b.iter_stmts():
            if s["k"] != "assign" or s["rv"]["k"] != "agg" or not str(s["rv"].get("adt", "")).endswith("codepointset::Interval"):
                continue
            ops = s["rv"]["ops"]
            if len(ops) != 2:
                continue
            ra, rb = named_root(b, ops[0]), named_root(b, ops[1])
            if ra is None or rb is None or ra == rb:
                continue
            n += 1
            k += 1
            key = "%s range #%d (%s..%s)" % (fn, k, b.local_name(ra), b.local_name(rb))
            found = None
            for d in dom[bi]:
                t = b.blocks[d]["t"]
                if t["k"] != "switch" or t["discr"].get("k") not in ("copy", "move"):
                    continue
                dd = b.single_def(t["discr"]["pl"]["l"])
                if not dd:
                    continue
                pair = None
                if dd[2] == "assign" and dd[3]["rv"]["k"] == "bin" and dd[3]["rv"]["op"] in ("Gt", "Lt", "Ge", "Le"):
                    pair = {named_root(b, dd[3]["rv"]["a"]), named_root(b, dd[3]["rv"]["b"])}
                elif dd[2] == "call" and (dd[3].get("callee") or "").split("::")[-1] in ("gt", "lt", "ge", "le") and len(dd[3]["args"]) == 2:
                    pair = {named_root(b, dd[3]["args"][0]), named_root(b, dd[3]["args"][1])}
                if pair == {ra, rb}:
                    succ = b.succ().get(d, [])
                    # one edge must not reach the construction (the error return)
                    if any(bi not in b.reach_from(x) for x in succ):
                        found = t.get("line")
            if found:
                r.ok(key, "ordered by the test at line %s" % found)
                r.sample({"function": fn, "line": s["line"], "order_test_line": found})
            else:
                r.fail(key, "Interval{first: %s, last: %s} is built at line %s without a dominating test that `%s <= %s` (reversed ranges are "
                            "not rejected on this path): `[xb-a]` panics in checked builds and corrupts the set in release instead of returning "
                            "a syntax error" % (b.local_name(ra), b.local_name(rb), s["line"], b.local_name(ra), b.local_name(rb)), facts.loc(fn, s["line"]))
    r.floor("parsed_ranges", n, 2)
    return r


# ---- FLAGSCOPE ------------------------------------------------------------------------------

def check_flagscope(facts):
    r = RuleResult("FLAGSCOPE", "a modifier group `(?ims-ims:…)` changes the parser's flags for its own body only. Wherever the parser overwrites "
                                "`self.flags` as a whole after having copied it into a local that is never modified (the saved value), every "
                                "path from that overwrite to a return passes a whole-struct store `self.flags = <saved>` (cut-set reachability): "
                                "restoring single fields (`self.flags.icase = saved.icase`) leaks the other modifiers (`m`, `s`) into the rest "
                                "of the pattern — `/(?s:a).b/` then lets the outer `.` match a newline")
    n = 0
    for fn in sorted(facts.body_names()):
        if not fn.startswith("parse::") or "{closure" in fn:
            continue
        b = facts.body(fn)
        # pure saved copies of self.flags
        saves = set()
        for l, ds in b.defs().items():
            if "api::Flags" not in b.local_ty(l) or l <= b.argc:
                continue
            whole = [d for d in ds if d[2] == "assign" and not d[3]["pl"]["p"]]
            field_stores = [d for d in ds if d[2] == "assign" and d[3]["pl"]["p"]]
            if len(whole) == 1 and not field_stores and whole[0][3]["rv"]["k"] == "use" and whole[0][3]["rv"]["op"].get("k") in ("copy", "move") \
                    and core.proj_fields(whole[0][3]["rv"]["op"]["pl"])[-1:] == ["flags"]:
                # no `&mut saved` taken either
                saves.add(l)
        if not saves:
            continue
        sets, restores = [], set()
        for bi, i, s in b.iter_stmts():
            if s["k"] != "assign" or "*" not in s["pl"]["p"]:
                continue
            fl = core.proj_fields(s["pl"])
            if fl[-1:] != ["flags"]:
                continue
            op = s["rv"].get("op") if s["rv"]["k"] == "use" else None
            src = None
            if op and op.get("k") in ("copy", "move") and not op["pl"]["p"]:
                src = op["pl"]["l"]
                for _ in range(6):
                    if src in saves:
                        break
                    d0 = b.single_def(src)
                    if d0 and d0[2] == "assign" and d0[3]["rv"]["k"] == "use" and d0[3]["rv"]["op"].get("k") in ("copy", "move") \
                            and not d0[3]["rv"]["op"]["pl"]["p"]:
                        src = d0[3]["rv"]["op"]["pl"]["l"]
                    else:
                        break
            if src in saves:
                restores.add(bi)
            else:
                sets.append((bi, s["line"]))
        for k, (bi, line) in enumerate(sets, 1):
            n += 1
            key = "%s scoped flags #%d" % (fn, k)
            reach = b.reach_from(bi, avoid=restores - {bi})
            leaks = [x for x in b.exits() if x in reach]
            if leaks:
                r.fail(key, "after `self.flags` is replaced at line %s a return is reachable without `self.flags = <saved copy>` (only part of "
                            "the flags, or nothing, is restored on that path): modifiers of the group stay in force for the rest of the pattern" % line,
                       facts.loc(fn, line))
            else:
                r.ok(key, "every exit restores the saved flags")
                r.sample({"function": fn, "set_line": line, "restore_blocks": len(restores)})
    r.floor("scoped_flag_changes", n, 1)
    return r


# ---- PREDSOUND ------------------------------------------------------------------------------

def check_predsound(facts):
    from .lbseq import natural_loops
    r = RuleResult("PREDSOUND", "the start predicate may only leave out positions where no match can start, so what it is built from must be "
                                "complete: (EVERYIV) the loop of cps_to_first_byte_bitmap calls add_utf8_first_bytes_to_bitmap for every interval "
                                "of the class — no iteration reaches the next one without it (an interval starting under an already set lead "
                                "byte can still extend to further lead bytes); (PREFIX) in disjunction(Sequence, Sequence) the literal kept is "
                                "`s1[..n]` with n the immutable count of equal leading bytes of both alternatives — a longer slice is no longer a "
                                "prefix of the other alternative, so matches starting with it are skipped")
    # EVERYIV
    fn = "startpredicate::cps_to_first_byte_bitmap"
    if not facts.has_body(fn):
        r.error("anchor %s not found" % fn)
    else:
        b = facts.body(fn)
        adds = [bb for bb, t in b.iter_calls() if (t.get("callee") or "").endswith("add_utf8_first_bytes_to_bitmap")]
        loops = natural_loops(b)
        key = "%s adds every interval" % fn
        if not adds:
            r.fail(key, "add_utf8_first_bytes_to_bitmap is no longer called", facts.loc(fn))
        else:
            cands = [(h, ns) for h, ns in loops.items() if adds[0] in ns]
            if not cands:
                r.fail(key, "the call is not inside the loop over the set's intervals", facts.loc(fn))
            else:
                h, ns = min(cands, key=lambda x: len(x[1]))
                succ = b.succ()
                seen, stack, skipped = set(), [x for x in succ.get(h, []) if x in ns], False
                while stack:
                    x = stack.pop()
                    if x in seen or x in adds or x not in ns:
                        continue
                    if x == h:
                        skipped = True
                        break
                    seen.add(x)
                    stack.extend(succ.get(x, []))
                if skipped:
                    r.fail(key, "an iteration of the loop over the intervals can reach the next one without adding the interval's lead bytes "
                                "(a `continue`): the byte set misses lead bytes of characters in the class, so the prefilter skips matches", facts.loc(fn))
                else:
                    r.ok(key, "no path around the call inside the loop")
                    r.sample({"function": fn, "loop_header_block": h})
    # GROWONLY: the byte sets of start predicates are only ever extended
    ALLOWED = {"set", "bitor", "new", "default", "add_utf8_first_bytes_to_bitmap", "deref_mut", "deref", "as_mut", "as_ref", "count_bits",
               "as_array", "contains", "clone", "find_in", "fmt", "eq"}
    nmut = 0
    for fnm in sorted(facts.body_names()):
        if not fnm.startswith("startpredicate::") or "::tests::" in fnm:
            continue
        bb_ = facts.body(fnm)
        for blk, t in bb_.iter_calls():
            cal = t.get("callee") or ""
            if "ByteBitmap" not in cal and not cal.startswith("util::add_utf8_first_bytes_to_bitmap"):
                continue
            last = cal.split("::")[-1]
            nmut += 1
            if last not in ALLOWED:
                r.fail("%s bitmap operation %s" % (fnm, last), "the start predicate's byte set is modified through `%s` (line %s): only operations "
                       "that add bytes (set, bitor, add_utf8_first_bytes_to_bitmap) keep it a superset of the possible first bytes; removing a "
                       "lead byte (0xED is shared by U+D000..U+D7FF and the surrogates) makes the prefilter skip real matches" % (last, t.get("line")),
                       facts.loc(fnm, t.get("line")))
    if nmut:
        r.ok("startpredicate byte sets only grow", "%d bitmap operations, all additive" % nmut)
    # PREFIX
    fn = "startpredicate::AbstractStartPredicate::disjunction"
    if not facts.has_body(fn):
        r.error("anchor %s not found" % fn)
    else:
        b = facts.body(fn)
        n = 0
        for bb, t in b.iter_calls():
            if not (t.get("callee") or "").endswith("ops::Index::index") or len(t["args"]) < 2:
                continue
            ra = t["args"][1]
            d = b.single_def(ra["pl"]["l"]) if ra.get("k") in ("copy", "move") else None
            if not d or d[2] != "assign" or d[3]["rv"]["k"] != "agg" or "RangeTo" not in str(d[3]["rv"].get("adt")):
                continue
            if t.get("exp"):
                continue
            n += 1
            key = "%s shared-prefix slice #%d" % (fn, n)
            end = d[3]["rv"]["ops"][0]
            ok = False
            why = "its end is a constant"
            if end.get("k") in ("copy", "move"):
                cur = end["pl"]["l"]
                for _ in range(6):
                    ds = b.defs().get(cur, [])
                    if len(ds) != 1:
                        why = "its end `%s` is assigned %d times (it is adjusted after the count)" % (b.local_name(cur) or "_%d" % cur, len(ds))
                        break
                    if ds[0][2] == "call":
                        ok = (ds[0][3].get("callee") or "").endswith("Iterator::count")
                        why = "its end comes from %s" % (ds[0][3].get("callee") or "?").split("::")[-1]
                        break
                    rv = ds[0][3]["rv"]
                    if rv["k"] == "use" and rv["op"].get("k") in ("copy", "move") and not rv["op"]["pl"]["p"]:
                        cur = rv["op"]["pl"]["l"]
                        continue
                    why = "its end is computed (%s)" % rv["k"]
                    break
            if ok:
                r.ok(key, "s[..count of equal leading bytes]")
            else:
                r.fail(key, "the literal kept for two alternatives is sliced at something other than the count of their equal leading bytes "
                            "(%s): it need not be a prefix of both alternatives" % why, facts.loc(fn, t.get("line")))
        r.floor("shared_prefix_slices", n, 1)
    return r


# ---- CHARSETALL -----------------------------------------------------------------------------

def check_charsetall(facts):
    r = RuleResult("CHARSETALL", "Insn::CharSet holds MAX_CHAR_SET_LENGTH slots (the emitter pads short classes, CHARSETPAD); "
                                 "bytesearch::charset_contains — the membership test both interpreters use — looks at every slot: it either "
                                 "iterates the whole array (`set.iter()` with no skipping adaptor) or reads constant indices 0..N-1, all of them. "
                                 "An unrolled version that stops at slot 2 silently drops the fourth member of the four-member case classes "
                                 "(θ/Θ/ϑ/ϴ, ι/Ι/ͅ/ι)")
    fn = "bytesearch::charset_contains"
    if not facts.has_body(fn):
        r.error("anchor %s not found" % fn)
        return r
    b = facts.body(fn)
    arr = [l for l in range(1, b.argc + 1) if "[u32;" in b.local_ty(l)]
    if not arr:
        r.error("charset_contains: array parameter not found")
        return r
    m = re.search(r"\[u32; (\d+)\]", b.local_ty(arr[0]))
    n_slots = int(m.group(1)) if m else None
    if n_slots is None:
        m2 = re.search(r"\[u32; ([\w:]+)\]", b.local_ty(arr[0]))
        for name, c in facts.consts.items():
            if m2 and name.endswith(m2.group(1).split("::")[-1]) and isinstance(c, dict) and isinstance(c.get("eval", c.get("int")), int):
                n_slots = c.get("eval", c.get("int"))
    iters = [t for bb, t in b.iter_calls() if (t.get("callee") or "").endswith("::iter") and t["args"] and t["args"][0].get("k") in ("copy", "move")
             and b.root_of(t["args"][0]["pl"]["l"])[0] == arr[0]]
    skipping = [(t.get("callee") or "").split("::")[-1] for bb, t in b.iter_calls()
                if (t.get("callee") or "").split("::")[-1] in ("take", "skip", "step_by", "take_while", "skip_while", "chunks", "get", "first", "last", "split_at")]
    import json as _j
    idx = set()
    for bi, i, s in b.iter_stmts():
        for mm in re.finditer(r'\{"cidx": (\d+)', _j.dumps(s)):
            idx.add(int(mm.group(1)))
        if s["k"] == "assign":
            for mm in re.finditer(r'"idx": (\d+)', _j.dumps(s)):
                c = b.const_of_operand({"k": "copy", "pl": {"l": int(mm.group(1)), "p": []}})
                if c is not None:
                    idx.add(c)
    key = "%s examines all %s slots" % (fn, n_slots)
    if iters and not skipping:
        r.ok(key, "iterates the whole array")
        r.sample({"function": fn, "slots": n_slots, "form": "iter()"})
    elif n_slots is not None and idx >= set(range(n_slots)) and not iters:
        r.ok(key, "reads indices %s" % sorted(idx))
    else:
        r.fail(key, "charset_contains does not look at every slot of the %s-slot set (iterates whole array: %s, skipping adaptors: %s, constant "
                    "indices read: %s): members stored in the unread slots never match" % (n_slots, bool(iters), skipping, sorted(idx)), facts.loc(fn))
    return r


# ---- INCLAST --------------------------------------------------------------------------------

def check_inclast(facts):
    r = RuleResult("INCLAST", "case-fold ranges and the intervals walked in unicode.rs are closed: a value obtained from `.last()` (or bound to a "
                              "`*last*` local from it) is the *last member*. Every comparison of such a bound with a walking code point is, in "
                              "canonical form, `last < x` or its negation (`x <= last`, `last < x`, ...), never `x < last`: the strict form ends a "
                              "stride walk one pair early, so the last pair of a strided fold range is missing from a case-closed class")

    def bound_kind(b, op, depth=0):
        """'last' if the operand is an inclusive upper bound, else None"""
        if op.get("k") not in ("copy", "move") or depth > 6:
            return None
        l = op["pl"]["l"]
        fl = core.proj_fields(op["pl"])
        if fl and fl[-1] == "last":
            return "last"
        nm = b.local_name(l) or ""
        if "last" in nm:
            return "last"
        d = b.single_def(l)
        if d and d[2] == "call" and (d[3].get("callee") or "").split("::")[-1] == "last":
            return "last"
        if d and d[2] == "assign" and d[3]["rv"]["k"] in ("use", "cast") and d[3]["rv"]["op"].get("k") in ("copy", "move"):
            return bound_kind(b, d[3]["rv"]["op"], depth + 1)
        return None
    n = 0
    for fn in sorted(facts.body_names()):
        if not fn.startswith("unicode::") or "::tests::" in fn:
            continue
        b = facts.body(fn)
        k = 0
        for bi, i, s in b.iter_stmts():
            if s["k"] != "assign" or s["rv"]["k"] != "bin" or s["rv"]["op"] not in ("Lt", "Le", "Gt", "Ge"):
                continue
            ka, kb = bound_kind(b, s["rv"]["a"]), bound_kind(b, s["rv"]["b"])
            if (ka == "last") == (kb == "last"):
                continue
            n += 1
            k += 1
            op = s["rv"]["op"]
            last_left = ka == "last"
            # canonical `lo < hi` (non-strict folded into the negated reverse)
            lo_is_last = (last_left and op in ("Lt",)) or ((not last_left) and op in ("Gt",)) or \
                         ((not last_left) and op in ("Le",)) or (last_left and op in ("Ge",))
            key = "%s test against an inclusive last #%d" % (re.sub(r"::\{closure#\d+\}", "", fn), k)
            if lo_is_last:
                r.ok(key, "`last < x` form")
                r.sample({"function": fn, "line": s["line"], "op": op})
            else:
                r.fail(key, "the comparison at line %s treats the inclusive bound `last` as exclusive (canonical form `x < last`): the last "
                            "member of the range is never visited" % s["line"], facts.loc(fn, s["line"]))
    r.floor("inclusive_bound_tests", n, 4)
    return r


# ---- DEPTHBAL -------------------------------------------------------------------------------

def check_depthbal(facts):
    r = RuleResult("DEPTHBAL", "the parser's nesting counter (`self.depth`) is a depth, not a count: a function that increments it decrements it "
                               "again on every path to a successful return (cut-set reachability from the increment to each `Ok(..)` / tail "
                               "return, avoiding the decrements; `?` / `return error(..)` exits abort the parse and are exempt) — or it is an "
                               "'enter' helper all of whose callers do so after the call. A missing "
                               "decrement makes every nested class consume a level for the rest of the pattern: the 257th `[[a][b]…]` operand is "
                               "rejected as 'too deeply nested' at real depth 2")
    n = 0

    def summary(fn):
        b = facts.body(fn)
        incs, decs = [], set()
        for bi, i, s in b.iter_stmts():
            if s["k"] != "assign" or "*" not in s["pl"]["p"] or core.proj_fields(s["pl"])[-1:] != ["depth"]:
                continue
            src = s["rv"]
            if src["k"] == "use" and src["op"].get("k") in ("copy", "move"):
                d0 = b.single_def(src["op"]["pl"]["l"])
                if d0 and d0[2] == "assign":
                    src = d0[3]["rv"]
            op = str(src.get("op", "")) if src["k"] in ("bin", "checked_bin") else ""
            if op.startswith("Add"):
                incs.append((bi, s["line"]))
            elif op.startswith("Sub"):
                decs.add(bi)
        ok_rets = []
        for bi, i, s in b.iter_stmts():
            if s["k"] == "assign" and s["pl"]["l"] == 0 and not s["pl"]["p"] and s["rv"]["k"] == "agg" and str(s["rv"].get("variant")) in ("Ok", "Some"):
                ok_rets.append((bi, s["line"]))
        for bb, t in b.iter_calls():
            if t["dest"]["l"] == 0 and not t["dest"]["p"]:
                last = (t.get("callee") or "").split("::")[-1]
                if last in ("from_residual", "error"):
                    continue
                ok_rets.append((bb, t.get("line")))
        return b, incs, decs, ok_rets

    def leaks_from(b, start, decs, ok_rets):
        reach = b.reach_from(start, avoid=decs - {start})
        return [ln for rb, ln in ok_rets if rb in reach and rb not in decs]
    parse_fns = [f_ for f_ in sorted(facts.body_names()) if f_.startswith("parse::") and "{closure" not in f_]
    summ = {f_: summary(f_) for f_ in parse_fns}
    for fn in parse_fns:
        b, incs, decs, ok_rets = summ[fn]
        for k, (ib, iline) in enumerate(incs, 1):
            n += 1
            key = "%s depth increment #%d is undone" % (fn, k)
            leak = leaks_from(b, ib, decs, ok_rets)
            if not leak:
                r.ok(key, "every successful exit passes the decrement")
                r.sample({"function": fn, "increment_line": iline, "decrement_blocks": len(decs)})
                continue
            # an 'enter' helper: every call site, in every caller, is followed by the decrement on all successful exits
            sites = []
            for c in parse_fns:
                cb, _ci, cdecs, cok = summ[c]
                for bb, t in cb.iter_calls():
                    if (t.get("callee") or "") == fn:
                        sites.append((c, bb, leaks_from(cb, t["t"], cdecs, cok) if t.get("t") is not None else ["?"]))
            if sites and all(not lk for _, _, lk in sites) and fn not in {c for c, _, _ in sites}:
                r.ok(key, "enter helper: undone by its caller(s) %s after the call" % sorted({c.split("::")[-1] for c, _, _ in sites}))
                continue
            r.fail(key, "after `self.depth += 1` (line %s) a successful return (line %s) is reachable without `self.depth -= 1`%s: the level "
                        "stays consumed for the rest of the pattern" % (iline, leak[0], " (and its callers do not undo it either)" if sites else ""),
                   facts.loc(fn, iline))
    r.floor("depth_increments", n, 2)
    return r


# ---- UNROLLBOUND ----------------------------------------------------------------------------

def check_unrollbound(facts):
    r = RuleResult("UNROLLBOUND", "optimizer::unroll_loops duplicates the loop body `quant.min` times: the loop that does so is dominated by a test "
                                  "of that same `quant.min` against a constant (LOOP_UNROLL_THRESHOLD) whose other edge answers Keep, so the size "
                                  "of the unrolled program is bounded by a constant, not by a number written in the pattern. A test on `max` "
                                  "instead leaves `x{1000000,}` (max = None) unrolled a million times")
    fn = "optimizer::unroll_loops"
    if not facts.has_body(fn):
        r.error("anchor %s not found" % fn)
        return r
    b = facts.body(fn)
    from .lbseq import natural_loops as _nl
    dups = [bb for bb, t in b.iter_calls() if (t.get("callee") or "").endswith("try_duplicate")]
    clos = []
    for cl in [n_ for n_ in facts.body_names() if n_.startswith(fn + "::{closure")]:
        if any((t.get("callee") or "").endswith("try_duplicate") for _, t in facts.body(cl).iter_calls()):
            clos.append(cl)
    if not dups and not clos:
        r.error("unroll_loops no longer calls try_duplicate")
        return r

    def is_min(op):
        if op.get("k") not in ("copy", "move"):
            return False
        rt, pr = b.root_of(op["pl"]["l"])
        fl = [x.get("f") for x in pr if isinstance(x, dict) and "f" in x] + core.proj_fields(op["pl"])
        return fl[-1:] == ["min"]
    # where the duplication is driven from: the try_duplicate call blocks, or the block that creates the duplicating closure / range
    sites = list(dups)
    for bi, i, s in b.iter_stmts():
        if s["k"] == "assign" and s["rv"]["k"] == "agg" and (s["rv"].get("ak") == "closure" and any(str(s["rv"].get("def", "")).endswith(c.split("::")[-1]) for c in clos)):
            sites.append(bi)
    dom = b.dom()
    n = 0
    for sb in sorted(set(sites)):
        n += 1
        key = "%s duplication is bounded by a test on quant.min" % fn
        found = None
        for d in dom[sb]:
            t = b.blocks[d]["t"]
            if t["k"] != "switch" or t["discr"].get("k") not in ("copy", "move"):
                continue
            # value sources of the discriminant incl. `a || b` control dependence: look for Gt/Ge/Lt/Le(min, const)
            stack, seen = [t["discr"]["pl"]["l"]], set()
            while stack:
                l = stack.pop()
                if l in seen:
                    continue
                seen.add(l)
                for _bi, _si, kind, pay in b.defs().get(l, []):
                    if kind != "assign":
                        continue
                    rv = pay["rv"]
                    if rv["k"] == "bin" and rv["op"] in ("Gt", "Ge", "Lt", "Le"):
                        def is_k(o):
                            if o.get("k") == "const":
                                return True
                            if b.const_of_operand(o) is not None:
                                return True
                            if o.get("k") in ("copy", "move") and not o["pl"]["p"]:
                                dk = b.single_def(o["pl"]["l"])
                                return bool(dk) and dk[2] == "assign" and dk[3]["rv"]["k"] in ("use", "cast") and dk[3]["rv"]["op"].get("k") == "const"
                            return False
                        if (is_min(rv["a"]) and is_k(rv["b"])) or (is_min(rv["b"]) and is_k(rv["a"])):
                            # `min == 0` is not a bound: the constant must be an upper limit (Gt/Ge with min on the left, Lt/Le on the right)
                            upper = (is_min(rv["a"]) and rv["op"] in ("Gt", "Ge", "Le", "Lt")) or (is_min(rv["b"]) and rv["op"] in ("Lt", "Le", "Gt", "Ge"))
                            if upper:
                                found = pay.get("line")
                    for k_ in ("op", "a", "b"):
                        o = rv.get(k_)
                        if isinstance(o, dict) and o.get("k") in ("copy", "move") and not o["pl"]["p"]:
                            stack.append(o["pl"]["l"])
        if found:
            r.ok(key, "threshold test at line %s" % found)
            r.sample({"function": fn, "threshold_test_line": found})
        else:
            r.fail(key, "the duplication of the loop body is not dominated by a comparison of `quant.min` with a constant: the number of copies "
                        "is whatever the pattern says (`x{1000000,}`), so compile time and memory are unbounded", facts.loc(fn, b.blocks[sb]["t"].get("line")))
        break
    r.floor("duplication_sites", n, 1)
    return r

"""Shared analyses over the JSON facts produced by driver/ (regress-facts).

Nothing in here executes regress; everything is computed from the MIR/HIR/type facts of the
type-checked crate.
"""
import json
import os
import re
import hashlib
import shutil
import subprocess
import tempfile
import time

VERIF = os.path.dirname(os.path.dirname(os.path.abspath(__file__)))
REPO = os.environ.get("VERIF_REPO", "/repo")
DRIVER = os.path.join(VERIF, "driver", "target", "release", "regress-facts")

CONFIGS = {
    "default": [],
    "pu": ["--features", "prohibit-unsafe"],
    "ip": ["--features", "index-positions"],
    "ip+pu": ["--features", "index-positions,prohibit-unsafe"],
    "utf16": ["--features", "utf16"],
    "pattern": ["--features", "pattern"],
    "alloc": ["--no-default-features", "--features", "alloc,backend-pikevm"],
    # debug profile: debug_assert! bodies live (used for information only)
}


class FactsError(Exception):
    pass


def nightly_sysroot():
    return subprocess.check_output(["rustc", "+nightly", "--print", "sysroot"], text=True).strip()


def ensure_driver():
    if os.path.exists(DRIVER):
        return
    env = dict(os.environ, CARGO_NET_OFFLINE="true")
    subprocess.check_call(["cargo", "+nightly", "build", "--release", "--offline"],
                          cwd=os.path.join(VERIF, "driver"), env=env)


def tree_hash(repo=None):
    """Content hash of everything the build reads (sources, manifests)."""
    repo = repo or REPO
    h = hashlib.sha256()
    files = []
    for root, dirs, fs in os.walk(repo):
        dirs[:] = [d for d in dirs if d not in ("target", ".git")]
        for f in fs:
            if f.endswith((".rs", ".toml", ".lock")):
                files.append(os.path.join(root, f))
    for f in sorted(files):
        h.update(f.encode())
        with open(f, "rb") as fh:
            h.update(fh.read())
    with open(DRIVER, "rb") as fh:
        h.update(fh.read())
    return h.hexdigest()[:16]


def extract(config, repo=None, profile="release"):
    """Run the fact extractor over `repo` for one feature configuration. Always compiles the
    current working tree in a fresh target dir (cargo would otherwise skip the wrapper)."""
    repo = repo or REPO
    ensure_driver()
    cache_dir = os.environ.get("VERIF_FACTS_CACHE")
    key = None
    if cache_dir:
        os.makedirs(cache_dir, exist_ok=True)
        key = os.path.join(cache_dir, "%s-%s-%s.json" % (tree_hash(repo), config, profile))
        if os.path.exists(key):
            with open(key) as fh:
                return json.load(fh)
    tgt = tempfile.mkdtemp(prefix="regress-facts-tgt-")
    out = os.path.join(tgt, "facts.json")
    env = dict(os.environ)
    env.update({
        "LD_LIBRARY_PATH": nightly_sysroot() + "/lib",
        "RUSTFLAGS": "-Zmir-opt-level=0 -Awarnings",
        "RUSTC_WORKSPACE_WRAPPER": DRIVER,
        "REGRESS_FACTS_OUT": out,
        "REGRESS_FACTS_CONFIG": config,
        "CARGO_TARGET_DIR": tgt,
        "CARGO_NET_OFFLINE": "true",
    })
    cmd = ["cargo", "+nightly", "check", "--offline", "-p", "regress", "--lib"]
    if profile == "release":
        cmd.append("--release")
    cmd += CONFIGS[config]
    try:
        p = subprocess.run(cmd, cwd=repo, env=env, stdout=subprocess.PIPE, stderr=subprocess.STDOUT, text=True)
        if p.returncode != 0 and "(signal:" in p.stdout and "error[E" not in p.stdout:
            # the compiler was killed from outside (not a type error): one more attempt in a fresh target dir
            shutil.rmtree(tgt, ignore_errors=True)
            os.makedirs(tgt, exist_ok=True)
            p = subprocess.run(cmd, cwd=repo, env=env, stdout=subprocess.PIPE, stderr=subprocess.STDOUT, text=True)
        if p.returncode != 0:
            raise FactsError("configuration %r does not type-check:\n%s" % (config, p.stdout[-4000:]))
        if not os.path.exists(out):
            raise FactsError("fact file missing for %r (driver not invoked?)\n%s" % (config, p.stdout[-2000:]))
        with open(out) as fh:
            data = json.load(fh)
        if key:
            shutil.copy(out, key)
        return data
    finally:
        shutil.rmtree(tgt, ignore_errors=True)


# --------------------------------------------------------------------------------------------
# MIR model


class Body:
    def __init__(self, name, j, facts=None):
        self.name = name
        self.j = j
        self.blocks = j["blocks"]
        self.locals = j["locals"]
        self.argc = j["argc"]
        self.facts = facts
        self._consts = None
        self._succ = None
        self._pred = None
        self._reach = None
        self._dom = None
        self._pdom = None
        self._defs = None

    # ---- definitions of locals -----------------------------------------------------------
    def defs(self):
        """local -> list of (bb, idx, kind, payload); idx == -1 for a call destination."""
        if self._defs is None:
            d = {}
            for bi, b in enumerate(self.blocks):
                for si, s in enumerate(b["s"]):
                    if s["k"] == "assign":
                        pl = s["pl"]
                        if "*" in pl["p"]:
                            continue  # a store through a pointer held in the local, not a definition of it
                        d.setdefault(pl["l"], []).append((bi, si, "assign", s))
                t = b["t"]
                if t["k"] == "call":
                    d.setdefault(t["dest"]["l"], []).append((bi, -1, "call", t))
            self._defs = d
        return self._defs

    def single_def(self, l):
        ds = self.defs().get(l, [])
        if len(ds) == 1:
            return ds[0]
        return None

    def whole_defs(self, l):
        """Definitions that assign the whole local (no projection)."""
        return [d for d in self.defs().get(l, []) if not d[3]["pl" if d[2] == "assign" else "dest"]["p"]]

    # ---- constants -----------------------------------------------------------------------
    def const_of_operand(self, op, depth=0):
        """Integer value of an operand if it is a compile-time constant (directly, or through
        single-assignment temporaries / a `Not`)."""
        if op["k"] == "const":
            return op.get("int")
        if op["k"] in ("copy", "move") and not op["pl"]["p"] and depth < 6:
            l = op["pl"]["l"]
            if l <= self.argc and l != 0:
                return None
            ds = self.defs().get(l, [])
            if len(ds) != 1 or ds[0][2] != "assign":
                return None
            s = ds[0][3]
            if s["pl"]["p"]:
                return None
            rv = s["rv"]
            if rv["k"] == "use":
                return self.const_of_operand(rv["op"], depth + 1)
            if rv["k"] == "un" and rv["op"] == "Not":
                v = self.const_of_operand(rv["a"], depth + 1)
                if v is None:
                    return None
                return 0 if v else 1
            if rv["k"] == "cast" and rv["ck"] in ("IntToInt",):
                return self.const_of_operand(rv["op"], depth + 1)
        return None

    # ---- CFG with constant-branch pruning ---------------------------------------------------
    def raw_succ(self, bi):
        t = self.blocks[bi]["t"]
        k = t["k"]
        if k == "goto":
            return [t["t"]]
        if k == "switch":
            c = self.const_of_operand(t["discr"])
            if c is not None:
                for v, b in t["targets"]:
                    if v == c:
                        return [b]
                return [t["otherwise"]]
            out = []
            for v, b in t["targets"]:
                if b not in out:
                    out.append(b)
            if t["otherwise"] not in out:
                out.append(t["otherwise"])
            return out
        if k in ("call", "drop", "assert"):
            return [t["t"]] if t.get("t") is not None else []
        return []

    def succ(self):
        if self._succ is None:
            n = len(self.blocks)
            reach = set()
            succ = {}
            stack = [0]
            while stack:
                b = stack.pop()
                if b in reach:
                    continue
                reach.add(b)
                ss = self.raw_succ(b)
                # A block ending in Unreachable is not a real successor path; keep it (it has no succs).
                succ[b] = ss
                stack.extend(ss)
            self._succ = succ
            self._reach = reach
            pred = {b: [] for b in reach}
            for b, ss in succ.items():
                for s in ss:
                    pred[s].append(b)
            self._pred = pred
        return self._succ

    def reachable(self):
        self.succ()
        return self._reach

    def pred(self):
        self.succ()
        return self._pred

    def exits(self):
        """Reachable blocks whose terminator is `return`."""
        return [b for b in self.reachable() if self.blocks[b]["t"]["k"] == "return"]

    def diverging(self):
        """Reachable blocks that end a path without returning (panic calls, unreachable)."""
        out = []
        for b in self.reachable():
            t = self.blocks[b]["t"]
            if t["k"] == "unreachable" or (t["k"] == "call" and t.get("t") is None) or t["k"] in ("resume", "terminate"):
                out.append(b)
        return out

    # ---- dominators -----------------------------------------------------------------------
    @staticmethod
    def _dominators(entry_nodes, succ, pred, nodes):
        """Iterative set-based dominators for a graph with a virtual entry joined to entry_nodes.
        Returns dict node -> frozenset of dominators (including itself)."""
        nodes = list(nodes)
        allset = set(nodes)
        dom = {n: set(allset) for n in nodes}
        for e in entry_nodes:
            dom[e] = {e}
        # reverse post-order for fast convergence
        order = []
        seen = set()

        def dfs(start):
            stack = [(start, iter(succ.get(start, [])))]
            seen.add(start)
            while stack:
                n, it = stack[-1]
                adv = False
                for s in it:
                    if s not in seen and s in allset:
                        seen.add(s)
                        stack.append((s, iter(succ.get(s, []))))
                        adv = True
                        break
                if not adv:
                    order.append(n)
                    stack.pop()
        for e in entry_nodes:
            if e not in seen:
                dfs(e)
        order.reverse()
        changed = True
        entry_set = set(entry_nodes)
        while changed:
            changed = False
            for n in order:
                if n in entry_set:
                    continue
                ps = [p for p in pred.get(n, []) if p in seen]
                if not ps:
                    continue
                new = set.intersection(*[dom[p] for p in ps])
                new = set(new)
                new.add(n)
                if new != dom[n]:
                    dom[n] = new
                    changed = True
        # nodes not reached from entries: dominated by everything (vacuous); leave as allset
        return dom

    def dom(self):
        if self._dom is None:
            succ = self.succ()
            self._dom = self._dominators([0], succ, self.pred(), self.reachable())
        return self._dom

    def pdom(self):
        """Post-dominators w.r.t. normal returns (diverging ends are ignored: a path that panics
        does not have to satisfy must-pass-through obligations)."""
        if self._pdom is None:
            succ = self.succ()
            pred = self.pred()
            exits = self.exits()
            self._pdom = self._dominators(exits, pred, succ, self.reachable())
        return self._pdom

    def dominates(self, a, b):
        """Program point a = (bb, idx) dominates b = (bb, idx). idx -1 means the terminator."""
        (ba, ia), (bb, ib) = a, b
        ia = 10 ** 9 if ia == -1 else ia
        ib = 10 ** 9 if ib == -1 else ib
        if ba == bb:
            return ia <= ib
        return ba in self.dom()[bb]

    def postdominates(self, a, b):
        (ba, ia), (bb, ib) = a, b
        ia = 10 ** 9 if ia == -1 else ia
        ib = 10 ** 9 if ib == -1 else ib
        if ba == bb:
            return ia >= ib
        return ba in self.pdom()[bb]

    def reach_from(self, b, avoid=()):
        seen = set()
        stack = [b]
        succ = self.succ()
        while stack:
            x = stack.pop()
            if x in seen or x in avoid:
                continue
            seen.add(x)
            stack.extend(succ.get(x, []))
        return seen

    # ---- iteration helpers ------------------------------------------------------------------
    def iter_stmts(self):
        for b in sorted(self.reachable()):
            for i, s in enumerate(self.blocks[b]["s"]):
                yield b, i, s

    def iter_calls(self):
        for b in sorted(self.reachable()):
            t = self.blocks[b]["t"]
            if t["k"] == "call":
                yield b, t

    def local_ty(self, l):
        return self.locals[l]["ty"]

    def local_name(self, l):
        return self.locals[l].get("name")

    # ---- value flow -------------------------------------------------------------------------
    def root_of(self, l, depth=0):
        """Follow single-assignment copies/moves/reborrows `_a = _b`, `_a = &(*_b)`, `_a = &mut (*_b)`
        back to the originating local. Returns (root_local, projection-list accumulated)."""
        proj = []
        cur = l
        for _ in range(16):
            ds = self.defs().get(cur, [])
            if cur <= self.argc and cur != 0:
                break
            if len(ds) != 1 or ds[0][2] != "assign" or ds[0][3]["pl"]["p"]:
                break
            rv = ds[0][3]["rv"]
            if rv["k"] == "use" and rv["op"]["k"] in ("copy", "move"):
                pl = rv["op"]["pl"]
            elif rv["k"] == "ref":
                pl = rv["pl"]
                # &(*x) reborrow: strip the deref
                if pl["p"] and pl["p"][0] == "*":
                    pl = {"l": pl["l"], "p": pl["p"][1:], "ty": pl["ty"]}
                elif pl["p"] == []:
                    # &x : address of a local; treat the local as root with marker
                    proj = ["&"] + proj
            elif rv["k"] == "cast" and rv["op"]["k"] in ("copy", "move"):
                pl = rv["op"]["pl"]
            else:
                break
            proj = pl["p"] + proj
            cur = pl["l"]
        return cur, proj


def place_str(pl, body=None):
    s = "_%d" % pl["l"]
    if body is not None:
        n = body.local_name(pl["l"])
        if n:
            s = n
    for p in pl["p"]:
        if p == "*":
            s = "(*%s)" % s
        elif isinstance(p, dict):
            if "f" in p:
                s += "." + p["f"]
            elif "idx" in p:
                s += "[_%d]" % p["idx"]
            elif "as" in p:
                s += " as " + p["as"]
            elif "cidx" in p:
                s += "[%d]" % p["cidx"]
            else:
                s += "[..]"
        else:
            s += "?" + str(p)
    return s


def proj_fields(pl):
    return [p["f"] for p in pl["p"] if isinstance(p, dict) and "f" in p]


def std_paths(data):
    """no_std build: the same library items print as alloc::/core:: paths; rules name them by their std:: path."""
    data = json.loads(re.sub(r'(?<![\w:])(?:alloc|core)::', 'std::', json.dumps(data)))
    data["_std_paths"] = True
    return data


_FN_NAMES = None


def fn_names_table():
    global _FN_NAMES
    if _FN_NAMES is None:
        p = os.path.join(VERIF, "tables", "fn_names.json")
        _FN_NAMES = json.load(open(p)) if os.path.exists(p) else {}
    return _FN_NAMES


def apply_renames(data):
    """Rules are anchored to function def-paths. A pure rename or move of a function must not turn into an alarm: when a
    recorded function (tables/fn_names.json) is missing and exactly one function that is *new* has the recorded
    signature (same parameter types as a multiset, same return type, same impl type), the new path is treated as an
    alias of the recorded one: it is rewritten to the recorded path throughout the fact base, so every rule analyses
    the renamed function's body under the name it knows. Ambiguous or signature-changing cases are left alone (the
    rule then fails closed on its missing anchor, as before)."""
    table = fn_names_table()
    cfg = data.get("config")
    if not table:
        data["_renames"] = {}
        return data
    cur = {p: f for p, f in data["fns"].items() if f.get("kind") in ("fn", "assocfn") and "{closure" not in p}
    missing = [p for p, e in table.items() if cfg in e.get("configs", ()) and p not in cur]
    new = [p for p in cur if p not in table and "unicodetables" not in (cur[p].get("file") or "")]
    if not missing or not new:
        data["_renames"] = {}
        return data

    def sig(e):
        return (tuple(sorted(e.get("inputs") or [])), e.get("output"))

    def same_home(a, b):
        # same impl type (methods) or both free functions; the module may differ (moves)
        return (a.get("impl_self") or "").split("::")[-1] == (b.get("impl_self") or "").split("::")[-1] and \
            (a.get("impl_trait") or "") == (b.get("impl_trait") or "")
    aliases = {}
    for m in missing:
        cands = [n for n in new if sig(cur[n]) == sig(table[m]) and same_home(cur[n], table[m])]
        if len(cands) > 1:
            same_name = [n for n in cands if n.split("::")[-1] == m.split("::")[-1]]
            cands = same_name if len(same_name) == 1 else cands
        if len(cands) == 1 and cands[0] not in aliases.values():
            # the recorded function must be the only missing one that could claim this candidate
            rivals = [m2 for m2 in missing if m2 != m and sig(table[m2]) == sig(table[m]) and same_home(table[m2], table[m])]
            if not rivals:
                aliases[m] = cands[0]
    if not aliases:
        data["_renames"] = {}
        return data
    txt = json.dumps(data)
    for old, newp in sorted(aliases.items(), key=lambda kv: -len(kv[1])):
        txt = re.sub(re.escape(json.dumps(newp)[1:-1]) + r'(?![A-Za-z0-9_])', lambda _m: json.dumps(old)[1:-1], txt)
        # a moved free function also changes the short form used inside its own module's closures etc.: covered by the path
    data = json.loads(txt)
    data["_renames"] = {v: k for k, v in aliases.items()}
    return data


_FIELD_NAMES = None


def apply_field_renames(data):
    """Same idea for named struct / variant fields (tables/field_names.json): a recorded field that is missing from its
    type while exactly one *new* field of that type/variant has the recorded type is the renamed field; it is rewritten to
    the recorded name in MIR projections, aggregates, HIR field expressions, struct literals and patterns. Skipped when
    the new name is also a field name of another local type (the rewrite is by name)."""
    global _FIELD_NAMES
    if _FIELD_NAMES is None:
        p = os.path.join(VERIF, "tables", "field_names.json")
        _FIELD_NAMES = json.load(open(p)) if os.path.exists(p) else {}
    table = _FIELD_NAMES
    data["_field_renames"] = {}
    if not table:
        return data
    all_names = {}
    for path, a in data["adts"].items():
        for v in a.get("variants", []):
            for f in v.get("fields", []):
                all_names.setdefault(f["name"], set()).add(path)
    alias = {}
    for path, variants in table.items():
        a = data["adts"].get(path)
        if not a:
            continue
        for v in a.get("variants", []):
            rec = variants.get(v["name"])
            if not rec:
                continue
            cur = [(f["name"], f["ty"]) for f in v.get("fields", [])]
            cur_names = {n for n, _ in cur}
            rec_names = {n for n, _ in rec}
            missing = [(n, t) for n, t in rec if n not in cur_names]
            new = [(n, t) for n, t in cur if n not in rec_names]
            for n, t in missing:
                cands = [x for x, tx in new if tx == t]
                rivals = [x for x, tx in missing if tx == t]
                if len(cands) == 1 and len(rivals) == 1 and all_names.get(cands[0], set()) == {path} and cands[0] not in alias:
                    alias[cands[0]] = n
    if not alias:
        return data

    def walk(x):
        if isinstance(x, dict):
            if "f" in x and "i" in x and x["f"] in alias:
                x["f"] = alias[x["f"]]
            if x.get("k") == "field" and x.get("name") in alias:
                x["name"] = alias[x["name"]]
            if x.get("k") in ("struct", "agg") and isinstance(x.get("fields"), list):
                nf = []
                for e in x["fields"]:
                    if isinstance(e, list) and e and isinstance(e[0], str) and e[0] in alias:
                        e = [alias[e[0]]] + e[1:]
                    elif isinstance(e, str) and e in alias:
                        e = alias[e]
                    nf.append(e)
                x["fields"] = nf
            if "name" in x and "ty" in x and "public" in x and x["name"] in alias:
                x["name"] = alias[x["name"]]
            for v in x.values():
                walk(v)
        elif isinstance(x, list):
            for v in x:
                walk(v)
    walk(data)
    data["_field_renames"] = dict(alias)
    return data


class Facts:
    def __init__(self, data):
        if data.get("config") == "alloc" and not data.get("_std_paths"):
            data = std_paths(data)
        if "_renames" not in data:
            data = apply_renames(data)
        if "_field_renames" not in data:
            data = apply_field_renames(data)
        self.data = data
        self.renames = dict(data.get("_renames", {}))
        self.renames.update({"field " + k: "field " + v for k, v in data.get("_field_renames", {}).items()})
        self.config = data["config"]
        self.fns = data["fns"]
        self.hir = data["hir"]
        self.adts = data["adts"]
        self.consts = data["consts"]
        self.statics = data["statics"]
        self.typewalk = data["typewalk"]
        self.cfg_attrs = data["cfg_attrs"]
        self.trait_impls = sorted(data.get("trait_impls", []), key=lambda x: (x.get("trait", ""), x.get("self_ty", "")))
        self._bodies = {}

    @classmethod
    def load(cls, config, repo=None, profile="release"):
        return cls(extract(config, repo, profile))

    def body(self, name):
        if name not in self._bodies:
            if name not in self.data["mir"]:
                raise FactsError("anchor function %r not found in configuration %r" % (name, self.config))
            self._bodies[name] = Body(name, self.data["mir"][name], self)
        return self._bodies[name]

    def has_body(self, name):
        return name in self.data["mir"]

    def body_names(self):
        return list(self.data["mir"].keys())

    def find_bodies(self, pattern):
        rx = re.compile(pattern)
        return [n for n in self.data["mir"] if rx.search(n)]

    def loc(self, fn, line=None):
        f = self.fns.get(fn, {})
        if line is None:
            line = f.get("lo")
        return "%s:%s" % (f.get("file", "?"), line)

    def owner_of(self, fn, depth=0):
        """The recorded function a body belongs to for per-function review tables (panic triage, cast triage, builder
        lists): closures belong to their parent; a function that is *new* (absent from tables/fn_names.json) and is
        called from exactly one function is a piece split off that caller and belongs to it."""
        base = re.sub(r"(::\{closure#\d+\})+$", "", fn)
        table = fn_names_table()
        if not table or base in table or depth > 3:
            return base
        cg = self.callgraph()
        callers = {re.sub(r"(::\{closure#\d+\})+$", "", c) for c, outs in cg.items()
                   if any(re.sub(r"(::\{closure#\d+\})+$", "", o) == base for o in outs)} - {base}
        if len(callers) == 1:
            return self.owner_of(next(iter(callers)), depth + 1)
        return base

    # ---- call graph -----------------------------------------------------------------------
    def callgraph(self):
        """Edges caller -> set(callee) over local bodies. Calls through a trait method whose
        implementation cannot be resolved statically fan out to every local impl of that method.
        Closures are attributed as callees of the function that creates them."""
        if hasattr(self, "_cg"):
            return self._cg
        impls = {}  # (trait, method name) -> [impl fn paths]
        for name, f in self.fns.items():
            if f.get("impl_trait") and f.get("name"):
                impls.setdefault((f["impl_trait"], f["name"]), []).append(name)
        cg = {}
        sites = {}
        for name in self.data["mir"]:
            body = self.body(name)
            edges = set()
            for bi, b in enumerate(body.blocks):
                if b.get("cleanup"):
                    continue
                t = b["t"]
                if t["k"] == "call" and "callee" in t:
                    tgt = None
                    if t.get("resolved") and not t.get("resolved_local"):
                        tgt = []  # statically resolved to a foreign function: no local edge
                    elif t.get("resolved") and t.get("resolved_local") and t["resolved"] in self.data["mir"]:
                        # resolved may still be the trait's declaration (default method) – fine.
                        tgt = [t["resolved"]]
                        if t.get("trait") and t["resolved"] == t["callee"] and t["callee"] not in self.data["mir"]:
                            tgt = None
                    if tgt is None and t.get("trait"):
                        mname = t["callee"].rsplit("::", 1)[-1]
                        tgt = impls.get((t["trait"], mname), [])
                        if t["callee"] in self.data["mir"]:
                            tgt = tgt + [t["callee"]]
                    if tgt is None and t["callee"] in self.data["mir"]:
                        tgt = [t["callee"]]
                    for x in tgt or []:
                        edges.add(x)
                        sites.setdefault((name, x), []).append((bi, t.get("line")))
                # closures created here
                for s in b["s"]:
                    if s["k"] == "assign" and s["rv"]["k"] == "agg" and s["rv"].get("ak") == "closure":
                        d = s["rv"]["def"]
                        if d in self.data["mir"]:
                            edges.add(d)
                            sites.setdefault((name, d), []).append((bi, s.get("line")))
                # function items passed as values (e.g. `.is_some_and(Input::CharProps::is_word_char)`)
                ops = []
                if t["k"] == "call":
                    ops = list(t["args"])  # copy: never mutate the facts
                for s in b["s"]:
                    if s["k"] == "assign":
                        rv = s["rv"]
                        for key in ("op", "a", "b"):
                            if isinstance(rv.get(key), dict):
                                ops.append(rv[key])
                        ops.extend(rv.get("ops", []))
                for op in ops:
                    if op.get("k") == "const" and "fn" in op:
                        fnp = op["fn"]
                        if op.get("fn_resolved"):
                            if not op.get("fn_resolved_local"):
                                continue  # statically resolved to a foreign function
                            fnp = op["fn_resolved"]
                        if fnp in self.data["mir"]:
                            edges.add(fnp)
                            sites.setdefault((name, fnp), []).append((bi, None))
                        else:
                            # trait method item: fan out by name
                            mname = fnp.rsplit("::", 1)[-1]
                            for (tr, mn), lst in impls.items():
                                if mn == mname and fnp.startswith(tr + "::"):
                                    for x in lst:
                                        edges.add(x)
                                        sites.setdefault((name, x), []).append((bi, None))
            cg[name] = edges
        self._cg = cg
        self._cg_sites = sites
        return cg

    def call_sites(self, caller, callee):
        self.callgraph()
        return self._cg_sites.get((caller, callee), [])

    def reachable_from(self, roots):
        cg = self.callgraph()
        seen = set()
        stack = list(roots)
        while stack:
            x = stack.pop()
            if x in seen:
                continue
            seen.add(x)
            stack.extend(cg.get(x, ()))
        return seen


def sccs(nodes, edges):
    """Tarjan SCCs (iterative). edges: dict node -> iterable of nodes."""
    index = {}
    low = {}
    on = set()
    st = []
    out = []
    counter = [0]
    for root in nodes:
        if root in index:
            continue
        work = [(root, iter(edges.get(root, ())))]
        index[root] = low[root] = counter[0]
        counter[0] += 1
        st.append(root)
        on.add(root)
        while work:
            v, it = work[-1]
            adv = False
            for w in it:
                if w not in nodes:
                    continue
                if w not in index:
                    index[w] = low[w] = counter[0]
                    counter[0] += 1
                    st.append(w)
                    on.add(w)
                    work.append((w, iter(edges.get(w, ()))))
                    adv = True
                    break
                elif w in on:
                    low[v] = min(low[v], index[w])
            if adv:
                continue
            work.pop()
            if work:
                u = work[-1][0]
                low[u] = min(low[u], low[v])
            if low[v] == index[v]:
                comp = []
                while True:
                    w = st.pop()
                    on.discard(w)
                    comp.append(w)
                    if w == v:
                        break
                out.append(comp)
    return out


# --------------------------------------------------------------------------------------------
# HIR helpers


def hir_walk(node, fn, parents=()):
    """Pre-order walk over an HIR JSON tree; fn(node, parents) for every dict with a 'k'."""
    if isinstance(node, dict):
        if "k" in node:
            fn(node, parents)
            parents = parents + (node,)
        for v in node.values():
            if isinstance(v, (dict, list)):
                hir_walk(v, fn, parents)
    elif isinstance(node, list):
        for v in node:
            hir_walk(v, fn, parents)


def hir_find(node, pred):
    out = []
    hir_walk(node, lambda n, ps: out.append((n, ps)) if pred(n) else None)
    return out

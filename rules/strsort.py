"""STRSORT — string alternatives are tried longest first (C11, C12).

Every construction of ir::Node::StringSet must receive its `alternatives` vector from a
descending-length sort that dominates the construction (recognised idiom:
`v.sort_by(|a, b| b.len().cmp(&a.len()))`, i.e. the comparator calls Ord::cmp(len(second), len(first))).
The emitter lowers the vector to an ordered Alt chain, so an unsorted vector makes a shorter
alternative win over a longer one that shares its prefix.
"""
from . import core
from .report import RuleResult

RULE_TEXT = __doc__.split("\n\n")[1].replace("\n", " ")


def comparator_is_desc_len(facts, closure_name):
    """Closure (a, b) -> Ordering must be cmp(len(b), len(a))."""
    if not facts.has_body(closure_name):
        return "comparator body not found"
    b = facts.body(closure_name)
    cmps = [t for _, t in b.iter_calls() if t.get("callee", "").endswith("cmp::Ord::cmp")]
    if len(cmps) != 1:
        return "comparator is not a single Ord::cmp call"
    roots = []
    for a in cmps[0]["args"]:
        if a["k"] not in ("copy", "move"):
            return "comparator argument is not a place"
        l = a["pl"]["l"]
        # follow refs to the local holding the length
        root, _ = b.root_of(l)
        d = b.single_def(root)
        if not d or d[2] != "call" or not d[3].get("callee", "").endswith("::len"):
            return "Ord::cmp argument is not a len() result"
        recv = d[3]["args"][0]
        if recv["k"] not in ("copy", "move"):
            return "len() receiver is not a place"
        r2, _ = b.root_of(recv["pl"]["l"])
        roots.append(r2)
    # closure params: _1 = closure env, _2 = a, _3 = b
    if roots == [3, 2]:
        return True
    if roots == [2, 3]:
        return "comparator sorts ascending by length (shortest first)"
    return "comparator does not compare the lengths of its two arguments (%s)" % roots


def check(facts):
    r = RuleResult("STRSORT", RULE_TEXT)
    n = 0
    for fn in facts.body_names():
        body = facts.body(fn)
        for bi, i, s in body.iter_stmts():
            if s["k"] != "assign" or s["rv"]["k"] != "agg" or s["rv"].get("adt") != "ir::Node" or s["rv"].get("variant") != "StringSet":
                continue
            n += 1
            key = "%s constructs Node::StringSet" % fn
            fields = s["rv"]["fields"]
            op = s["rv"]["ops"][fields.index("alternatives")]
            if op["k"] not in ("copy", "move"):
                r.fail(key, "alternatives operand is not a local", facts.loc(fn, s["line"]))
                continue
            root, _ = body.root_of(op["pl"]["l"])
            # a field-wise copy of an existing StringSet (derive(Clone)) keeps the order it had
            rd = body.single_def(root)
            if rd and rd[2] == "call" and rd[3].get("callee", "").endswith("clone::Clone::clone"):
                a0 = rd[3]["args"][0]
                if a0["k"] in ("copy", "move"):
                    _, pr = body.root_of(a0["pl"]["l"])
                    if any(isinstance(p, dict) and p.get("as") == "StringSet" for p in pr):
                        r.ok(key + " (copy)", "clone of an existing StringSet's alternatives", nontrivial=False)
                        continue
            verdict = None
            for bb, t in body.iter_calls():
                cal = t.get("callee", "")
                if not (cal.endswith("::sort_by") or cal.endswith("::sort_unstable_by")):
                    continue
                a0 = t["args"][0]
                if a0["k"] not in ("copy", "move"):
                    continue
                # receiver: &mut [T] obtained by deref_mut(&mut vec)
                r0, pr = body.root_of(a0["pl"]["l"])
                d = body.single_def(r0)
                if d and d[2] == "call" and d[3].get("callee", "").endswith("deref_mut"):
                    inner = d[3]["args"][0]
                    if inner["k"] in ("copy", "move"):
                        r0, pr = body.root_of(inner["pl"]["l"])
                if r0 != root:
                    continue
                if not body.dominates((bb, -1), (bi, i)):
                    verdict = "sort does not dominate the construction"
                    continue
                # comparator closure
                cl = t["args"][1]
                cname = None
                if cl["k"] in ("copy", "move"):
                    cd = body.single_def(cl["pl"]["l"])
                    if cd and cd[2] == "assign" and cd[3]["rv"]["k"] == "agg" and cd[3]["rv"].get("ak") == "closure":
                        cname = cd[3]["rv"]["def"]
                if cname is None:
                    verdict = "sort comparator is not a closure literal"
                    continue
                res = comparator_is_desc_len(facts, cname)
                if res is True:
                    verdict = True
                    break
                verdict = res
            if verdict is True:
                r.ok(key, "alternatives sorted by descending length before construction")
                r.sample({"key": key, "line": s["line"], "verdict": "sorted longest-first on every path"})
            else:
                r.fail(key, "Node::StringSet built from a vector that is not sorted longest-first (%s): a shorter alternative "
                            "that is a prefix of a longer one wins" % (verdict or "no descending-length sort of this vector dominates it"),
                       facts.loc(fn, s["line"]))
    r.floor("stringset_constructions", n, 1)
    # a class with strings *and* code points is an alternation: strings (longest first among themselves) before the bracket
    fnn = "parse::ClassSet::node"
    if facts.has_body(fnn):
        body = facts.body(fnn)
        m = 0
        for bi, i, st in body.iter_stmts():
            if st["k"] != "assign" or st["rv"]["k"] != "agg" or st["rv"].get("ak") != "array" or len(st["rv"].get("ops", [])) != 2:
                continue
            if "ir::Node" not in str(st["rv"].get("ty")):
                continue
            m += 1
            key = "%s alternation order #%d" % (fnn, m)

            def from_strings(op):
                if op.get("k") not in ("copy", "move"):
                    return False
                d = body.single_def(body.root_of(op["pl"]["l"])[0])
                return bool(d) and d[2] == "call" and (d[3].get("callee") or "").endswith("into_node")
            a0, a1 = st["rv"]["ops"]
            if from_strings(a0) and not from_strings(a1):
                r.ok(key, "strings, then the code-point bracket")
            else:
                r.fail(key, "the alternation built for a class with strings and code points does not try the strings first (line %s): a code "
                            "point that is a prefix of a string member wins over the longer string (`[a\\q{ab}]` on \"ab\" matches only \"a\")" % st["line"],
                       facts.loc(fnn, st["line"]))
        if m == 0:
            r.error("ClassSet::node: the [strings, bracket] alternation was not found")
    else:
        r.error("anchor %s not found" % fnn)
    return r

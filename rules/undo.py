"""UNDO — save-before-write in the classical backtracker.

Every mutation of the backtracker's shared capture/loop state on the forward execution path must
be covered by an undo record: a read of the old value that executes before the write on every
path and flows into a `BacktrackInsn` pushed on the backtrack stack.
"""
import re

from . import core
from .core import place_str
from .report import RuleResult

RULE_TEXT = ("for every write W to a types::GroupData / types::LoopData reachable from "
             "classicalbacktrack::MatchAttempter::try_at_pos (try_backtrack = restore side, exempt): a read of the same "
             "reference covering W's fields dominates W (relative to the reference's definition), flows into a "
             "BacktrackInsn aggregate, and that aggregate is pushed on Vec<BacktrackInsn> at a point that dominates or "
             "post-dominates W; writes restoring a copy read earlier from the same container are exempt")

STATE_RX = re.compile(r"types::(GroupData|LoopData)<")
ENTRY = "classicalbacktrack::MatchAttempter::<'a, Input>::try_at_pos"
EXEMPT = {
    "classicalbacktrack::MatchAttempter::<'a, Input>::try_backtrack":
        "restore side: pops undo records and writes the saved values back",
}
# Accessors that only hand out a reference into the container (no mutation by themselves).
ACCESSORS = {
    "util::DebugCheckIndex::mat", "util::DebugCheckIndex::iat", "std::ops::IndexMut::index_mut",
    "std::ops::Index::index", "std::ops::DerefMut::deref_mut", "std::ops::Deref::deref",
    "core::slice::<impl [T]>::iter_mut", "core::slice::<impl [T]>::iter", "std::vec::Vec::<T, A>::len",
    "core::slice::<impl [T]>::get_unchecked_mut", "core::slice::<impl [T]>::get_mut",
    "core::slice::<impl [T]>::len", "std::vec::Vec::<T, A>::as_mut_slice", "std::vec::Vec::<T, A>::as_slice",
}
PUSH_FNS = {"std::vec::Vec::<T, A>::push", "classicalbacktrack::MatchAttempter::<'a, Input>::push_backtrack"}


def is_state_ref(ty):
    return ty.startswith("&mut ") and STATE_RX.match(ty[5:]) is not None


def is_state_container_ref(ty):
    return ty.startswith("&mut ") and ("Vec<types::GroupData<" in ty or "Vec<types::LoopData<" in ty
                                       or "[types::GroupData<" in ty or "[types::LoopData<" in ty
                                       or "classicalbacktrack::State<" in ty)


def point_path_exists(body, src, dst, avoid):
    """Is there a path from just after point src to point dst that does not execute point avoid?
    Points are (bb, idx) with idx -1 = terminator."""
    def norm(p):
        return (p[0], 10 ** 9 if p[1] == -1 else p[1])
    src, dst, avoid = norm(src), norm(dst), norm(avoid)
    succ = body.succ()
    # within the source block
    if src[0] == dst[0] and src[1] < dst[1]:
        if not (avoid[0] == src[0] and src[1] < avoid[1] < dst[1]):
            return True
    if avoid[0] == src[0] and avoid[1] > src[1]:
        return False  # cannot leave the block without executing avoid
    seen = set()
    stack = list(succ.get(src[0], []))
    while stack:
        b = stack.pop()
        if b in seen:
            continue
        seen.add(b)
        if b == dst[0]:
            if not (avoid[0] == b and avoid[1] < dst[1]):
                return True
            # dst is after avoid in this block: blocked on this entry; but avoid blocks leaving too
            continue
        if b == avoid[0]:
            continue
        stack.extend(succ.get(b, []))
    return False


def forward_flow(body, start_locals):
    """Locals that (may) hold a value built from any of start_locals through copies/moves and
    aggregate construction. Returns dict local -> how."""
    S = dict((l, "src") for l in start_locals)
    changed = True
    while changed:
        changed = False
        for bi, i, s in body.iter_stmts():
            if s["k"] != "assign" or s["pl"]["p"]:
                continue
            d = s["pl"]["l"]
            if d in S:
                continue
            rv = s["rv"]
            ops = []
            if rv["k"] == "use":
                ops = [rv["op"]]
            elif rv["k"] == "agg":
                ops = rv["ops"]
            elif rv["k"] == "cast":
                ops = [rv["op"]]
            for op in ops:
                if op["k"] in ("copy", "move") and op["pl"]["l"] in S and not any(p == "*" for p in op["pl"]["p"]):
                    S[d] = "via"
                    changed = True
                    break
    return S


def check(facts):
    r = RuleResult("UNDO", RULE_TEXT)
    if not facts.has_body(ENTRY):
        r.error("anchor %s not found" % ENTRY)
        return r
    scope = [f for f in facts.reachable_from([ENTRY]) if f.startswith("classicalbacktrack::")]
    exempt_seen = [f for f in scope if f in EXEMPT]
    if len(exempt_seen) != len(EXEMPT):
        r.error("exempt anchor(s) missing from the call graph: %s" % (set(EXEMPT) - set(exempt_seen)))
    scope = sorted(f for f in scope if f not in EXEMPT)
    r.stats["functions"] = scope
    n_writes = 0

    # sanity of the push helper: push_backtrack must push its argument on self.bts
    pb = "classicalbacktrack::MatchAttempter::<'a, Input>::push_backtrack"
    if facts.has_body(pb):
        b = facts.body(pb)
        ok = False
        for bi, t in b.iter_calls():
            if t.get("callee") == "std::vec::Vec::<T, A>::push" and "BacktrackInsn" in t["args"][0]["pl"]["ty"]:
                a1 = t["args"][1]
                if a1["k"] in ("move", "copy") and b.root_of(a1["pl"]["l"])[0] == 2:
                    ok = True
        if ok:
            r.ok("%s forwards its argument to Vec<BacktrackInsn>::push" % pb)
        else:
            r.fail("%s helper" % pb, "push_backtrack no longer pushes its argument on the backtrack stack", facts.loc(pb))

    for fn in scope:
        body = facts.body(fn)
        short = fn.split("::")[-1]
        # ---- collect pushes of BacktrackInsn aggregates ------------------------------------
        pushes = []  # (point, arg local)
        for bi, t in body.iter_calls():
            if t.get("callee") in PUSH_FNS and len(t["args"]) >= 2:
                a0ty = t["args"][0]["pl"]["ty"] if t["args"][0]["k"] in ("move", "copy") else ""
                if "BacktrackInsn" in a0ty or "MatchAttempter" in a0ty:
                    a1 = t["args"][1]
                    if a1["k"] in ("move", "copy"):
                        pushes.append(((bi, -1), a1["pl"]["l"], t["line"]))
        # ---- collect writes ------------------------------------------------------------------
        writes = []  # dict(point, ref local, fields (None = whole), line, desc)
        for bi, i, s in body.iter_stmts():
            if s["k"] != "assign":
                continue
            pl = s["pl"]
            if pl["p"] and pl["p"][0] == "*" and is_state_ref(body.local_ty(pl["l"])):
                fields = core.proj_fields(pl)
                writes.append({"pt": (bi, i), "ref": pl["l"], "fields": fields[:1] or None, "line": s["line"],
                               "desc": place_str(pl, body), "stmt": s})
            elif "*" in pl["p"] and STATE_RX.search(pl["ty"]) and ("Vec<" in pl["ty"] or "State<" in pl["ty"]) \
                    and not pl["ty"].startswith("&"):
                writes.append({"pt": (bi, i), "ref": None, "fields": None, "line": s["line"],
                               "desc": "container " + place_str(pl, body), "container": True, "args": []})
        for bi, t in body.iter_calls():
            callee = t.get("callee", "<indirect>")
            for ai, a in enumerate(t["args"]):
                if a["k"] not in ("move", "copy"):
                    continue
                ty = a["pl"]["ty"]
                if is_state_ref(ty):
                    tgt = t.get("resolved") or callee
                    if tgt in scope or tgt in EXEMPT:
                        continue  # analysed in the callee with the parameter as the reference
                    writes.append({"pt": (bi, -1), "ref": a["pl"]["l"], "fields": None, "line": t["line"],
                                   "desc": "call %s(&mut state)" % callee})
                elif is_state_container_ref(ty) and callee not in ACCESSORS:
                    tgt = t.get("resolved") or callee
                    if tgt in scope or tgt in EXEMPT:
                        continue
                    writes.append({"pt": (bi, -1), "ref": None, "fields": None, "line": t["line"],
                                   "desc": "call %s(&mut container)" % callee, "container": True,
                                   "args": [x for j, x in enumerate(t["args"]) if j != ai], "self": a})
        # ---- decide each write ---------------------------------------------------------------
        for w in writes:
            n_writes += 1
            arm = arm_of(facts, fn, w["line"])
            key = "%s %s %s" % (fn, arm, re.sub(r"_\d+", "_", w["desc"]))
            where = "%s (%s)" % (facts.loc(fn, w["line"]), w["desc"])
            if w.get("container"):
                # restore exemption: another argument derives from an earlier read of the same container
                verdict = container_restore(body, w)
                if verdict:
                    r.ok(key, "restore of a saved copy: " + verdict)
                    r.sample({"key": key, "where": where, "verdict": "exempt-restore", "why": verdict})
                else:
                    r.fail(key, "container-level mutation of backtracker state with no saved copy", where)
                continue
            root, _ = body.root_of(w["ref"])
            rdef = body.single_def(root)
            if root <= body.argc and root != 0:
                dpt = (0, -2)  # parameter: defined at entry
            elif rdef is not None:
                dpt = (rdef[0], rdef[1])
            else:
                r.fail(key, "cannot identify a unique definition of the state reference", where)
                continue
            # restore-of-saved-copy exemption for direct writes: value derives from a read through same root
            saves = []
            for bi, i, s in body.iter_stmts():
                if s["k"] != "assign" or s["rv"]["k"] != "use":
                    continue
                op = s["rv"]["op"]
                if op["k"] != "copy":
                    continue
                pl = op["pl"]
                if not (pl["p"] and pl["p"][0] == "*"):
                    continue
                if body.root_of(pl["l"])[0] != root:
                    continue
                rf = core.proj_fields(pl)
                covers = (not rf) or (w["fields"] is not None and rf[:1] == w["fields"])
                if not covers:
                    continue
                if s["pl"]["p"]:
                    continue
                saves.append(((bi, i), s["pl"]["l"], s["line"]))
            good = None
            tried = []
            for spt, sl, sline in saves:
                # (a) executes before W on every path from the reference's definition
                if spt == w["pt"]:
                    continue
                if dpt[1] == -2:
                    before = body.dominates(spt, w["pt"]) and spt != w["pt"]
                else:
                    before = not point_path_exists(body, dpt, w["pt"], spt)
                if not before:
                    tried.append("read at line %s does not precede the write on every path" % sline)
                    continue
                flow = forward_flow(body, [sl])
                # aggregates of BacktrackInsn built from the flow
                aggs = []
                for bi, i, s in body.iter_stmts():
                    if s["k"] == "assign" and s["rv"]["k"] == "agg" and s["rv"].get("adt", "").endswith("BacktrackInsn") \
                            and not s["pl"]["p"]:
                        if any(o["k"] in ("move", "copy") and o["pl"]["l"] in flow for o in s["rv"]["ops"]):
                            aggs.append((s["pl"]["l"], s["rv"]["variant"]))
                if not aggs:
                    tried.append("read at line %s does not flow into a BacktrackInsn" % sline)
                    continue
                for al, variant in aggs:
                    aflow = forward_flow(body, [al])
                    for ppt, pl_, pline in pushes:
                        if pl_ in aflow:
                            if body.dominates(ppt, w["pt"]) or body.postdominates(ppt, w["pt"]):
                                good = {"saved_at_line": sline, "record": variant, "pushed_at_line": pline}
                                break
                            else:
                                tried.append("push at line %s neither dominates nor post-dominates the write" % pline)
                    if good:
                        break
                if good:
                    break
            if good:
                r.ok(key, "saved as %s (read line %s, push line %s)" % (good["record"], good["saved_at_line"], good["pushed_at_line"]))
                r.sample({"key": key, "where": where, "verdict": "ok", **good})
            else:
                why = "; ".join(tried) if tried else "no read of the old value through the same reference"
                r.fail(key, "state write without an undo record (%s)" % why, where,
                       {"write": w["desc"], "function": fn, "arm": arm, "line": w["line"]})
    r.floor("state_writes", n_writes, 9)
    return r


def container_restore(body, w):
    """The value written derives (backward slice) from a call reading the same container."""
    selfroot = body.root_of(w["self"]["pl"]["l"]) if w.get("self") else None
    if selfroot is None:
        return None
    # backward slice over locals feeding the other arguments
    work = [a["pl"]["l"] for a in w.get("args", []) if a["k"] in ("move", "copy")]
    seen = set()
    while work:
        l = work.pop()
        if l in seen:
            continue
        seen.add(l)
        for d in body.defs().get(l, []):
            if d[2] == "assign":
                rv = d[3]["rv"]
                for key in ("op", "a", "b"):
                    o = rv.get(key)
                    if isinstance(o, dict) and o.get("k") in ("move", "copy"):
                        work.append(o["pl"]["l"])
                for o in rv.get("ops", []):
                    if o.get("k") in ("move", "copy"):
                        work.append(o["pl"]["l"])
                if rv["k"] == "ref":
                    work.append(rv["pl"]["l"])
                    # a borrow of the same container place?
                    r0, pr = body.root_of(d[3]["pl"]["l"])
                    if (r0, [p for p in pr if p != "&"]) == (selfroot[0], [p for p in selfroot[1] if p != "&"]) \
                            and d[3]["pl"]["l"] != w["self"]["pl"]["l"] and d[0] != w["pt"][0]:
                        if body.dominates((d[0], d[1]), w["pt"]):
                            return "value derives from a read of the same container at line %s" % d[3]["line"]
            else:
                for o in d[3]["args"]:
                    if o.get("k") in ("move", "copy"):
                        work.append(o["pl"]["l"])
    return None


def arm_of(facts, fn, line):
    """Name the innermost `match` arm over insn::Insn (or any enum) containing `line` — for keys."""
    h = facts.hir.get(fn)
    if not h or line is None:
        return "-"
    best = [None, 10 ** 9]

    def visit(n, ps):
        if n.get("k") == "match":
            arms = n["arms"]
            for idx, a in enumerate(arms):
                lo = a["line"]
                hi = arms[idx + 1]["line"] - 1 if idx + 1 < len(arms) else 10 ** 9
                if lo <= line <= hi:
                    names = pat_variants(a["pat"])
                    if names and (hi - lo) < best[1]:
                        best[0] = "arm=" + "|".join(names)
                        best[1] = hi - lo
    core.hir_walk(h["body"], visit)
    return best[0] or "-"


def pat_variants(p):
    out = []

    def go(p):
        k = p.get("k")
        if k in ("struct", "tstruct", "path"):
            res = p.get("res", {})
            if res.get("path"):
                out.append(res["path"].split("::")[-1])
        elif k in ("ref", "box", "deref"):
            go(p["pat"])
        elif k == "or":
            for x in p["pats"]:
                go(x)
        elif k == "tuple":
            for x in p["pats"]:
                if x.get("k") == "lit":
                    out.append(str(x.get("v")))
                else:
                    go(x)
        elif k == "bind" and p.get("sub"):
            go(p["sub"])
    go(p)
    return out


# --------------------------------------------------------------------------------------------
# IDDATA — an undo record names the slot whose old value it carries

IDDATA_TEXT = ("every BacktrackInsn::SetCaptureGroup / SetLoopData aggregate pairs `id` with `data` read from the slot with that id: "
               "when data is `*r` and r was obtained by indexing the group/loop store with J, id and J derive from the same value; when "
               "data comes from iterating (with enumerate) a copy of store[range], id derives from both the enumeration index and the "
               "start of that range; when r is a parameter, every call site passes store[X] together with the X the callee uses as id")


def _int_roots(body, op, depth=0):
    """Set of 'origin' descriptors of an integer operand: parameters/named locals/field reads it derives from
    through copies, casts and additions."""
    out = set()
    if op.get("k") != "copy" and op.get("k") != "move":
        if op.get("k") == "const":
            out.add(("const", op.get("int")))
        return out
    pl = op["pl"]
    fields = core.proj_fields(pl)
    l = pl["l"]
    if fields:
        root, pr = body.root_of(l)
        out.add(("field", body.local_name(root) or root, tuple(fields)))
        return out
    if depth > 10:
        return out
    if 1 <= l <= body.argc or body.local_name(l):
        out.add(("local", body.local_name(l) or l))
        # keep following named locals defined by a simple expression (e.g. `let group = *id;`)
    for d in body.defs().get(l, []):
        if d[2] == "assign":
            rv = d[3]["rv"]
            if rv["k"] in ("use", "cast"):
                out |= _int_roots(body, rv["op"], depth + 1)
            elif rv["k"] == "bin" and rv["op"].startswith(("Add", "Sub")):
                out |= _int_roots(body, rv["a"], depth + 1) | _int_roots(body, rv["b"], depth + 1)
        elif d[2] == "call":
            cal = d[3].get("callee") or ""
            if cal.endswith(("ops::Add::add",)):
                for a in d[3]["args"]:
                    out |= _int_roots(body, a, depth + 1)
    return out


def check_iddata(facts):
    r = RuleResult("IDDATA", IDDATA_TEXT)
    scope = [f for f in facts.body_names() if f.startswith("classicalbacktrack::MatchAttempter")]
    n = 0
    for fn in scope:
        body = facts.body(fn)
        for bi, i, s in body.iter_stmts():
            if s["k"] != "assign" or s["rv"]["k"] != "agg" or not s["rv"].get("adt", "").endswith("BacktrackInsn"):
                continue
            if s["rv"]["variant"] not in ("SetCaptureGroup", "SetLoopData"):
                continue
            n += 1
            fields = s["rv"]["fields"]
            idop = s["rv"]["ops"][fields.index("id")]
            dop = s["rv"]["ops"][fields.index("data")]
            key = "%s %s %s" % (fn, arm_of(facts, fn, s.get("line")), s["rv"]["variant"])
            where = facts.loc(fn, s.get("line"))
            id_roots = _int_roots(body, idop)
            # where does data come from?  data = copy (*r)
            src = None
            if dop["k"] in ("copy", "move"):
                d = body.single_def(dop["pl"]["l"])
                for _ in range(4):   # through named copies (`let saved = *loop_data; .. data: saved`)
                    if d and d[2] == "assign" and d[3]["rv"]["k"] == "use" and d[3]["rv"]["op"]["k"] in ("copy", "move") and not d[3]["rv"]["op"]["pl"]["p"]:
                        d = body.single_def(d[3]["rv"]["op"]["pl"]["l"])
                if d and d[2] == "assign" and d[3]["rv"]["k"] == "use" and d[3]["rv"]["op"]["k"] == "copy" and d[3]["rv"]["op"]["pl"]["p"][:1] == ["*"]:
                    src = body.root_of(d[3]["rv"]["op"]["pl"]["l"])[0]
                elif d and d[2] == "assign" and d[3]["rv"]["k"] == "agg":
                    # a rebuilt struct (`LoopData { entry: .., ..data }`): restore side, out of scope
                    r.ok(key, "rebuilt record on the restore side", nontrivial=False)
                    continue
            if src is None:
                r.fail(key, "cannot see where the saved `data` comes from", where)
                continue
            if 1 <= src <= body.argc:
                # parameter: check the call sites
                pname = body.local_name(src)
                bad = None
                ncs = 0
                for caller in scope:
                    cb = facts.body(caller)
                    for bb, t in cb.iter_calls():
                        if (t.get("resolved") or t.get("callee")) != fn:
                            continue
                        ncs += 1
                        arg = t["args"][src - 1]
                        rt = cb.root_of(arg["pl"]["l"])[0] if arg["k"] in ("copy", "move") else None
                        dd = cb.single_def(rt) if rt is not None else None
                        if not (dd and dd[2] == "call" and (dd[3].get("callee") or "").endswith(("::mat", "::index_mut", "::iat", "::index"))):
                            bad = "%s passes a `%s` that is not store[index] (line %s)" % (caller.split("::")[-1], pname, t.get("line"))
                            continue
                        idx_roots = _int_roots(cb, dd[3]["args"][1])
                        # the callee's id derives from a field of another parameter: the caller's index must derive from the
                        # same field of the argument passed for it
                        want = {(x[2]) for x in id_roots if x[0] == "field"}
                        have = {(x[2]) for x in idx_roots if x[0] == "field"}
                        if not (want and want <= have):
                            bad = "%s passes store[%s] but the record is labelled with %s (line %s)" % (
                                caller.split("::")[-1], sorted(map(str, idx_roots)), sorted(map(str, id_roots)), t.get("line"))
                if bad or not ncs:
                    r.fail(key, bad or "no call site found", where)
                else:
                    r.ok(key, "%d call sites pass store[x.%s] with the same x" % (ncs, "/".join(sorted(".".join(w) for w in want))))
                continue
            dd = body.single_def(src)
            if dd and dd[2] == "call" and (dd[3].get("callee") or "").endswith(("::mat", "::index_mut", "::iat", "::index")):
                idx_roots = _int_roots(body, dd[3]["args"][1])
                common = {x for x in id_roots if x[0] != "const"} & {x for x in idx_roots if x[0] != "const"}
                if common:
                    r.ok(key, "id and the index both derive from %s" % sorted(map(str, common)))
                    r.sample({"key": key, "line": s.get("line"), "shared_origin": sorted(map(str, common))})
                else:
                    r.fail(key, "the record is labelled with %s but carries the data of slot %s: backtracking restores the wrong slot" % (
                        sorted(map(str, id_roots)), sorted(map(str, idx_roots))), where)
                continue
            # data from an iteration over a saved copy: id must combine the enumeration index and the range start
            names = {x[1] for x in id_roots if x[0] == "local"}
            rng = [l for l, d in enumerate(body.locals) if d.get("name") == "range"]
            start_names = set()
            for l in rng:
                for d in body.defs().get(l, []):
                    if d[2] == "assign" and d[3]["rv"]["k"] == "agg" and "start" in d[3]["rv"].get("fields", []):
                        start_names |= {x[1] for x in _int_roots(body, d[3]["rv"]["ops"][d[3]["rv"]["fields"].index("start")]) if x[0] == "local"}
            if "idx" in names and start_names and (start_names & names):
                r.ok(key, "id = enumeration index + %s (start of the saved range)" % sorted(start_names & names))
            else:
                r.fail(key, "records pushed while iterating the saved copy are labelled with %s; they must be labelled index + start of the "
                            "saved range %s, otherwise backtracking restores other groups" % (sorted(names), sorted(start_names)), where)
    r.floor("undo_records", n, 5)
    return r

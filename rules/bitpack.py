"""BITPACK — the text codecs pack bit fields that do not overlap and leave no gap (C13, C14, C06, C04).

A known-bits abstract interpretation (value = exact constant, or a mask of the bits that may be set) is run over the
integer expressions of the UTF-8 / UTF-16 codec helpers (`util::utf8_w2/w3/w4`, `util::utf8_first_byte`,
`Utf16Input::code_point_from_surrogates`, and any other function of util.rs / indexing.rs that combines integers with `|`),
interprocedurally through `const fn` helpers called with constant arguments (`mask_shift(b, 6, 12)`), with named constants
(`UTF8_CONT_SIGBITS`) taken from their evaluated value.
  DISJOINT  for every integer `a | b` in those functions the may-be-set masks of `a` and `b` are disjoint: packing with `|` is
            injective only then. An operator-precedence slip (`h << 10 | l + 0x10000`) or a mask one bit too wide makes two
            different encodings decode to the same code point (U+20BB7 read as U+10BB7).
  WIDTH     a UTF-8 decoder taking N bytes returns exactly the low 5N+1 bits ((7−N) + 6(N−1)), contiguous from bit 0: a
            wrong shift leaves a hole or drops a field's top bit.
  LEAD      `utf8_first_byte`: the marker OR-ed onto a w-bit field is `0xFF & !((1 << (w+1)) − 1)` (N ones, a zero, the field).
  BIAS      `code_point_from_surrogates`, if written as a packing formula: the value returned is a contiguous 20-bit field
            plus the constant 0x10000 — the addition is applied to the packed field, not to one of its halves.
  SURRARGS  every call of `code_point_from_surrogates(high, low)` passes as `high` a unit that passed `is_high_surrogate` and as
            `low` one that passed `is_low_surrogate` on the way to the call (the right-to-left reader names them in reading order).
Decided here is the bit geometry only (a necessary condition of decoding correctly), not the decoded values.
"""
import re

from . import core
from .report import RuleResult

RULE_TEXT = " ".join(x.strip() for x in __doc__.split("\n")[2:] if x.strip())

INT_RX = re.compile(r"^(u|i)(8|16|32|64|128|size)$")


def tymask(ty):
    m = INT_RX.match(ty or "")
    if not m:
        return (1 << 64) - 1
    bits = 64 if m.group(2) == "size" else int(m.group(2))
    return (1 << bits) - 1


class KB:
    """known-bits evaluator over the fact base"""

    def __init__(self, facts):
        self.facts = facts

    def const_item(self, name):
        c = self.facts.consts.get(name)
        if c and isinstance(c.get("int"), int):
            return c["int"]
        return None

    def op(self, b, op, env, depth=0):
        """-> ('c', value) | ('m', mask)"""
        ty = op.get("ty") or (op.get("pl") or {}).get("ty") or ""
        if op["k"] == "const":
            if isinstance(op.get("int"), int):
                return ("c", op["int"] & tymask(ty))
            if op.get("item"):
                v = self.const_item(op["item"])
                if v is not None:
                    return ("c", v & tymask(ty))
            return ("m", tymask(ty))
        if op["k"] not in ("copy", "move"):
            return ("m", tymask(ty))
        l = op["pl"]["l"]
        proj = op["pl"]["p"]
        if proj:
            # the `.0` of a checked arithmetic result
            ds = b.defs().get(l, [])
            if len(ds) == 1 and ds[0][2] == "assign" and ds[0][3]["rv"]["k"] == "checked_bin" and len(proj) == 1 and depth < 12:
                rv = dict(ds[0][3]["rv"])
                rv["k"] = "bin"
                rv["op"] = rv["op"].replace("WithOverflow", "")
                return self.rv(b, rv, ty, env, depth + 1)
            return ("m", tymask(ty))
        if 1 <= l <= b.argc:
            return env.get(l, ("m", tymask(b.local_ty(l))))
        if depth > 12:
            return ("m", tymask(b.local_ty(l)))
        ds = b.defs().get(l, [])
        if not ds:
            return ("m", tymask(b.local_ty(l)))
        vals = []
        for bi, si, kind, pay in ds:
            if kind == "assign":
                if pay["pl"]["p"]:
                    return ("m", tymask(b.local_ty(l)))
                vals.append(self.rv(b, pay["rv"], b.local_ty(l), env, depth + 1))
            elif kind == "call":
                vals.append(self.call(b, pay, b.local_ty(l), env, depth + 1))
            else:
                return ("m", tymask(b.local_ty(l)))
        if len(vals) == 1:
            return vals[0]
        if all(v[0] == "c" for v in vals) and len({v[1] for v in vals}) == 1:
            return vals[0]
        m = 0
        for v in vals:
            m |= v[1]
        return ("m", m)

    def call(self, b, t, ty, env, depth):
        cal = t.get("callee") or ""
        if depth > 12 or not self.facts.has_body(cal):
            return ("m", tymask(ty))
        cb = self.facts.body(cal)
        if len(t["args"]) != cb.argc or not INT_RX.match(cb.local_ty(0) or ""):
            return ("m", tymask(ty))
        cenv = {}
        for i, a in enumerate(t["args"], 1):
            cenv[i] = self.op(b, a, env, depth + 1)
        return self.op(cb, {"k": "copy", "pl": {"l": 0, "p": [], "ty": cb.local_ty(0)}}, cenv, depth + 1)

    def rv(self, b, rv, ty, env, depth):
        tm = tymask(ty)
        k = rv["k"]
        if k == "use":
            return self.op(b, rv["op"], env, depth)
        if k == "cast":
            v = self.op(b, rv["op"], env, depth)
            if rv.get("ck") != "IntToInt" or str(rv.get("from", "")).startswith("i"):
                return ("m", tm)
            return (v[0], v[1] & tm)
        if k != "bin":
            return ("m", tm)
        a = self.op(b, rv["a"], env, depth)
        c = self.op(b, rv["b"], env, depth)
        o = rv["op"]
        if a[0] == "c" and c[0] == "c":
            x, y = a[1], c[1]
            try:
                r = {"BitAnd": x & y, "BitOr": x | y, "BitXor": x ^ y, "Add": x + y, "Sub": x - y, "Mul": x * y,
                     "Shl": x << y if y < 128 else None, "Shr": x >> y if y < 128 else None}.get(o)
            except Exception:
                r = None
            if r is not None:
                return ("c", r & tm)
            return ("m", tm)
        ma, mc = a[1], c[1]
        if o == "BitAnd":
            return ("m", ma & mc & tm)
        if o in ("BitOr", "BitXor"):
            return ("m", (ma | mc) & tm)
        if o == "Shl":
            return ("m", (ma << c[1]) & tm) if c[0] == "c" and c[1] < 128 else ("m", tm)
        if o == "Shr":
            return ("m", ma >> c[1]) if c[0] == "c" and c[1] < 128 else ("m", ma and (1 << ma.bit_length()) - 1)
        if o == "Add":
            if ma & mc == 0:
                return ("m", (ma | mc) & tm)
            return ("m", ((1 << ((ma + mc).bit_length())) - 1) & tm)
        return ("m", tm)


def is_codec_fn(fn):
    return (fn.startswith("util::") or fn.startswith("indexing::") or fn.startswith("<indexing::")) and "::tests::" not in fn and "{closure" not in fn


def check(facts):
    r = RuleResult("BITPACK", RULE_TEXT)
    kb = KB(facts)
    nor = 0
    for fn in sorted(facts.body_names()):
        if not is_codec_fn(fn):
            continue
        b = facts.body(fn)
        k = 0
        for bi, i, s in b.iter_stmts():
            if s["k"] != "assign" or s["rv"]["k"] != "bin" or s["rv"]["op"] != "BitOr" or not INT_RX.match(s["pl"].get("ty") or ""):
                continue
            nor += 1
            k += 1
            a = kb.op(b, s["rv"]["a"], {})
            c = kb.op(b, s["rv"]["b"], {})
            key = "%s `|` #%d packs disjoint fields" % (fn, k)
            if a[1] & c[1]:
                r.fail(key, "the operands of `|` at line %s can both have bit(s) 0x%X set (left may-set mask 0x%X, right 0x%X): the fields "
                            "overlap, so the packing is not injective — two different encodings yield the same value (an operator-precedence "
                            "slip such as `h << 10 | l + 0x10000`, or a mask / shift one bit off)" % (s["line"], a[1] & c[1], a[1], c[1]),
                       facts.loc(fn, s["line"]))
            else:
                r.ok(key, "0x%X | 0x%X" % (a[1], c[1]))
                r.sample({"function": fn, "line": s["line"], "left_mask": "0x%X" % a[1], "right_mask": "0x%X" % c[1]})
    r.floor("integer_or_sites_in_codec_functions", nor, 9)
    # WIDTH
    nw = 0
    for fn in sorted(facts.body_names()):
        m = re.match(r"^util::utf8_w(\d)$", fn)
        if not m:
            continue
        b = facts.body(fn)
        nbytes = len([l for l in range(1, b.argc + 1) if b.local_ty(l) == "u8"])
        v = kb.op(b, {"k": "copy", "pl": {"l": 0, "p": [], "ty": b.local_ty(0)}}, {})
        want = (1 << (5 * nbytes + 1)) - 1
        nw += 1
        key = "%s returns %d contiguous bits" % (fn, 5 * nbytes + 1)
        if v[1] == want:
            r.ok(key, "mask 0x%X" % v[1])
            r.sample({"function": fn, "bytes": nbytes, "mask": "0x%X" % v[1]})
        else:
            r.fail(key, "a %d-byte UTF-8 sequence carries %d payload bits (mask 0x%X) but the decoder's result has may-set mask 0x%X: a "
                        "shift or field width is off (a hole, or a dropped top bit)" % (nbytes, 5 * nbytes + 1, want, v[1]), facts.loc(fn))
    r.floor("utf8_decoders", nw, 3)
    # LEAD
    fn = "util::utf8_first_byte"
    if not facts.has_body(fn):
        r.error("anchor %s not found" % fn)
    else:
        b = facts.body(fn)
        nl = 0
        for bi, i, s in b.iter_stmts():
            if s["k"] != "assign" or s["rv"]["k"] != "bin" or s["rv"]["op"] != "BitOr":
                continue
            a = kb.op(b, s["rv"]["a"], {})
            c = kb.op(b, s["rv"]["b"], {})
            if (a[0] == "c") == (c[0] == "c"):
                continue
            marker, field = (a[1], c[1]) if a[0] == "c" else (c[1], a[1])
            nl += 1
            key = "%s lead byte #%d layout" % (fn, nl)
            w = field.bit_length()
            if field == (1 << w) - 1 and marker == 0xFF & ~((1 << (w + 1)) - 1):
                r.ok(key, "marker 0x%X over a %d-bit field" % (marker, w))
            else:
                r.fail(key, "UTF-8 lead byte at line %s: marker 0x%X does not fit the %d-bit field mask 0x%X (expected marker 0x%X: ones, a "
                            "zero, then the field) — the byte set of the start predicate / the emitted first byte is wrong" % (
                                s["line"], marker, w, field, 0xFF & ~((1 << (w + 1)) - 1)), facts.loc(fn, s["line"]))
        r.floor("lead_byte_forms", nl, 3)
    # BIAS
    for fn in sorted(n for n in facts.body_names() if n.endswith("::code_point_from_surrogates")):
        b = facts.body(fn)
        key = "%s adds the bias to the packed field" % fn
        if not any(s["k"] == "assign" and s["rv"]["k"] == "bin" and s["rv"]["op"] == "BitOr" for _, _, s in b.iter_stmts()):
            r.ok(key, "not written as a packing formula (not decided)")
            continue
        ds = [d for d in b.defs().get(0, []) if d[2] == "assign"]
        good = False
        why = "the returned value is not `<packed field> + 0x10000`"
        if len(ds) == 1 and ds[0][3]["rv"]["k"] in ("bin", "checked_bin") and ds[0][3]["rv"]["op"].startswith("Add"):
            rv = ds[0][3]["rv"]
            a = kb.op(b, rv["a"], {})
            c = kb.op(b, rv["b"], {})
            if (a[0] == "c") != (c[0] == "c"):
                bias, field = (a[1], c[1]) if a[0] == "c" else (c[1], a[1])
                good = bias == 0x10000 and field == 0xFFFFF
                why = "returned value = field with mask 0x%X + constant 0x%X (expected a contiguous 20-bit field + 0x10000)" % (field, bias)
        if good:
            r.ok(key, "20-bit field + 0x10000")
        else:
            r.fail(key, "%s: supplementary code points are 0x10000 + (high10 << 10 | low10); applying the bias to one half, or OR-ing it in, "
                        "decodes every even plane 0x10000 too low" % why, facts.loc(fn))
    # SURRARGS: the halves are handed over in the order (high, low), each having passed its predicate
    ncall = 0
    for fn in sorted(facts.body_names()):
        if "::tests::" in fn:
            continue
        b = facts.body(fn)
        dom = None
        for bb, t in b.iter_calls():
            if not (t.get("callee") or "").endswith("::code_point_from_surrogates") or len(t["args"]) < 2:
                continue
            ncall += 1
            dom = dom or b.dom()
            key = "%s hands (high, low) to code_point_from_surrogates #%d" % (fn, ncall)
            probs = []
            for ai, pred in ((0, "is_high_surrogate"), (1, "is_low_surrogate")):
                a = t["args"][ai]
                if a.get("k") not in ("copy", "move"):
                    probs.append("argument %d is not a variable" % (ai + 1))
                    continue
                root = b.root_of(a["pl"]["l"])[0]

                def same(o):
                    return o.get("k") in ("copy", "move") and b.root_of(o["pl"]["l"])[0] == root
                ok = False
                for sb in dom[bb]:
                    ts = b.blocks[sb]["t"]
                    if ts["k"] != "switch" or ts["discr"].get("k") not in ("copy", "move"):
                        continue
                    d = b.single_def(ts["discr"]["pl"]["l"])
                    neg = False
                    if d and d[2] == "assign" and d[3]["rv"]["k"] == "un" and d[3]["rv"].get("op") == "Not" and d[3]["rv"]["a"].get("k") in ("copy", "move"):
                        neg = True
                        d = b.single_def(d[3]["rv"]["a"]["pl"]["l"])
                    if not d or d[2] != "call" or (d[3].get("callee") or "").split("::")[-1] != pred or not d[3]["args"] or not same(d[3]["args"][0]):
                        continue
                    f0 = [tg for v, tg in ts["targets"] if v == 0]
                    true_edge = f0[0] if (neg and f0) else ts["otherwise"]
                    if not neg or f0:
                        if true_edge == bb or true_edge in dom[bb]:
                            ok = True
                if not ok:
                    probs.append("argument %d (`%s`) has not passed %s on the way to the call" % (ai + 1, b.local_name(root) or "_%d" % root, pred))
            if probs:
                r.fail(key, "%s (line %s): the halves are swapped or unchecked, so the pair decodes to the wrong supplementary code point "
                            "(`(?<=\U0001F600)x` fails right-to-left while the forward reader is right)" % ("; ".join(probs), t.get("line")),
                       facts.loc(fn, t.get("line")))
            else:
                r.ok(key, "high passed is_high_surrogate, low passed is_low_surrogate")
    if facts.config == "utf16":
        r.floor("surrogate_combinations", ncall, 2)
    return r

"""NEGSTR — a v-mode class is complemented only after its string alternatives were checked (C12).

Sites that complement the result of consume_class_set_expression — a call `ClassSet::node(set, _, negate)`
whose negate argument is not the constant false, and an assignment `set.codepoints = set.codepoints.inverted()`
— must be reachable from the parse call only through (i) the `negate == false` edge or (ii) the passing edge
of a check on the set's string alternatives whose failing edge returns Err. Otherwise `[^\\q{ab}]` compiles
and a one-character string survives next to an inverted bracket.
"""
from . import core
from .report import RuleResult

RULE_TEXT = " ".join(x.strip() for x in __doc__.split("\n")[2:] if x.strip())


def touches_alternatives(facts, fn):
    if not facts.has_body(fn):
        return False
    b = facts.body(fn)
    import json
    return '"alternatives"' in json.dumps(b.j["blocks"])


def check(facts):
    r = RuleResult("NEGSTR", RULE_TEXT)
    n = 0
    for fn in sorted(facts.body_names()):
        if not fn.startswith("parse::Parser") or "{closure" in fn:
            continue
        b = facts.body(fn)
        parses = [bb for bb, t in b.iter_calls() if (t.get("callee") or "").endswith("::consume_class_set_expression")]
        if not parses:
            continue
        sites = []
        for bb, t in b.iter_calls():
            cal = t.get("callee") or ""
            if cal == "parse::ClassSet::node":
                neg = t["args"][2]
                if neg["k"] == "const" and neg.get("int") == 0:
                    continue
                sites.append((bb, "ClassSet::node(.., negate)", t.get("line"), neg))
            if cal.endswith("CodePointSet::inverted"):
                a0 = t["args"][0]
                if a0["k"] in ("copy", "move"):
                    pl = a0["pl"]
                    rt, pr = b.root_of(pl["l"])
                    tys = [b.local_ty(rt)]
                    fields = [x.get("f") for x in pr + pl["p"] if isinstance(x, dict) and "f" in x]
                    if "parse::ClassSet" in tys[0] and "codepoints" in fields:
                        sites.append((bb, "set.codepoints.inverted()", t.get("line"), None))
        for bb, desc, line, neg in sites:
            n += 1
            key = "%s %s" % (fn, desc)
            # candidate cut targets
            cut = set()
            succ = b.succ()
            for d in b.reachable():
                t = b.blocks[d]["t"]
                if t["k"] != "switch" or t["discr"]["k"] not in ("copy", "move"):
                    continue
                l = t["discr"]["pl"]["l"]
                df = b.single_def(l)
                # (i) switch on the negate flag itself: the false edge
                name = b.local_name(b.root_of(l)[0]) or ""
                if "negate" in name:
                    for v, tg in t["targets"]:
                        if v == 0:
                            cut.add(tg)
                    continue
                # (ii) strings check: result of a call that consults `alternatives`, possibly through `!`
                src = df
                polarity = True
                if src and src[2] == "assign" and src[3]["rv"]["k"] == "un" and src[3]["rv"]["op"] == "Not":
                    o = src[3]["rv"]["a"]
                    src = b.single_def(o["pl"]["l"]) if o["k"] in ("copy", "move") else None
                    polarity = False
                if src and src[2] == "call":
                    cal = src[3].get("resolved") or src[3].get("callee") or ""
                    consults = touches_alternatives(facts, cal) or any(
                        a.get("k") in ("copy", "move") and "alternatives" in [x.get("f") for x in b.root_of(a["pl"]["l"])[1] if isinstance(x, dict)]
                        for a in src[3]["args"])
                    if consults:
                        # one edge must lead to parse::error without reaching the site; the other is the pass edge
                        for tg in succ.get(d, []):
                            reach = b.reach_from(tg)
                            errs = any((b.blocks[y]["t"].get("callee") == "parse::error") for y in reach)
                            if bb in reach:
                                others = [x for x in succ.get(d, []) if x != tg]
                                if others and all(bb not in b.reach_from(x) and any(b.blocks[y]["t"].get("callee") == "parse::error"
                                                                                    for y in b.reach_from(x)) for x in others):
                                    cut.add(tg)
            # reachability from the parse calls to the site with the cut targets removed
            reached = False
            for p0 in parses:
                seen = set()
                stack = list(succ.get(p0, []))
                while stack:
                    x = stack.pop()
                    if x in seen or x in cut:
                        continue
                    seen.add(x)
                    if x == bb:
                        reached = True
                        break
                    stack.extend(succ.get(x, []))
            if reached:
                r.fail(key, "the class set is complemented (line %s) on a path where its string alternatives were never checked: a negated "
                            "class would silently keep or accept strings" % line, facts.loc(fn, line))
            else:
                r.ok(key, "only reachable through negate == false or a passed string check")
                r.sample({"key": key, "line": line})
    r.floor("complement_sites", n, 2)
    return r

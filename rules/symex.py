"""Acyclic path summaries by symbolic evaluation of small loop-free MIR bodies (analysis 5).

For every path from entry to return the evaluator records the branch conditions taken (as symbolic
expressions over the parameters, with polarity), the returned value and the final value of every
`&mut` parameter cell. Position arithmetic through the repo's operator impls (Add/Sub/AddAssign/
SubAssign on position types) is folded into a linear normal form so cursor deltas compare by value.
"""
import re


class Unsupported(Exception):
    pass


def lin(v):
    """Linear normal form: (const, ((term, coeff), ...))."""
    if isinstance(v, tuple) and v and v[0] == "lin":
        return v
    if isinstance(v, tuple) and v and v[0] == "int":
        return ("lin", v[1], ())
    return ("lin", 0, ((v, 1),))


def lin_add(a, b, sign=1):
    a, b = lin(a), lin(b)
    terms = dict(a[2])
    for t, c in b[2]:
        terms[t] = terms.get(t, 0) + sign * c
    terms = tuple(sorted(((t, c) for t, c in terms.items() if c != 0), key=lambda x: repr(x)))
    return simplify(("lin", a[1] + sign * b[1], terms))


def simplify(v):
    if v[0] == "lin":
        if not v[2]:
            return ("int", v[1])
        if v[1] == 0 and len(v[2]) == 1 and v[2][0][1] == 1:
            return v[2][0][0]
    return v


OPS_ADD = ("ops::Add::add", "ops::arith::Add::add")
OPS_SUB = ("ops::Sub::sub", "ops::arith::Sub::sub")
OPS_ADDA = ("ops::AddAssign::add_assign", "ops::arith::AddAssign::add_assign")
OPS_SUBA = ("ops::SubAssign::sub_assign", "ops::arith::SubAssign::sub_assign")
CMP_CALLS = {"cmp::PartialEq::eq": "==", "cmp::PartialEq::ne": "!=", "cmp::PartialOrd::lt": "<", "cmp::PartialOrd::le": "<=",
             "cmp::PartialOrd::gt": ">", "cmp::PartialOrd::ge": ">="}


def short_callee(t):
    c = t.get("resolved") or t.get("callee") or "<indirect>"
    # strip generic noise and impl wrappers: keep the last two path segments
    c = re.sub(r"<[^<>]*>", "", c)
    c = re.sub(r"<[^<>]*>", "", c)
    parts = [p for p in c.replace("::::", "::").split("::") if p and not p.startswith("<")]
    return "::".join(parts[-2:]) if len(parts) >= 2 else c


class Path:
    def __init__(self):
        self.guards = []
        self.calls = []
        self.ret = None
        self.cells = {}
        self.diverged = None


class SymEx:
    def __init__(self, body, max_paths=4000, overrides=None, tolerate_loops=False):
        self.tolerate_loops = tolerate_loops
        self.overrides = overrides or {}
        self.body = body
        self.max_paths = max_paths
        self.paths = []
        self.fresh = 0

    def init_env(self):
        env = {}
        cells = {}
        b = self.body
        for l in range(1, b.argc + 1):
            ty = b.local_ty(l)
            name = b.local_name(l) or "_%d" % l
            if ty.startswith("&mut "):
                cells[l] = ("init", name)
                env[l] = ("ref", ("cell", l))
            else:
                env[l] = ("init", name)
            if l in self.overrides:
                env[l] = self.overrides[l]
        return env, cells

    def read_place(self, env, cells, pl):
        l = pl["l"]
        v = env.get(l, ("uninit", l))
        # field of a `&mut` parameter cell: (*self).f
        if v[0] == "ref" and v[1][0] == "cell" and len(pl["p"]) >= 2 and pl["p"][0] == "*" \
                and all(isinstance(x, dict) and "f" in x for x in pl["p"][1:]):
            key = (v[1][1],) + tuple(x["f"] for x in pl["p"][1:])
            if key in cells:
                return cells[key]
        for p in pl["p"]:
            if p == "*":
                if v[0] == "ref":
                    tgt = v[1]
                    v = cells.get(tgt[1]) if tgt[0] == "cell" else env.get(tgt[1], ("uninit", tgt[1]))
                else:
                    v = ("deref", v) if v[0] != "init" else v  # *self ~ self for read-only receivers
            elif isinstance(p, dict) and "f" in p:
                if v[0] == "agg" and p["i"] < len(v[2]):
                    v = v[2][p["i"]]
                else:
                    v = ("field", v, p["f"])
            elif isinstance(p, dict) and "as" in p:
                if v[0] == "agg":
                    pass
                else:
                    v = ("as", v, p["as"])
            elif isinstance(p, dict) and "idx" in p:
                v = ("index", v, env.get(p["idx"], ("uninit", p["idx"])))
            else:
                v = ("proj", v, repr(p))
        return v

    def operand(self, env, cells, op):
        if op["k"] in ("copy", "move"):
            return self.read_place(env, cells, op["pl"])
        if op["k"] == "const":
            if "int" in op:
                return ("int", op["int"])
            if "item" in op:
                return ("constitem", op["item"])
            if "fn" in op:
                return ("fn", op.get("fn_resolved") or op["fn"])
            return ("const", op.get("val"))
        return ("unk", "operand")

    def write_place(self, env, cells, pl, val):
        l = pl["l"]
        if not pl["p"]:
            env[l] = val
            return
        if pl["p"] == ["*"]:
            v = env.get(l)
            if v and v[0] == "ref":
                tgt = v[1]
                if tgt[0] == "cell":
                    cells[tgt[1]] = val
                else:
                    env[tgt[1]] = val
                return
        v = env.get(l)
        if v and v[0] == "ref" and v[1][0] == "cell" and len(pl["p"]) >= 2 and pl["p"][0] == "*" \
                and all(isinstance(x, dict) and "f" in x for x in pl["p"][1:]):
            cells[(v[1][1],) + tuple(x["f"] for x in pl["p"][1:])] = val
            return
        # field write into a local aggregate / through a ref: keep a coarse record
        base = env.get(l, ("uninit", l))
        env[l] = ("updated", base, repr(pl["p"]), val)

    def rvalue(self, env, cells, rv):
        k = rv["k"]
        if k == "use":
            return self.operand(env, cells, rv["op"])
        if k in ("ref", "rawptr"):
            pl = rv["pl"]
            if not pl["p"]:
                return ("ref", ("local", pl["l"]))
            if pl["p"] == ["*"]:
                v = env.get(pl["l"], ("uninit", pl["l"]))
                if v[0] == "ref":
                    return v
                return v  # &*self ~ self
            return ("refof", self.read_place(env, cells, pl))
        if k == "bin":
            a, b = self.operand(env, cells, rv["a"]), self.operand(env, cells, rv["b"])
            op = rv["op"]
            if op in ("Add", "AddUnchecked", "AddWithOverflow"):
                return lin_add(a, b, 1)
            if op in ("Sub", "SubUnchecked", "SubWithOverflow"):
                return lin_add(a, b, -1)
            m = {"Eq": "==", "Ne": "!=", "Lt": "<", "Le": "<=", "Gt": ">", "Ge": ">="}.get(op)
            if m:
                return ("cmp", m, a, b)
            return ("bin", op, a, b)
        if k == "un":
            return ("un", rv["op"], self.operand(env, cells, rv["a"]))
        if k == "cast":
            return self.operand(env, cells, rv["op"])
        if k == "agg":
            ops = tuple(self.operand(env, cells, o) for o in rv["ops"])
            if rv.get("ak") == "adt":
                return ("agg", rv["adt"].split("::")[-1] + "::" + rv["variant"], ops)
            return ("agg", rv.get("ak"), ops)
        if k == "discr":
            v = self.read_place(env, cells, rv["pl"])
            if v[0] == "agg" and "::" in v[1]:
                # known variant: resolve to its index name
                return ("variant", v[1].split("::")[-1])
            return ("discr", v, tuple((n, nm) for n, nm in rv.get("variants", [])))
        if k == "repeat":
            return ("repeat", self.operand(env, cells, rv["op"]))
        return ("unk", k)

    def deref_arg(self, env, cells, v):
        """For call arguments: a reference to a local/cell is shown as the value it points to."""
        if v[0] == "ref":
            tgt = v[1]
            return cells.get(tgt[1]) if tgt[0] == "cell" else env.get(tgt[1], ("uninit", tgt[1]))
        if v[0] == "refof":
            return v[1]
        return v

    def call(self, env, cells, t):
        name = short_callee(t)
        full = t.get("resolved") or t.get("callee") or ""
        args = [self.operand(env, cells, a) for a in t["args"]]
        cal = t.get("callee") or ""
        if cal.endswith(OPS_ADD):
            return lin_add(self.deref_arg(env, cells, args[0]), self.deref_arg(env, cells, args[1]), 1)
        if cal.endswith(OPS_SUB):
            return lin_add(self.deref_arg(env, cells, args[0]), self.deref_arg(env, cells, args[1]), -1)
        if cal.endswith(OPS_ADDA) or cal.endswith(OPS_SUBA):
            sign = 1 if cal.endswith(OPS_ADDA) else -1
            r = args[0]
            if r[0] == "ref":
                tgt = r[1]
                cur = cells.get(tgt[1]) if tgt[0] == "cell" else env.get(tgt[1])
                new = lin_add(cur, self.deref_arg(env, cells, args[1]), sign)
                if tgt[0] == "cell":
                    cells[tgt[1]] = new
                else:
                    env[tgt[1]] = new
                return ("unit",)
            raise Unsupported("add_assign through an unknown reference")
        for suffix, op in CMP_CALLS.items():
            if cal.endswith(suffix):
                return ("cmp", op, self.deref_arg(env, cells, args[0]), self.deref_arg(env, cells, args[1]))
        # havoc &mut arguments of unknown callees
        shown = []
        for a, raw in zip(args, t["args"]):
            shown.append(self.deref_arg(env, cells, a))
            if a[0] == "ref" and raw.get("pl", {}).get("ty", "").startswith("&mut"):
                self.fresh += 1
                tgt = a[1]
                hv = ("havoc", name, self.fresh)
                if tgt[0] == "cell":
                    cells[tgt[1]] = hv
                else:
                    env[tgt[1]] = hv
        return ("call", name, tuple(shown))

    def run(self):
        env, cells = self.init_env()
        self._go(0, env, cells, [], set(), [])
        return self.paths

    def _go(self, bb, env, cells, guards, visited, calls=None):
        calls = list(calls or [])
        body = self.body
        while True:
            if len(self.paths) > self.max_paths:
                raise Unsupported("too many paths")
            if bb in visited:
                if self.tolerate_loops:
                    p = Path()
                    p.guards = list(guards)
                    p.calls = list(calls)
                    p.diverged = "loop"
                    p.cells = dict(cells)
                    p.loop_line = body.blocks[bb]["t"].get("line")
                    self.paths.append(p)
                    return
                raise Unsupported("loop at bb%d" % bb)
            visited = visited | {bb}
            blk = body.blocks[bb]
            for s in blk["s"]:
                if s["k"] == "assign":
                    self.write_place(env, cells, s["pl"], self.rvalue(env, cells, s["rv"]))
            t = blk["t"]
            k = t["k"]
            if k == "goto":
                bb = t["t"]
                continue
            if k == "return":
                p = Path()
                p.guards = list(guards)
                p.calls = list(calls)
                p.ret = env.get(0, ("unit",))
                p.cells = dict(cells)
                self.paths.append(p)
                return
            if k in ("unreachable", "resume", "terminate"):
                p = Path()
                p.guards = list(guards)
                p.diverged = k
                self.paths.append(p)
                return
            if k == "drop":
                bb = t["t"]
                continue
            if k == "assert":
                bb = t["t"]
                continue
            if k == "call":
                argvals = [self.deref_arg(env, cells, self.operand(env, cells, a)) for a in t["args"]]
                calls.append((short_callee(t), tuple(argvals), t.get("line")))
                res = self.call(env, cells, t)
                if t.get("t") is None:
                    p = Path()
                    p.guards = list(guards)
                    p.diverged = "call:" + short_callee(t)
                    self.paths.append(p)
                    return
                self.write_place(env, cells, t["dest"], res)
                bb = t["t"]
                continue
            if k == "switch":
                c = body.const_of_operand(t["discr"])
                v = self.operand(env, cells, t["discr"])
                if c is None and v[0] == "int":
                    c = v[1]
                if c is not None:
                    nxt = None
                    for val, tgt in t["targets"]:
                        if val == c:
                            nxt = tgt
                    bb = nxt if nxt is not None else t["otherwise"]
                    continue
                if v[0] == "variant":
                    raise Unsupported("switch on a locally built variant")
                is_bool = t.get("dty") == "bool"
                names = dict(v[2]) if v[0] == "discr" else {}
                seen_vals = []
                for val, tgt in t["targets"]:
                    seen_vals.append(val)
                    label = (False if val == 0 else True) if is_bool else (names.get(val, val))
                    gv = v[1] if v[0] == "discr" else v
                    self._go(tgt, dict(env), dict(cells), guards + [(gv, label)], visited, calls)
                other = t["otherwise"]
                if other is not None and body.blocks[other]["t"]["k"] != "unreachable":
                    if is_bool and seen_vals == [0]:
                        label = True
                    elif names:
                        rest = [nm for n, nm in names.items() if n not in seen_vals]
                        label = rest[0] if len(rest) == 1 else ("other", tuple(rest))
                    else:
                        label = ("not", tuple(seen_vals))
                    gv = v[1] if v[0] == "discr" else v
                    self._go(other, dict(env), dict(cells), guards + [(gv, label)], visited, calls)
                return
            raise Unsupported("terminator %s" % k)


def show(v, depth=0):
    """Compact printable form."""
    if not isinstance(v, tuple):
        return str(v)
    t = v[0]
    if t == "init":
        return v[1]
    if t == "int":
        return str(v[1])
    if t == "lin":
        parts = []
        for term, c in v[2]:
            s = show(term)
            parts.append(("+" if c > 0 else "-") + (s if abs(c) == 1 else "%d*%s" % (abs(c), s)))
        if v[1]:
            parts.append(("+" if v[1] > 0 else "-") + str(abs(v[1])))
        out = "".join(parts)
        return out[1:] if out.startswith("+") else out
    if t == "call":
        return "%s(%s)" % (v[1].split("::")[-1], ", ".join(show(a) for a in v[2]))
    if t == "cmp":
        return "%s %s %s" % (show(v[2]), v[1], show(v[3]))
    if t == "agg":
        return "%s(%s)" % (v[1].split("::")[-1], ", ".join(show(a) for a in v[2]))
    if t == "field":
        return "%s.%s" % (show(v[1]), v[2])
    if t in ("deref", "refof"):
        return show(v[1])
    if t == "as":
        return "%s as %s" % (show(v[1]), v[2])
    if t == "un":
        return "%s(%s)" % (v[1], show(v[2]))
    if t == "bin":
        return "%s(%s, %s)" % (v[1], show(v[2]), show(v[3]))
    if t == "havoc":
        return "havoc#%s" % v[1]
    if t == "ref":
        return "&%s" % (v[1],)
    return t


def canon_guard(g, v):
    """Branch condition with polarity in canonical form: only `<` and `==` comparisons (operands of `==` ordered),
    negations folded into the polarity. `a <= b` taken ≡ `b < a` not taken, `a > b` ≡ `b < a`, `a >= b` ≡ not `a < b`."""
    for _ in range(8):
        if isinstance(g, tuple) and g and g[0] == "un" and g[1] in ("Not", "!"):
            g, v = g[2], (not v if isinstance(v, bool) else v)
            continue
        if isinstance(g, tuple) and g and g[0] == "cmp" and isinstance(v, bool):
            op, a, b = g[1], g[2], g[3]
            if op == "<=":
                g, v = ("cmp", "<", b, a), not v
            elif op == ">":
                g = ("cmp", "<", b, a)
            elif op == ">=":
                g, v = ("cmp", "<", a, b), not v
            elif op == "!=":
                g, v = ("cmp", "==", a, b), not v
                continue
            elif op == "==" and repr(b) < repr(a):
                g = ("cmp", "==", b, a)
        break
    return g, v


def cguards(p):
    """Canonical printable guards of a path: [(text, polarity)]."""
    return [(show(g2), v2) for g2, v2 in (canon_guard(g, v) for g, v in p.guards)]


def contains_call(v, names):
    if isinstance(v, tuple):
        if v and v[0] == "call" and v[1].split("::")[-1] in names:
            return True
        return any(contains_call(x, names) for x in v)
    return False

"""Developer helper: pretty-print MIR facts.  python3 -m rules.dev <config> <fn-regex> [bb...]"""
import sys, json, re
from . import core
from .core import place_str

def op_str(op, body):
    if op['k'] in ('copy','move'):
        return op['k']+' '+place_str(op['pl'], body)
    if op['k']=='const':
        if 'int' in op: return 'const %s:%s'%(op['int'],op['ty'])
        if 'item' in op: return 'const %s%s'%(op['item'], '::promoted[%d]'%op['promoted'] if 'promoted' in op else '')
        if 'fn' in op: return 'fn %s'%op['fn']
        return 'const '+str(op.get('val'))
    return str(op)

def rv_str(rv, body):
    k=rv['k']
    if k=='use': return op_str(rv['op'],body)
    if k=='ref': return '&%s %s'%(rv['m'],place_str(rv['pl'],body))
    if k=='agg':
        if rv['ak']=='adt': return '%s::%s{%s}'%(rv['adt'],rv['variant'],', '.join('%s: %s'%(f,op_str(o,body)) for f,o in zip(rv['fields'],rv['ops'])))
        return '%s(%s)'%(rv['ak'],', '.join(op_str(o,body) for o in rv['ops']))
    if k=='bin': return '%s(%s, %s)'%(rv['op'],op_str(rv['a'],body),op_str(rv['b'],body))
    if k=='un': return '%s(%s)'%(rv['op'],op_str(rv['a'],body))
    if k=='discr': return 'discriminant(%s) [%s]'%(place_str(rv['pl'],body), rv.get('enum'))
    if k=='cast': return '%s as %s (%s)'%(op_str(rv['op'],body), rv['to'], rv['ck'])
    return json.dumps(rv)[:200]

def dump(body, only=None):
    reach = body.reachable()
    for bi,b in enumerate(body.blocks):
        if only and bi not in only: continue
        if bi not in reach and not only: continue
        print('bb%d:%s'%(bi,' (cleanup)' if b['cleanup'] else ''))
        for s in b['s']:
            if s['k']=='assign':
                print('   %s = %s   // L%s'%(place_str(s['pl'],body), rv_str(s['rv'],body), s['line']))
            elif s['k']=='dead': pass
            else: print('   ',json.dumps(s)[:200])
        t=b['t']
        if t['k']=='call':
            print('   %s = call %s [%s] (%s) -> bb%s  // L%s'%(place_str(t['dest'],body), t.get('callee','<indirect>'), t.get('resolved',''), ', '.join(op_str(a,body) for a in t['args']), t['t'], t['line']))
        elif t['k']=='switch':
            print('   switch %s -> %s else bb%s  [pruned succ: %s]'%(op_str(t['discr'],body), t['targets'], t['otherwise'], body.succ().get(bi)))
        else:
            print('   ',{k:v for k,v in t.items() if k not in ('pl',)} , place_str(t['pl'],body) if 'pl' in t else '')

if __name__=='__main__':
    import os
    os.environ.setdefault('VERIF_FACTS_CACHE','/root/scratch/factscache')
    f=core.Facts.load(sys.argv[1])
    names=f.find_bodies(sys.argv[2])
    for n in names:
        print('=====',n)
        b=f.body(n)
        for i,l in enumerate(b.locals):
            if l.get('name'): print('  _%d %s: %s'%(i,l['name'],l['ty']))
        dump(b, set(map(int,sys.argv[3:])) or None)

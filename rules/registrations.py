"""Which rules serve which property (DESIGN.md §4)."""
from .registry import reg

# C01 First match is the ES-prescribed one
reg("C01", "undo")

# C02 Backtracking == PikeVM
reg("C02", "undo")

# C05 Termination
reg("C05", "undo")

# C19 Immutable and thread-safe
reg("C19", "types", level="proof")

# C12 Character classes evaluate as sets
reg("C12", "mustuse")

# C07 Compilation is total
reg("C07", "recguard")
reg("C07", "recguard", fn="check_limits")
reg("C07", "panics", fn="check_compile")
reg("C01", "scm")
reg("C02", "scm", fn="check_narrow")
reg("C12", "strsort")
reg("C11", "strsort")
reg("C01", "lbseq")
reg("C03", "lbseq")
reg("C03", "scm", fn="check_narrow")
reg("C13", "scm", fn="check_narrow")
reg("C03", "arm")
reg("C04", "arm")

# C06 memory-safe, panic-free
reg("C06", "sibpos", configs=("default", "utf16"))
reg("C06", "scm")
reg("C06", "panics", fn="check_match", configs=("default", "pu", "utf16"))
# C14 UTF-16 / UCS-2
reg("C14", "sibpos", configs=("utf16",))
reg("C14", "panics", fn="check_match", configs=("utf16",))
reg("C06", "mirror")
reg("C01", "mirror")
reg("C01", "mirror", fn="check_dirstate")
reg("C03", "mirror", fn="check_dirstate")

# C16 Match accessors
reg("C16", "names")

# C09 iteration / lastIndex semantics
reg("C09", "plumb")
reg("C04", "plumb")
reg("C14", "plumb", configs=("utf16",))

# C10 case-insensitive relation; C11 property escapes
reg("C10", "tables", fn="check_wellformed")
reg("C10", "tables", fn="check_mode")
reg("C10", "tables", fn="check_identities")
reg("C11", "tables", fn="check_wellformed")
reg("C11", "tables", fn="check_identities")
reg("C11", "tables", fn="check_wiring")
reg("C02", "opsib")
reg("C10", "opsib")

# rules added from the study of seeded changes (rules/extra.py)
reg("C05", "extra", fn="check_emptyiter")
reg("C02", "extra", fn="check_emptyiter")
reg("C02", "extra", fn="check_iterbudget")
reg("C01", "extra", fn="check_iterbudget")
reg("C02", "extra", fn="check_l1reset")
reg("C03", "extra", fn="check_copyfid")
reg("C07", "extra", fn="check_narrowcast")
reg("C13", "extra", fn="check_asciifold")
reg("C10", "extra", fn="check_asciifold")

# C17 replace; C18 escape
reg("C17", "apirules", fn="check_splice")
reg("C18", "apirules", fn="check_escape")

# C15 results independent of features
reg("C15", "twin", fn="check_twin", configs=("default", "pu"))
reg("C15", "twin", fn="check_xconfig", configs=("default", "pu", "ip", "ip+pu", "alloc", "utf16"), per_config=False)
reg("C15", "twin", fn="check_possib")
reg("C15", "twin", fn="check_hashiter", configs=("default", "alloc"))
reg("C15", "twin", fn="check_cfginv", configs=("default", "utf16"))
reg("C15", "sibpos", configs=("ip",))
reg("C14", "lbseq", configs=("utf16",))
reg("C15", "lbseq", configs=("utf16",))

# C20 Pattern-trait searcher (nightly, --features pattern)
reg("C20", "tiling", configs=("pattern",))
reg("C20", "plumb", configs=("pattern",))
reg("C14", "extra", fn="check_asciifold", configs=("utf16",))
reg("C07", "arm")
reg("C09", "sibpos", configs=("utf16",))
reg("C12", "negstr")
reg("C14", "extra", fn="check_utf16bytes", configs=("default", "utf16"), per_config=False)
reg("C06", "bts", configs=("default", "pu"))
reg("C02", "undo", fn="check_iddata")
reg("C01", "undo", fn="check_iddata")
reg("C03", "extra", fn="check_charsetpad")
reg("C01", "extra", fn="check_charsetpad")
reg("C16", "arm")
reg("C16", "undo", fn="check_iddata")
reg("C12", "extra", fn="check_crossmemb")
reg("C07", "extra", fn="check_lenarms", configs=("default", "utf16"))
reg("C07", "extra", fn="check_asciibitmap")
reg("C12", "extra", fn="check_charsetpad")
reg("C06", "extra", fn="check_asciiguard")
reg("C03", "extra", fn="check_asciiguard")
reg("C06", "extra", fn="check_iterbudget")
reg("C10", "tables", fn="check_stride")
reg("C03", "extra", fn="check_keeplive")
reg("C01", "extra", fn="check_keeplive")
reg("C09", "plumb", configs=("utf16",))

# rules added from the third batch of seeded changes (round 2, properties C10..C20)
reg("C10", "backref")
reg("C15", "backref", configs=("default", "ip"))
reg("C10", "extra", fn="check_casesrc")
reg("C18", "extra", fn="check_casesrc")
reg("C18", "extra", fn="check_charsetpad")
reg("C18", "extra", fn="check_lenarms", configs=("default", "utf16"))
reg("C04", "commute")
reg("C15", "commute")
reg("C11", "propneg")
reg("C12", "propneg")
reg("C13", "plumb")
reg("C13", "truncast")
reg("C14", "truncast", configs=("utf16",))
reg("C06", "truncast")
reg("C17", "apirules", fn="check_scanner")
reg("C12", "twin", fn="check_countsib")
reg("C04", "bitgeom")
reg("C15", "bitgeom")

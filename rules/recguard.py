"""RECGUARD / LIMITS — recursion and counters on the compile path are bounded (C07).

RECGUARD: in the call graph of the compile path (parse, ir, optimizer, emit, startpredicate, unicode,
literal, codepointset, api::Regex constructors), every recursion cycle must pass through a call edge
all of whose call sites are dominated by a *bounded-counter guard*:
  (i)  a comparison of a field of `&mut self` (Parser.depth) with a constant, whose failing edge cannot
       reach the call, with the field incremented before the call;
  (ii) the same on a by-value integer parameter that is incremented and passed on (try_duplicate);
  (iii) a test-and-decrement of a `&mut usize` budget parameter passed on (is_unrollable);
or be listed in the triage table with a reason that is itself checked (emit: the re-entrant call only
receives leaf nodes). Recursive drop glue of recursive ADTs is reported with the walkers. All field-counter guards in parse.rs
use the same field (one budget for the total nesting, not one per kind of nesting).

LIMITS: every `+= 1` of a Parser counter that becomes an index type downstream (group_count, loop_count)
is dominated by a comparison of that field with a MAX_* constant whose failing edge returns Err.
"""
import re

from . import core
from .core import place_str
from .report import RuleResult

COMPILE_MODULES = ("parse::", "ir::", "optimizer::", "emit::", "startpredicate::", "unicode::", "literal::",
                   "codepointset::", "api::Regex::", "api::Flags", "<api::Flags", "<ir::", "<parse::", "<literal::")
ENTRY = "api::Regex::from_unicode"
CMP_OPS = {"Gt", "Ge", "Lt", "Le", "Eq", "Ne"}
LEAF_VARIANTS = {"Char", "CharSet", "ByteSequence", "ByteSet", "Empty", "MatchAny", "MatchAnyExceptLineTerminator"}


def in_compile_path(name):
    return any(name.startswith(m) or ("as " + m) in name for m in COMPILE_MODULES)


def counter_place(body, op):
    """Classify an operand as a read of a counter place. Returns a hashable descriptor or None."""
    if op["k"] not in ("copy", "move"):
        return None
    pl = op["pl"]
    l, p = pl["l"], pl["p"]
    # follow one temp copy
    if not p and l > body.argc:
        d = body.single_def(l)
        if d and d[2] == "assign" and d[3]["rv"]["k"] == "use" and d[3]["rv"]["op"]["k"] in ("copy", "move"):
            return counter_place(body, d[3]["rv"]["op"])
        # `let depth = depth + 1;` (a shadowing local instead of `depth += 1`): the local *is* the stepped counter
        if d and d[2] == "assign" and d[3]["rv"]["k"] in ("bin", "checked_bin") and str(d[3]["rv"].get("op", "")).startswith(("Add", "Sub")) \
                and d[3]["rv"]["b"].get("k") == "const" and isinstance(d[3]["rv"]["b"].get("int"), int) and d[3]["rv"]["b"]["int"] >= 1:
            base = counter_place(body, d[3]["rv"]["a"])
            if base and base[0] == "param":
                return ("derived", l, (d[0], d[1], d[3]["rv"]["op"]))
        if d and d[2] == "assign" and d[3]["rv"]["k"] == "use" and d[3]["rv"]["op"]["k"] in ("copy", "move") and d[3]["rv"]["op"]["pl"]["p"]:
            # (tmp.0) of a checked add
            inner = body.single_def(d[3]["rv"]["op"]["pl"]["l"])
            if inner and inner[2] == "assign" and inner[3]["rv"]["k"] == "checked_bin":
                base = counter_place(body, inner[3]["rv"]["a"])
                if base and base[0] == "param" and inner[3]["rv"]["b"].get("k") == "const":
                    return ("derived", l, (inner[0], inner[1], inner[3]["rv"]["op"]))
        return None
    if not p and 1 <= l <= body.argc:
        ty = body.local_ty(l)
        if re.match(r"^(u|i)(8|16|32|64|size)$", ty):
            return ("param", l, ())
        return None
    if p and p[0] == "*" and 1 <= l <= body.argc and body.local_ty(l).startswith("&mut "):
        fields = tuple(x["f"] for x in p[1:] if isinstance(x, dict) and "f" in x)
        if len(fields) == len(p) - 1:
            return ("deref", l, fields)
    return None


def is_const(op):
    return op["k"] == "const" and ("int" in op or "item" in op)


def find_guards(body):
    """All switch terminators whose discriminant compares a counter place with a constant.
    Returns list of dict(bb, place, targets)."""
    out = []
    for bb in body.reachable():
        t = body.blocks[bb]["t"]
        if t["k"] != "switch":
            continue
        d = t["discr"]
        if d["k"] not in ("copy", "move") or d["pl"]["p"]:
            continue
        df = body.single_def(d["pl"]["l"])
        if not df or df[2] != "assign":
            continue
        rv = df[3]["rv"]
        if rv["k"] != "bin" or rv["op"] not in CMP_OPS:
            continue
        a, b = rv["a"], rv["b"]
        place = None
        const = None
        if is_const(b):
            place, const = counter_place(body, a), b
        elif is_const(a):
            place, const = counter_place(body, b), a
        if place is None:
            continue
        out.append({"bb": bb, "place": place, "const": const.get("item") or const.get("int"), "op": rv["op"],
                    "line": t.get("line")})
    return out


def counter_steps(body, place):
    """Statements `P = Add/Sub(copy P, const k>=1)` for the counter place."""
    out = []
    for bi, i, s in body.iter_stmts():
        if s["k"] != "assign":
            continue
        rv = s["rv"]
        if rv["k"] != "bin" or rv["op"] not in ("Add", "Sub", "AddWithOverflow", "SubWithOverflow", "AddUnchecked", "SubUnchecked"):
            continue
        if not (rv["b"]["k"] == "const" and isinstance(rv["b"].get("int"), int) and rv["b"]["int"] >= 1):
            continue
        src = counter_place(body, rv["a"])
        dst_op = {"k": "copy", "pl": s["pl"]}
        dst = counter_place(body, dst_op) if (s["pl"]["p"] or s["pl"]["l"] <= body.argc) else None
        if src == place and dst == place:
            out.append((bi, i, rv["op"]))
    return out


def site_guard(body, call_bb, callee_is_self, call_term, facts=None):
    """Return a description of the guard protecting the call in block call_bb, or None."""
    succ = body.succ()
    derived_locals = set()
    for g in find_guards(body):
        if g["bb"] == call_bb or g["bb"] not in body.dom()[call_bb]:
            continue
        # exactly the pass edge(s) reach the call; at least one edge must not
        reach = [s for s in succ[g["bb"]] if call_bb in body.reach_from(s)]
        noreach = [s for s in succ[g["bb"]] if s not in reach]
        if not noreach or not reach:
            continue
        # fail edge ends in a return/diverge (never comes back to the guard or the call)
        ok_fail = all(call_bb not in body.reach_from(s) for s in noreach)
        if not ok_fail:
            continue
        if g["place"][0] == "derived":
            steps = [g["place"][2]] if body.dominates((g["place"][2][0], g["place"][2][1]), (call_bb, -1)) else []
        else:
            steps = [st for st in counter_steps(body, g["place"]) if body.dominates((st[0], st[1]), (call_bb, -1))]
            if not steps and g["place"][0] == "param":
                # guard on the parameter, recursion with a shadowing `let depth = depth + 1`
                for bi_, i_, s_ in body.iter_stmts():
                    if s_["k"] == "assign" and not s_["pl"]["p"] and s_["pl"]["l"] > body.argc and s_["rv"]["k"] in ("bin", "checked_bin") \
                            and str(s_["rv"].get("op", "")).startswith("Add") and s_["rv"]["b"].get("k") == "const" \
                            and isinstance(s_["rv"]["b"].get("int"), int) and s_["rv"]["b"]["int"] >= 1 \
                            and counter_place(body, s_["rv"]["a"]) == g["place"] and body.dominates((bi_, i_), (call_bb, -1)):
                        steps.append((bi_, i_, s_["rv"]["op"]))
                        derived_locals.add(s_["pl"]["l"])
        if not steps:
            continue
        # the count must still be held when the call is made: a step in the opposite direction (the `depth -= 1` that undoes the
        # `depth += 1`) may not lie on a path from the counted step to the call without the counted step being taken again
        base = steps[0][2][:3]
        undone = False
        for ob, oi, oop in counter_steps(body, g["place"]):
            if oop[:3] == base:
                continue
            if any(body.dominates((st[0], st[1]), (ob, oi)) for st in steps) and \
                    (call_bb in body.reach_from(ob, avoid={st[0] for st in steps} - {ob}) and (ob != call_bb or oi < 10 ** 9)):
                if ob == call_bb or call_bb in body.reach_from(ob, avoid={st[0] for st in steps if st[0] != ob}):
                    undone = True
        if undone:
            continue
        kind, l, fields = g["place"]
        # the counter must travel with the recursion
        passed = False
        carried = list(call_term["args"])
        # a closure created in this block carries what it captures (e.g. `|n| is_unrollable(n, budget)` captures budget)
        for st in body.blocks[call_bb]["s"]:
            if st["k"] == "assign" and st["rv"]["k"] == "agg" and st["rv"].get("ak") == "closure":
                carried.extend(st["rv"]["ops"])
        for a in carried:
            if a["k"] in ("copy", "move"):
                r0, _ = body.root_of(a["pl"]["l"])
                if r0 == l or a["pl"]["l"] == l or r0 in derived_locals:
                    passed = True
                # (tmp.0) of a checked add feeding the shadowing local
                if not passed and r0 > body.argc:
                    d0 = body.single_def(r0)
                    if d0 and d0[2] == "assign" and d0[3]["rv"]["k"] == "use" and d0[3]["rv"]["op"].get("k") in ("copy", "move") \
                            and d0[3]["rv"]["op"]["pl"]["l"] in derived_locals:
                        passed = True
        if not passed:
            continue
        name = body.local_name(l) or "_%d" % l
        if kind == "param" and str(steps[0][2]).startswith("Sub"):
            # a *budget* (counted down) that is passed by value bounds only the depth of the recursion: sibling subtrees each get
            # the full budget again, so the total work is exponential in the depth. A shared budget travels by `&mut`.
            continue
        desc = {"param": "integer parameter `%s`" % name,
                "derived": "`%s` = an integer parameter + constant" % name,
                "deref": "`%s%s` through &mut `%s`" % ("(*%s)" % name, "".join("." + f for f in fields), name)}[kind]
        return {"guard_line": g["line"], "counter": desc, "bound": g["const"], "cmp": g["op"], "step": steps[0][2]}
    # (iv) the count-and-test lives in a helper (`self.enter()?;`): a call, dominating the recursive call, of a function whose body
    # steps a field of its `&mut self` and compares it with a constant, failing on one edge; the helper's error leaves this function
    # (`?`), the same `self` travels with the recursion, and the count is not stepped back between the helper and the call
    if facts is not None:
        from . import scm as _scm
        dom = body.dom()
        for hb in dom[call_bb]:
            ht = body.blocks[hb]["t"]
            if hb == call_bb or ht["k"] != "call" or not ht["args"]:
                continue
            hname = ht.get("callee") or ""
            if not facts.has_body(hname):
                continue
            a0 = ht["args"][0]
            if a0.get("k") not in ("copy", "move") or body.root_of(a0["pl"]["l"])[0] != 1:
                continue
            hbdy = facts.body(hname)
            found = None
            for g in find_guards(hbdy):
                if g["place"][0] != "deref" or g["place"][1] != 1:
                    continue
                steps = [st for st in counter_steps(hbdy, g["place"]) if str(st[2]).startswith("Add") and hbdy.dominates((st[0], st[1]), (g["bb"], 10 ** 9))]
                if not steps:
                    continue
                hs = hbdy.succ()
                okb = {bi for bi, i, st in hbdy.iter_stmts() if st["k"] == "assign" and st["pl"]["l"] == 0 and not st["pl"]["p"]
                       and st["rv"]["k"] == "agg" and str(st["rv"].get("variant")) in ("Ok", "Some")}
                failing = [e for e in hs[g["bb"]] if not (hbdy.reach_from(e) & okb)]
                if failing and len(failing) < len(hs[g["bb"]]):
                    found = g
                    break
            if not found:
                continue
            brk = _scm.none_edge_targets(body, ht["dest"]["l"], ht["t"]) if ht.get("t") is not None else None
            if not brk or any(call_bb in body.reach_from(e) for e in brk):
                continue
            fields = found["place"][2]
            place_here = ("deref", 1, fields)
            undone = any(str(oop).startswith("Sub") and ob in body.reach_from(hb) and call_bb in body.reach_from(ob)
                         for ob, oi, oop in counter_steps(body, place_here))
            if undone:
                continue
            if not any(a.get("k") in ("copy", "move") and body.root_of(a["pl"]["l"])[0] == 1 for a in call_term["args"]):
                continue
            return {"guard_line": ht.get("line"), "counter": "`(*self)%s` counted and tested in %s" % ("".join("." + f for f in fields), hname.split("::")[-1]),
                    "bound": found["const"], "cmp": found["op"], "step": "helper"}
    return None


def check(facts):
    r = RuleResult("RECGUARD", __doc__.split("\n\n")[1].replace("\n", " "))
    if not facts.has_body(ENTRY):
        r.error("anchor %s not found" % ENTRY)
        return r
    cg = facts.callgraph()
    reach = facts.reachable_from([ENTRY])
    nodes = {n for n in reach if in_compile_path(n)}
    r.stats["compile_path_functions"] = len(nodes)
    edges = {n: {m for m in cg.get(n, ()) if m in nodes} for n in nodes}
    comps = [c for c in core.sccs(nodes, edges) if len(c) > 1 or c[0] in edges.get(c[0], ())]
    r.stats["recursive_sccs"] = len(comps)
    nsites = 0
    parse_counters = {}
    for comp in comps:
        cset = set(comp)
        # A cycle is identified by where it is entered from outside (stable when a helper is extracted inside the cycle)
        strip = lambda c: re.sub(r"::\{closure#\d+\}", "", c)
        entered = sorted({strip(c) for c in cset if c == ENTRY or any(c in edges.get(o, ()) for o in nodes if o not in cset and strip(o) not in {strip(x) for x in cset})})
        members = sorted(strip(c) for c in cset if "{closure" not in c) or sorted(cset)
        comp_key = "scc=" + "+".join(entered or members)
        guarded_edges = set()
        edge_notes = {}
        for caller in cset:
            body = facts.body(caller)
            for callee in edges[caller] & cset:
                sites = facts.call_sites(caller, callee)
                notes = []
                all_ok = bool(sites)
                for bb, line in sites:
                    t = body.blocks[bb]["t"]
                    if t["k"] != "call" or bb not in body.reachable():
                        if bb not in body.reachable():
                            continue
                        all_ok = False  # closure creation / fn item: cannot carry a guard
                        notes.append("non-call reference at line %s" % line)
                        continue
                    nsites += 1
                    g = site_guard(body, bb, caller == callee, t, facts)
                    if g and caller.startswith("parse::") and ("(*" in g["counter"]):
                        m_ = re.search(r"\(\*\w+\)((?:\.\w+)+)", g["counter"])
                        parse_counters.setdefault(m_.group(1) if m_ else g["counter"], set()).add(comp_key)
                    if g:
                        notes.append("line %s guarded by %s %s %s (line %s)" % (line, g["counter"], g["cmp"], g["bound"], g["guard_line"]))
                    else:
                        all_ok = False
                        notes.append("line %s unguarded" % line)
                if all_ok:
                    guarded_edges.add((caller, callee))
                edge_notes[(caller, callee)] = notes
        # triage: emit re-entrancy with leaf-only argument
        triaged = {}
        for (caller, callee) in list(edge_notes):
            if caller.endswith("Emitter::emit_code_point_sequence") and callee.endswith("Emitter::emit_node"):
                why = leaf_only_argument(facts, caller, callee)
                if why is True:
                    guarded_edges.add((caller, callee))
                    triaged[(caller, callee)] = "emit_code_point_sequence passes only leaf nodes (Node::from(Piece) / Char / CharSet) " \
                                                 "to emit_node, whose leaf arms do not call emit_string_set"
                else:
                    edge_notes[(caller, callee)].append("triage check failed: %s" % why)
        rem = {n: {m for m in edges[n] & cset if (n, m) not in guarded_edges} for n in cset}
        cyc = [c for c in core.sccs(cset, rem) if len(c) > 1 or c[0] in rem.get(c[0], ())]
        if not cyc:
            why = "; ".join("%s -> %s: %s" % (a.split("::")[-1], b.split("::")[-1], ", ".join(n)) for (a, b), n in edge_notes.items() if (a, b) in guarded_edges)
            if triaged:
                why += " | triaged: " + "; ".join(triaged.values())
            r.ok(comp_key, why)
            r.sample({"scc": sorted(cset), "verdict": "bounded", "edges": why})
        else:
            bad = sorted(set(x for c in cyc for x in c))
            detail = {"%s -> %s" % (a, b): n for (a, b), n in edge_notes.items()}
            where = facts.loc(bad[0])
            r.fail(comp_key, "recursion cycle with no bounded-counter guard: %s (depth follows the depth of the IR / input)" %
                   " -> ".join(x.split("::")[-1] for x in bad), where, detail)
    # the parser's recursion budget is one budget: every guarded recursion in parse.rs counts on the same field, so MAX_NESTING_DEPTH
    # bounds the *total* nesting (groups inside classes inside lookarounds ...), not each kind separately
    key = "parser recursion guards share one depth counter"
    if len(parse_counters) > 1:
        r.fail(key, "the parser's recursion cycles are guarded by different counters (%s): each is bounded by its own limit, so a pattern "
                    "that mixes the kinds of nesting recurses to the sum of the limits (256 groups, then 256 nested classes) and overflows "
                    "the stack the single limit was sized for" % "; ".join("`self%s` guards %s" % (c, ", ".join(sorted(k))) for c, k in sorted(parse_counters.items())),
               facts.loc(ENTRY))
    elif parse_counters:
        r.ok(key, "`self%s` in %d cycles" % (list(parse_counters)[0], len(list(parse_counters.values())[0])))
    else:
        r.error("no field-counter guard found in parse.rs (anchor lost)")
    r.floor("recursive_call_sites", nsites, 25)
    r.floor("recursive_sccs", len(comps), 8)

    # recursive ADTs -> recursive drop glue
    for adt, w in facts.typewalk.items():
        if not in_compile_path(adt + "::"):
            continue
        # the walk records the local ADTs reachable from adt's fields; recursion = adt reachable from its own fields
        a = facts.adts.get(adt)
        if not a:
            continue
        direct = [f["ty"] for v in a["variants"] for f in v["fields"]]
        if any(re.search(r"\b%s\b" % re.escape(adt), t) for t in direct):
            r.fail("dropglue=%s" % adt, "recursive type %s has recursive drop glue (depth follows the depth of the value)" % adt,
                   "%s:%s" % (a.get("file"), a.get("line")))
    return r


def leaf_only_argument(facts, caller, callee):
    body = facts.body(caller)
    for bb, t in body.iter_calls():
        if (t.get("resolved") or t.get("callee")) != callee:
            continue
        a = t["args"][1]
        if a["k"] not in ("copy", "move"):
            return "argument is not a local"
        root, proj = body.root_of(a["pl"]["l"])
        defs = body.defs().get(root, [])
        if not defs:
            return "no definition found for the node argument"
        for d in defs:
            if d[2] == "call":
                rc = d[3].get("resolved") or d[3].get("callee")
                if not ("From<literal::Piece>" in rc and "ir::Node" in rc and rc.endswith("::from") and facts.has_body(rc)):
                    return "node argument comes from call %s" % rc
                fb = facts.body(rc)
                for bi, i, s in fb.iter_stmts():
                    if s["k"] == "assign" and s["rv"]["k"] == "agg" and s["rv"].get("adt") == "ir::Node" \
                            and s["rv"]["variant"] not in LEAF_VARIANTS:
                        return "From<Piece> builds non-leaf Node::%s" % s["rv"]["variant"]
                for bi, tt in fb.iter_calls():
                    if tt["dest"]["ty"] == "ir::Node":
                        return "From<Piece> obtains a Node from call %s" % tt.get("callee")
            else:
                rv = d[3]["rv"]
                if rv["k"] == "agg" and rv.get("adt") == "ir::Node":
                    if rv["variant"] not in LEAF_VARIANTS:
                        return "builds non-leaf Node::%s" % rv["variant"]
                elif rv["k"] == "use" and rv["op"]["k"] in ("copy", "move"):
                    # a move from another local: check that one too
                    r2, _ = body.root_of(rv["op"]["pl"]["l"])
                    for d2 in body.defs().get(r2, []):
                        if d2[2] == "assign" and d2[3]["rv"]["k"] == "agg" and d2[3]["rv"].get("adt") == "ir::Node" \
                                and d2[3]["rv"]["variant"] in LEAF_VARIANTS:
                            continue
                        if d2[2] == "call" and "From<literal::Piece>" in (d2[3].get("resolved") or ""):
                            continue
                        return "node argument flows from an unrecognised definition"
                else:
                    return "node argument has an unrecognised definition (%s)" % rv["k"]
    # emit_node: calls to emit_string_set only in the StringSet arm
    from .undo import arm_of
    eb = facts.body(callee)
    for bb, t in eb.iter_calls():
        if (t.get("resolved") or t.get("callee", "")).endswith("Emitter::emit_string_set"):
            arm = arm_of(facts, callee, t["line"])
            if arm != "arm=StringSet":
                return "emit_node calls emit_string_set outside the StringSet arm (%s)" % arm
    return True


# --------------------------------------------------------------------------------------------

LIMIT_FIELDS = {"group_count": "types::MAX_CAPTURE_GROUPS", "loop_count": "types::MAX_LOOPS"}


def check_limits(facts):
    r = RuleResult("LIMITS", __doc__.split("\n\n")[-1].replace("\n", " "))
    n = 0
    for fn in facts.body_names():
        if not fn.startswith("parse::Parser"):
            continue
        body = facts.body(fn)
        for bi, i, s in body.iter_stmts():
            if s["k"] != "assign":
                continue
            pl = s["pl"]
            fields = core.proj_fields(pl)
            if not (pl["p"] and pl["p"][0] == "*" and len(fields) == 1 and fields[0] in LIMIT_FIELDS):
                continue
            rv = s["rv"]
            if rv["k"] != "bin" or not rv["op"].startswith("Add"):
                continue
            n += 1
            field = fields[0]
            key = "%s field=%s" % (fn, field)
            ok = None
            for bb in body.dom()[bi]:
                t = body.blocks[bb]["t"]
                if t["k"] != "switch" or bb == bi:
                    continue
                d = t["discr"]
                if d["k"] not in ("copy", "move"):
                    continue
                df = body.single_def(d["pl"]["l"])
                if not df or df[2] != "assign" or df[3]["rv"]["k"] != "bin" or df[3]["rv"]["op"] not in CMP_OPS:
                    continue
                a, b = df[3]["rv"]["a"], df[3]["rv"]["b"]
                consts = [x for x in (a, b) if x["k"] == "const"]
                others = [x for x in (a, b) if x["k"] != "const"]
                if len(consts) != 1 or len(others) != 1:
                    continue
                if consts[0].get("item") != LIMIT_FIELDS[field]:
                    continue
                # the other operand derives from a read of the same field (possibly through a cast)
                if not reads_field(body, others[0], field):
                    continue
                succ = body.succ()[bb]
                noreach = [x for x in succ if bi not in body.reach_from(x)]
                if not noreach:
                    continue
                # failing edge returns Err via parse::error
                errs = all(any(body.blocks[y]["t"].get("callee") == "parse::error" for y in body.reach_from(x)) for x in noreach)
                if errs:
                    ok = "compared with %s at line %s; failing edge returns Err" % (LIMIT_FIELDS[field], t.get("line"))
                    break
            if ok:
                r.ok(key, ok)
                r.sample({"key": key, "line": s["line"], "guard": ok})
            else:
                r.fail(key, "counter %s is incremented without a dominating check against %s: it is narrowed to an index "
                            "type downstream (overflow / wrap instead of Err)" % (field, LIMIT_FIELDS[field]), facts.loc(fn, s["line"]))
    r.floor("limit_increments", n, 2)
    return r


def reads_field(body, op, field, depth=0):
    if op["k"] not in ("copy", "move") or depth > 4:
        return False
    pl = op["pl"]
    if core.proj_fields(pl) == [field]:
        return True
    if not pl["p"]:
        d = body.single_def(pl["l"])
        if d and d[2] == "assign":
            rv = d[3]["rv"]
            if rv["k"] in ("use", "cast"):
                return reads_field(body, rv["op"], field, depth + 1)
    return False

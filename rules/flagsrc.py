"""FLAGSRC — a flag stored in an IR node is the regex's flag of that name (C10, C01).

The parser copies user flags into the nodes it builds (`BackRef.icase`, `Anchor.multiline`, `StringSet.icase`, ...). For
every ir:: aggregate constructed in parse.rs with a bool field whose name is a field of api::Flags, the operand is a
plain read of `self.flags.<that name>` — directly, through a local, or through a closure capture of such a local.
`WordBoundary.unicode_icase` is `flags.unicode && flags.icase` (both must feed it). A sibling that computes the flag
differently (`unicode && icase` for one of the four BackRef sites) makes one spelling of a back-reference
case-sensitive under `/i` while the others are not.
FLAGARG: likewise, wherever a function with a bool parameter named like a flag (`unicode`, `icase`, ...) is called, the argument
is not computed from a *different* field of `flags` (only positive evidence of a wrong flag is reported; values arriving from
nodes, parameters or the emitter's stack are not decided).
"""
import re

from . import core
from .report import RuleResult

RULE_TEXT = " ".join(x.strip() for x in __doc__.split("\n")[2:] if x.strip())
COMBINED = {"unicode_icase": {"flags.unicode", "flags.icase"}}


def closure_parent(facts, fn):
    m = re.match(r"^(.*)::\{closure#(\d+)\}$", fn)
    return (m.group(1), int(m.group(2))) if m else (None, None)


def sources(facts, fn, b, op, depth=0, seen=None):
    """Where a bool operand comes from: set of 'flags.<name>' / 'const' / 'other:<what>'."""
    seen = seen if seen is not None else set()
    if op.get("k") == "const":
        return {"const"}
    if op.get("k") not in ("copy", "move") or depth > 10:
        return {"other:?"}
    pl = op["pl"]
    fields = core.proj_fields(pl)
    l = pl["l"]
    if fields[-2:-1] == ["flags"] or (len(fields) >= 2 and fields[-2] == "flags"):
        return {"flags." + fields[-1]}
    if len(fields) == 1 and b.local_ty(l).replace("&", "").replace("mut ", "").strip().endswith("api::Flags"):
        return {"flags." + fields[0]}     # `let flags = self.flags; .. flags.icase`
    # closure upvar: (*_1).<k>
    if l == 1 and "{closure" in fn and fields and fields[0].isdigit():
        parent, idx = closure_parent(facts, fn)
        if parent and facts.has_body(parent):
            pb = facts.body(parent)
            for bi, i, s in pb.iter_stmts():
                if s["k"] == "assign" and s["rv"]["k"] == "agg" and s["rv"].get("ak") == "closure" and str(s["rv"].get("def", "")).endswith("{closure#%d}" % idx):
                    k = int(fields[0])
                    if k < len(s["rv"]["ops"]):
                        return sources(facts, parent, pb, s["rv"]["ops"][k], depth + 1, seen)
        return {"other:capture"}
    if (fn, l) in seen:
        return set()
    seen.add((fn, l))
    if 1 <= l <= b.argc and not fields:
        # a by-value flag parameter: what every caller passes
        out = set()
        ncall = 0
        for cn in facts.body_names():
            cb = facts.body(cn)
            for bb, t in cb.iter_calls():
                if (t.get("callee") or "") == fn and len(t["args"]) >= l:
                    ncall += 1
                    out |= sources(facts, cn, cb, t["args"][l - 1], depth + 1, seen)
        return out if ncall else {"param:%s" % (b.local_name(l) or l)}
    out = set()
    dlist = b.defs().get(l, [])
    if len(dlist) > 1:
        # `a && b` / `if c {x} else {y}`: the value also depends on the tests that choose between its definitions
        dom = b.dom()
        dblocks = [d[0] for d in dlist]
        succ = b.succ()
        for sb in set.intersection(*[set(dom[x]) for x in dblocks]):
            t = b.blocks[sb]["t"]
            if t["k"] != "switch" or t["discr"].get("k") not in ("copy", "move"):
                continue
            sides = {tuple(sorted(y for y in succ.get(sb, []) if y == x or y in dom[x])) for x in dblocks}
            if len(sides) > 1:
                out |= sources(facts, fn, b, t["discr"], depth + 1, seen)
    for bi, si, kind, pay in dlist:
        if kind == "call":
            out.add("other:call " + (pay.get("callee") or "?").split("::")[-1])
            continue
        rv = pay["rv"]
        if rv["k"] in ("use", "cast"):
            out |= sources(facts, fn, b, rv["op"], depth + 1, seen)
        elif rv["k"] == "ref":
            out |= sources(facts, fn, b, {"k": "copy", "pl": rv["pl"]}, depth + 1, seen)
        elif rv["k"] == "un":
            out |= {"other:not"} | sources(facts, fn, b, rv["a"], depth + 1, seen)
        elif rv["k"] in ("bin", "checked_bin"):
            out |= {"other:" + str(rv.get("op"))}
        else:
            out.add("other:" + rv["k"])
    return out if dlist else {"other:undefined"}


def check(facts):
    r = RuleResult("FLAGSRC", RULE_TEXT)
    flag_names = set()
    for v in (facts.adts.get("api::Flags") or {}).get("variants", []):
        flag_names |= {f["name"] for f in v["fields"]}
    if not flag_names:
        r.error("api::Flags not found")
        return r
    n = 0
    counters = {}
    for fn in sorted(facts.body_names()):
        if not fn.startswith("parse::"):
            continue
        b = facts.body(fn)
        for bi, i, s in b.iter_stmts():
            if s["k"] != "assign" or s["rv"]["k"] != "agg" or not str(s["rv"].get("adt", "")).startswith("ir::"):
                continue
            a = s["rv"]
            for fname, op in zip(a.get("fields") or [], a.get("ops") or []):
                want = {"flags." + fname} if fname in flag_names else COMBINED.get(fname)
                if not want:
                    continue
                n += 1
                base = re.sub(r"::\{closure#\d+\}", "", fn)
                counters[(base, a.get("variant"), fname)] = counters.get((base, a.get("variant"), fname), 0) + 1
                key = "%s %s.%s #%d" % (base, a.get("variant"), fname, counters[(base, a.get("variant"), fname)])
                src = sources(facts, fn, b, op)
                bad = {x for x in src if x not in want and not (x == "const" and len(want) > 1)}
                if bad or not want <= src:
                    r.fail(key, "`%s` of the %s node built at line %s is not the regex's flag: it comes from %s instead of %s — this site "
                                "disagrees with its siblings about when the flag applies" % (fname, a.get("variant"), s["line"], sorted(src), sorted(want)),
                           facts.loc(fn, s["line"]))
                else:
                    r.ok(key, "from %s" % sorted(src))
                    r.sample({"function": fn, "node": a.get("variant"), "field": fname, "sources": sorted(src)})
    r.floor("flag_fields", n, 7)
    # FLAGARG: a bool argument handed to a parameter named like a flag is not computed from a *different* flag
    na = 0
    argc = {}
    for fn in sorted(facts.body_names()):
        if "::tests::" in fn:
            continue
        b = facts.body(fn)
        for bb, t in b.iter_calls():
            cal = t.get("callee") or ""
            if not facts.has_body(cal):
                continue
            cb = facts.body(cal)
            for i, a in enumerate(t["args"], 1):
                if i > cb.argc:
                    break
                nm = cb.local_name(i)
                if cb.local_ty(i) != "bool" or nm not in flag_names:
                    continue
                na += 1
                base = re.sub(r"::\{closure#\d+\}", "", fn)
                k_ = (base, cal, nm)
                argc[k_] = argc.get(k_, 0) + 1
                key = "%s passes `%s` to %s #%d" % (base, nm, cal.split("::")[-1], argc[k_])
                src = sources(facts, fn, b, a)
                wrong = sorted(x for x in src if x.startswith("flags.") and x != "flags." + nm)
                # i / m / s can be switched by a modifier group, so IR nodes carry their own copy: a value that arrives with the node
                # (parameter, emitter stack, node field) is handed on as it is, not combined with the regex-wide flag again
                mixed = nm in ("icase", "multiline", "dot_all") and ("flags." + nm) in src and \
                    any(not x.startswith("flags.") and x != "const" and not x.startswith("other:BitAnd") and not x.startswith("other:Bit") for x in src)
                if mixed and not wrong:
                    r.fail(key, "the `%s` argument of %s (line %s) combines the flag that arrives with the node (%s) with the regex-wide "
                                "`flags.%s`: inside a modifier group such as `(?i:…)` the node's flag is set while the regex-wide one is not, "
                                "so this site (and not its cfg / executor sibling) drops the modifier" % (
                                    nm, cal.split("::")[-1], t.get("line"), sorted(x for x in src if not x.startswith("flags.") and x != "const"), nm),
                           facts.loc(fn, t.get("line")))
                    continue
                if wrong:
                    r.fail(key, "the `%s` argument of %s (line %s) is computed from %s: this call site applies `%s` semantics under a "
                                "different flag than its siblings (e.g. the utf16 emitter folding v-mode class strings with the Unicode "
                                "tables although `u` is not set)" % (nm, cal.split("::")[-1], t.get("line"), wrong, nm), facts.loc(fn, t.get("line")))
                else:
                    r.ok(key, "from %s" % sorted(src))
    r.floor("flag_arguments", na, 20)
    return r

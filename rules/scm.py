"""SCM — single-character-loop dispatch is total; NARROW — an unencodable pattern character means
"cannot match", never "abort the construct".
"""
import re

from . import core, hirutil as H
from .report import RuleResult

LOOP_IMPL = "classicalbacktrack::MatchAttempter::<'a, Input>::with_scm_loop_impl"
COMPUTE_MAX = "classicalbacktrack::MatchAttempter::<'a, Input>::with_scm_compute_max"
PIKE = "pikevm::try_match_state"
NODE_RX = r"^&?(mut )?ir::Node$"
INSN_RX = r"^&?(mut )?insn::Insn$"

SCM_TEXT = ("the instruction set the emitter can place after Loop1CharBody is re-derived from ir::Node::matches_exactly_one_char "
            "(variants that may answer true) -> optimizer::form_literal_bytes rewrites -> emit_node / emit_byte_set_insn / "
            "emit_byte_sequence_insn constructors, minus JustFail (empty sets are excluded by the !is_empty guard) and byte sequences "
            "longer than a UTF-8 character (4); with_scm_loop_impl and with_scm_compute_max must have identical arm sets covering it, "
            "and the same arms of pikevm::try_match_state must produce only Continue/Fail")


BT_DISPATCH = "classicalbacktrack::MatchAttempter::<'a, Input>::try_at_pos"


def insn_ctors(expr):
    return {H.short(c) for c in H.ctor_paths(expr) if c.startswith("insn::Insn::")}


def one_match(facts, fn, rx, r):
    h = facts.hir.get(fn)
    if h is None:
        r.error("anchor %s not found" % fn)
        return None
    ms = H.find_matches(h["body"], rx)
    if not ms:
        r.error("no match over %s found in %s" % (rx, fn))
        return None
    # the dispatch is the match with the most arms
    return max(ms, key=lambda m: len(m["arms"]))


def derive_required(facts, r):
    """REQ: Insn variants that can follow Loop1CharBody."""
    m = one_match(facts, "ir::Node::matches_exactly_one_char", NODE_RX, r)
    if m is None:
        return None
    one_char = set()
    guarded = {}
    for a in m["arms"]:
        body = H.strip_types(a["body"])
        is_false = body.get("k") == "lit" and body.get("v") is False
        for v in H.pat_variants(a["pat"]):
            if v == "_":
                if not is_false:
                    r.fail("matches_exactly_one_char wildcard", "catch-all arm of matches_exactly_one_char is not `false`",
                           facts.loc("ir::Node::matches_exactly_one_char", a["line"]))
                continue
            if not is_false:
                one_char.add(H.short(v))
                guarded[H.short(v)] = not (body.get("k") == "lit" and body.get("v") is True)
    # rewrites of one-char nodes by the optimizer (absent under utf16)
    node_variants = set(one_char)
    flb = "optimizer::form_literal_bytes"
    if flb in facts.hir:
        fm = one_match(facts, flb, NODE_RX, r)
        if fm is not None:
            for a in fm["arms"]:
                for v in H.pat_variants(a["pat"]):
                    if v != "_" and H.short(v) in one_char:
                        for c in H.ctor_paths(a["body"]):
                            if c.startswith("ir::Node::"):
                                node_variants.add(H.short(c))
    # emitter
    em = one_match(facts, "emit::Emitter::emit_node", NODE_RX, r)
    if em is None:
        return None
    by = H.arms_by_variant(em)
    req = set()
    detail = {}
    for nv in sorted(node_variants):
        arms = by.get(nv)
        if not arms:
            r.error("emit_node has no arm for Node::%s" % nv)
            continue
        ins = set()
        for a in arms:
            ins |= insn_ctors(a["body"])
            for c in H.calls_in(a["body"]):
                if c in ("emit::Emitter::emit_byte_set_insn", "emit::Emitter::emit_byte_sequence_insn", "emit::make_anchor"):
                    hh = facts.hir.get(c)
                    if hh:
                        ins |= insn_ctors(hh["body"])
        detail[nv] = sorted(ins)
        req |= ins
    req.discard("JustFail")
    req = {x for x in req if not (x.startswith("ByteSeq") and int(x[7:]) > 4)}
    return req, detail, one_char


def check(facts):
    r = RuleResult("SCM", SCM_TEXT)
    d = derive_required(facts, r)
    if d is None:
        return r
    req, detail, one_char = d
    r.stats["required"] = sorted(req)
    r.stats["derivation"] = detail
    if len(req) < 8:
        r.error("derived instruction set suspiciously small: %s" % sorted(req))
    sets = {}
    for fn in (LOOP_IMPL, COMPUTE_MAX):
        m = one_match(facts, fn, INSN_RX, r)
        if m is None:
            continue
        av = H.arms_by_variant(m)
        sets[fn] = {v for v in av if v != "_"}
        for v in sorted(req):
            key = "%s arm=%s" % (fn, v)
            if v in sets[fn]:
                r.ok(key)
            else:
                r.fail(key, "no arm for Insn::%s, which the emitter can place after Loop1CharBody: the catch-all `unreachable!` "
                            "is reachable (panic / wrong answer)" % v, facts.loc(fn, m["arms"][0]["line"]))
        r.sample({"function": fn, "arms": sorted(sets[fn]), "required": sorted(req)})
    if len(sets) == 2:
        a, b = sets[LOOP_IMPL], sets[COMPUTE_MAX]
        if a == b:
            r.ok("sibling arm sets equal", "with_scm_loop_impl == with_scm_compute_max (%d arms)" % len(a))
        else:
            r.fail("sibling arm sets equal", "with_scm_loop_impl and with_scm_compute_max handle different instructions: %s" %
                   sorted(a ^ b), facts.loc(COMPUTE_MAX))
    # the matcher each arm hands to the loop helpers: the two siblings (and the plain instruction's arm in try_at_pos, where it
    # uses an scm matcher) must agree per instruction
    def matchers_of(arm):
        import json as _j
        names = set()
        for c in list(H.calls_in(arm["body"])) + list(H.ctor_paths(arm["body"])):
            mm = re.match(r"^scm::(\w+)", c or "")
            if mm:
                names.add(mm.group(1))
        for mm in re.finditer(r'"(?:path|adt)": "scm::(\w+)', _j.dumps(arm["body"])):
            names.add(mm.group(1))
        return names - {"SingleCharMatcher"}
    arm_m = {}
    for fn in (LOOP_IMPL, COMPUTE_MAX, BT_DISPATCH):
        if fn not in facts.hir:
            continue
        ms_ = H.find_matches(facts.hir[fn]["body"], INSN_RX)
        for m_ in ms_:
            for v, arms in H.arms_by_variant(m_).items():
                for a_ in arms:
                    mset = matchers_of(a_)
                    if mset:
                        arm_m.setdefault(v, {}).setdefault(fn, set()).update(mset)
    ncmp = 0
    for v in sorted(req):
        per = arm_m.get(v, {})
        if LOOP_IMPL not in per or COMPUTE_MAX not in per:
            continue
        ncmp += 1
        key = "matcher for Insn::%s agrees" % v
        vals = {fn: per[fn] for fn in per}
        if len({tuple(sorted(x)) for x in vals.values()}) == 1:
            r.ok(key, "scm::%s in %d places" % ("/".join(sorted(per[LOOP_IMPL])), len(vals)))
        else:
            r.fail(key, "the single-character matcher used for Insn::%s differs between %s: the greedy, the lazy and the plain form of "
                        "the same instruction accept different characters (e.g. `.` under the s flag stops at line terminators only "
                        "in the lazy loop)" % (v, {fn.split("::")[-1]: sorted(x) for fn, x in vals.items()}), facts.loc(COMPUTE_MAX))
    r.floor("matcher_agreements", ncmp, 6)
    # PikeVM
    if PIKE in facts.hir:
        m = one_match(facts, PIKE, INSN_RX, r)
        if m is not None:
            av = H.arms_by_variant(m)
            for v in sorted(req):
                key = "%s arm=%s" % (PIKE, v)
                arms = av.get(v)
                if not arms:
                    r.fail(key, "pikevm::try_match_state has no arm for Insn::%s" % v, facts.loc(PIKE))
                    continue
                outs = set()
                for a in arms:
                    outs |= {H.short(c) for c in H.ctor_paths(a["body"]) if c.startswith("pikevm::StateMatch::")}
                if outs and outs <= {"Continue", "Fail"}:
                    r.ok(key, "yields %s" % sorted(outs))
                else:
                    r.fail(key, "arm can yield %s; the Loop1CharBody arm treats anything but Continue/Fail as unreachable!" % sorted(outs),
                           facts.loc(PIKE, arms[0]["line"]))
    r.floor("required_instructions", len(req), 8)
    return r


# --------------------------------------------------------------------------------------------

NARROW_TEXT = ("at every call of indexing::ElementType::try_from in the executors, the None outcome (pattern character not "
               "representable in the input's element type) may reach a failure return (None / `?`) of an Option-returning function only "
               "through a branch on an integer parameter (the minimum iteration count), and, in a function that is handed the minimum count, a success return (`Some(..)`: zero "
               "iterations matched) likewise only through such a branch; straight-line propagation of the None "
               "(`?`, `None => return None`) is the violation; a None that only feeds a data-dependent local decision is 'this character "
               "does not match'")

EXEC_RX = re.compile(r"^(classicalbacktrack|pikevm|scm|matchers|cursor)::")


def check_narrow(facts):
    r = RuleResult("NARROW", NARROW_TEXT)
    n = 0
    nmin = 0
    for fn in facts.body_names():
        if not EXEC_RX.match(fn):
            continue
        body = facts.body(fn)
        for bb, t in body.iter_calls():
            if t.get("callee") != "indexing::ElementType::try_from":
                continue
            n += 1
            key = "%s try_from" % fn
            ret_ty = body.local_ty(0)
            dest = t["dest"]["l"]
            # find the switch that inspects the result: either through Try::branch or directly
            start_blocks = none_edge_targets(body, dest, t["t"])
            if start_blocks is None:
                r.fail(key, "cannot locate how the result of try_from is inspected (unrecognised shape)", facts.loc(fn, t["line"]))
                continue
            if not ret_ty.startswith(("std::option::Option<", "core::option::Option<")):
                r.ok(key, "None handled locally (function returns %s)" % ret_ty)
                continue
            bad = unguarded_failure_path(body, start_blocks)
            # the success clause applies where the function is handed the minimum count (a `*min*` integer parameter): without one
            # (with_scm_compute_max runs after the minimum has been matched) "no further iterations" is an unconditional answer
            has_min = any("min" in (body.local_name(l) or "") and re.match(r"^(u|i)(8|16|32|64|size)$", body.local_ty(l))
                          for l in range(1, body.argc + 1))
            nmin += 1 if has_min else 0
            good = unguarded_failure_path(body, start_blocks, want="ok") if has_min else None
            if bad is None and good is not None:
                r.fail(key, "an unencodable pattern character is answered with an unconditional success (line %s): the None edge reaches a "
                            "`Some(..)` return with no test on the minimum count, so a loop that needs at least one iteration of a character "
                            "that cannot occur in this input 'matches' with zero iterations (ASCII and UTF-8 entry points disagree)" % good,
                       facts.loc(fn, t["line"]))
            elif bad is None:
                r.ok(key, "every failing path from the None edge branches on an integer parameter first")
                r.sample({"key": key, "line": t["line"], "verdict": "ok"})
            else:
                r.fail(key, "an unencodable pattern character aborts the whole quantified construct: the None edge reaches "
                            "a failure return (line %s) with no test on the minimum count — siblings (the Insn::Char arms) treat it "
                            "as 'no match'" % bad, facts.loc(fn, t["line"]))
    r.floor("try_from_sites", n, 3)
    r.floor("try_from_sites_in_functions_given_the_minimum_count", nmin, 1)
    return r


def none_edge_targets(body, dest, after_bb):
    """Blocks entered when the Option in `dest` is None."""
    # walk forward from after_bb following gotos until the value is consumed
    seen = set()
    work = [after_bb]
    while work:
        b = work.pop()
        if b in seen or b is None:
            continue
        seen.add(b)
        blk = body.blocks[b]
        # direct discriminant read
        for s in blk["s"]:
            if s["k"] == "assign" and s["rv"]["k"] == "discr" and s["rv"]["pl"]["l"] == dest:
                t = blk["t"]
                if t["k"] == "switch":
                    names = dict((v, nme) for v, nme in s["rv"].get("variants", []))
                    outs = []
                    for v, tgt in t["targets"]:
                        if names.get(v) == "None":
                            outs.append(tgt)
                    if not outs:
                        # None falls in otherwise
                        if all(names.get(v) != "None" for v, _ in t["targets"]):
                            outs.append(t["otherwise"])
                    return outs
        t = blk["t"]
        if t["k"] == "call" and any(a.get("k") in ("move", "copy") and a["pl"]["l"] == dest for a in t["args"]):
            cal = t.get("callee", "")
            if cal.endswith("ops::Try::branch"):
                # ControlFlow result: Break edge = residual
                cf = t["dest"]["l"]
                nb = t["t"]
                blk2 = body.blocks[nb]
                for s in blk2["s"]:
                    if s["k"] == "assign" and s["rv"]["k"] == "discr" and s["rv"]["pl"]["l"] == cf:
                        names = dict((v, nme) for v, nme in s["rv"].get("variants", []))
                        t2 = blk2["t"]
                        return [tgt for v, tgt in t2["targets"] if names.get(v) == "Break"]
                return None
            return None
        if t["k"] == "goto":
            work.append(t["t"])
        # a move of dest into another local: follow
        for s in blk["s"]:
            if s["k"] == "assign" and s["rv"]["k"] == "use" and s["rv"]["op"].get("k") in ("move", "copy") \
                    and s["rv"]["op"]["pl"]["l"] == dest and not s["rv"]["op"]["pl"]["p"] and not s["pl"]["p"]:
                return none_edge_targets(body, s["pl"]["l"], b)
    return None


def branches_on_int_param(body, bb):
    t = body.blocks[bb]["t"]
    if t["k"] != "switch":
        return False
    d = t["discr"]
    if d["k"] not in ("copy", "move"):
        return False
    l = d["pl"]["l"]
    for _ in range(4):
        if 1 <= l <= body.argc:
            return bool(re.match(r"^(u|i)(8|16|32|64|size)$", body.local_ty(l)))
        df = body.single_def(l)
        if not df or df[2] != "assign":
            return False
        rv = df[3]["rv"]
        if rv["k"] == "bin":
            for o in (rv["a"], rv["b"]):
                if o["k"] in ("copy", "move") and not o["pl"]["p"]:
                    ll = o["pl"]["l"]
                    if 1 <= ll <= body.argc and re.match(r"^(u|i)(8|16|32|64|size)$", body.local_ty(ll)):
                        return True
            return False
        if rv["k"] == "use" and rv["op"]["k"] in ("copy", "move") and not rv["op"]["pl"]["p"]:
            l = rv["op"]["pl"]["l"]
            continue
        return False
    return False


def unguarded_failure_path(body, starts, want="fail"):
    """Search for a path from the start blocks to a failure (want="fail") / success (want="ok") return that does not pass a
    branch on an integer parameter. Returns the line of that return value, or None."""
    succ = body.succ()
    seen = set()
    stack = [(b, None) for b in starts]
    while stack:
        b, rk = stack.pop()
        if (b, rk) in seen:
            continue
        seen.add((b, rk))
        blk = body.blocks[b]
        for s in blk["s"]:
            if s["k"] == "assign" and s["pl"]["l"] == 0 and not s["pl"]["p"]:
                rv = s["rv"]
                if rv["k"] == "agg" and rv.get("variant") == "None":
                    rk = ("fail", s.get("line"))
                else:
                    rk = ("ok", s.get("line"))
        t = blk["t"]
        if t["k"] == "call" and t["dest"]["l"] == 0 and not t["dest"]["p"]:
            if t.get("callee", "").endswith("FromResidual::from_residual"):
                rk = ("fail", t.get("line"))
            else:
                rk = ("ok", t.get("line"))
        if t["k"] == "return":
            if rk and rk[0] == want:
                return rk[1]
            continue
        if branches_on_int_param(body, b):
            continue  # guarded from here on
        if len(succ.get(b, [])) > 1:
            continue  # a data-dependent branch: the outcome is handled locally, not propagated straight out
        for s2 in succ.get(b, []):
            stack.append((s2, rk))
    return None

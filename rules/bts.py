"""BTS — the backtrack stack never loses its `Exhausted` backstop (C06).

The unchecked build pops with `set_len(len - 1)` and treats an empty stack as unreachable_unchecked, so:
 * every vector installed as a backtrack stack is built from an array whose element 0 is `BacktrackInsn::Exhausted`
   (constructor and the temporary stack swapped in by run_lookaround);
 * `truncate` is only called with a constant >= 1; `clear`/`drain`/`remove`/`retain`/`split_off` never;
 * every removal of the top (`pop`, `set_len`, `pop_backtrack`) and every in-place overwrite of the top is dominated by
   the match on the top element (`last_mut`) and is not on its `Exhausted` edge;
 * `mem::swap` with the stack only exchanges it with a vector built as above.
"""
import re

from . import core
from .report import RuleResult

RULE_TEXT = " ".join(x.strip() for x in __doc__.split("\n")[2:] if x.strip())
CTOR_HINT = "classicalbacktrack::MatchAttempter::<'a, Input>::new"
POP_HELPER = "classicalbacktrack::MatchAttempter::<'a, Input>::pop_backtrack"


def rooted_bts(b, op):
    if op.get("k") not in ("copy", "move"):
        return False
    pl = op["pl"]
    if "bts" in core.proj_fields(pl):
        return True
    rt, pr = b.root_of(pl["l"])
    if any(isinstance(x, dict) and x.get("f") == "bts" for x in pr):
        return True
    return b.local_name(rt) == "bts" and "BacktrackInsn" in b.local_ty(rt)


def check(facts):
    r = RuleResult("BTS", RULE_TEXT)
    n = 0
    fns = [f for f in facts.body_names() if f.startswith("classicalbacktrack::") or f.startswith("<classicalbacktrack::")]
    # 1. arrays of BacktrackInsn start with Exhausted
    narr = 0
    for fn in fns:
        b = facts.body(fn)
        for bi, i, s in b.iter_stmts():
            if s["k"] == "assign" and s["rv"]["k"] == "agg" and s["rv"].get("ak") == "array" and "BacktrackInsn" in s["rv"].get("ty", ""):
                narr += 1
                key = "%s stack literal starts with Exhausted" % fn
                op = s["rv"]["ops"][0] if s["rv"]["ops"] else None
                ok = False
                if op and op["k"] in ("copy", "move"):
                    d = b.single_def(op["pl"]["l"])
                    ok = bool(d and d[2] == "assign" and d[3]["rv"]["k"] == "agg" and d[3]["rv"].get("variant") == "Exhausted")
                if ok:
                    r.ok(key)
                else:
                    r.fail(key, "a backtrack stack is created without the Exhausted backstop as its first element", facts.loc(fn, s["line"]))
    r.floor("stack_literals", narr, 2)
    # 2..4 calls on the stack
    for fn in fns:
        b = facts.body(fn)
        # the match on the top element: discriminant of (*bt) where bt comes from last_mut on the stack
        tops = []
        for bb, t in b.iter_calls():
            if (t.get("callee") or "").endswith("::last_mut") and t["args"] and rooted_bts(b, t["args"][0]):
                tops.append(t["dest"]["l"])
        top_switch = None
        exhausted_tgt = None
        saved_stacks = set()
        for bi, i, s in b.iter_stmts():
            if s["k"] == "assign" and s["rv"]["k"] == "discr" and "BacktrackInsn" in (s["rv"].get("enum") or ""):
                t = b.blocks[bi]["t"]
                if t["k"] == "switch":
                    names = dict((v, nm) for v, nm in s["rv"].get("variants", []))
                    top_switch = bi
                    for v, tg in t["targets"]:
                        if names.get(v) == "Exhausted":
                            exhausted_tgt = tg
        for bb, t in b.iter_calls():
            cal = t.get("callee") or ""
            name = cal.split("::")[-1]
            is_helper = (t.get("resolved") or cal) == POP_HELPER
            if not is_helper and not (t["args"] and rooted_bts(b, t["args"][0])):
                if name in ("swap", "replace") and cal.endswith(("mem::swap", "mem::replace")) and any(rooted_bts(b, a) for a in t["args"]):
                    pass
                else:
                    continue
            n += 1
            key = "%s bts.%s" % (fn, "pop_backtrack" if is_helper else name)
            where = facts.loc(fn, t.get("line"))
            tgt = t.get("resolved") or cal
            if not is_helper and tgt in fns and tgt != POP_HELPER:
                r.ok(key, "delegates to %s, analysed on its own" % tgt.split("::")[-1], nontrivial=False)
                continue
            if name in ("push", "len", "is_empty", "last_mut", "last", "iter", "deref", "deref_mut", "as_mut_slice", "as_slice", "reserve"):
                r.ok(key, nontrivial=False)
            elif name in ("clear", "drain", "remove", "swap_remove", "retain", "split_off", "dedup"):
                r.fail(key, "%s can remove the Exhausted backstop from the backtrack stack" % name, where)
            elif name == "truncate":
                a = t["args"][1]
                if a["k"] == "const" and isinstance(a.get("int"), int) and a["int"] >= 1:
                    r.ok(key, "truncate(%d)" % a["int"])
                else:
                    r.fail(key, "truncate with a length that is not a constant >= 1 can drop the Exhausted backstop", where)
            elif name in ("swap", "replace") and cal.endswith(("mem::swap", "mem::replace")):
                other = [a for a in t["args"] if not rooted_bts(b, a)]
                ok = False
                if len(other) == 1 and other[0]["k"] in ("copy", "move"):
                    rt, _ = b.root_of(other[0]["pl"]["l"])
                    ds = b.defs().get(rt, [])
                    ok = bool(ds) and all(d[2] == "call" and (d[3].get("callee") or "").endswith(("box_assume_init_into_vec_unsafe", "into_vec", "from_elem"))
                                          for d in ds)
                if ok and name == "replace":
                    saved_stacks.add(t["dest"]["l"])
                if ok:
                    r.ok(key, "exchanged with a vec![Exhausted] (and back)")
                else:
                    r.fail(key, "the backtrack stack is swapped with a vector that is not known to start with Exhausted", where)
            elif name in ("pop", "set_len") or is_helper:
                if fn == POP_HELPER:
                    r.ok(key, "inside the pop helper (its call sites are checked)", nontrivial=False)
                    continue
                if top_switch is None or exhausted_tgt is None:
                    r.fail(key, "the top of the stack is removed in a function that does not match on the top element first", where)
                elif top_switch in b.dom()[bb] and bb not in b.reach_from(exhausted_tgt):
                    r.ok(key, "only on a non-Exhausted arm of the match on the top element")
                    r.sample({"key": key, "line": t.get("line")})
                else:
                    r.fail(key, "the top of the backtrack stack can be removed while it is the Exhausted backstop (empty stack => "
                                "set_len underflow / unreachable_unchecked)", where)
            else:
                r.fail(key, "unclassified operation on the backtrack stack", where)
        # whole-stack assignment `self.bts = X`: X is the outer stack taken out earlier by mem::replace, or a fresh vec![Exhausted]
        for bi, i, s in b.iter_stmts():
            if s["k"] == "assign" and "*" in s["pl"]["p"] and core.proj_fields(s["pl"])[-1:] == ["bts"] and fn != CTOR_HINT:
                n += 1
                key = "%s bts assigned" % fn
                op = s["rv"].get("op") if s["rv"]["k"] == "use" else None
                src = b.root_of(op["pl"]["l"])[0] if op and op.get("k") in ("copy", "move") else None
                fresh = False
                if src is not None:
                    ds = b.defs().get(src, [])
                    fresh = bool(ds) and all(d[2] == "call" and (d[3].get("callee") or "").endswith(("box_assume_init_into_vec_unsafe", "into_vec", "from_elem"))
                                             for d in ds)
                if src in saved_stacks or fresh:
                    r.ok(key, "restores the stack taken out by mem::replace" if src in saved_stacks else "a fresh vec![Exhausted]")
                else:
                    r.fail(key, "the backtrack stack is replaced by a vector that is not known to start with Exhausted", facts.loc(fn, s["line"]))
        # in-place overwrite of the top
        for bi, i, s in b.iter_stmts():
            if s["k"] == "assign" and s["pl"]["p"] == ["*"] and b.local_ty(s["pl"]["l"]).startswith("&mut classicalbacktrack::BacktrackInsn<"):
                n += 1
                key = "%s overwrite of the top" % fn
                if top_switch is not None and top_switch in b.dom()[bi] and bi not in b.reach_from(exhausted_tgt):
                    r.ok(key, "on a non-Exhausted arm")
                else:
                    r.fail(key, "the top of the stack is overwritten where it may be the Exhausted backstop", facts.loc(fn, s["line"]))
    r.floor("stack_operations", n, 12)
    return r

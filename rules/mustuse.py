"""MUSTUSE — no parsed fragment is silently dropped on a successful parse path (C12).

Backward-must-use, implemented as a forward path search over MIR: for every definition of a local
whose type is a parsed-fragment type in parse.rs, no path leads from the definition to a *successful*
return (or to an overwrite of the local) without using the value. Drops, StorageDead and reads of
the discriminant alone are not uses; a whole-value move `y = move x` transfers the obligation to y.
"""
import re

from . import core
from .core import place_str
from .report import RuleResult

RULE_TEXT = ("parse.rs: every value of type ClassSetOperand / ClassSet / ClassAtom / ir::Node / CodePointSet / "
             "ClassSetAlternativeStrings / ir::Quantifier produced by a call is used (passed on, stored, inspected by field) on "
             "every path to a successful return; paths ending in Err(..) / None / `?` are excluded")

FRAGMENT_TYPES = {
    "parse::ClassSetOperand", "parse::ClassSet", "parse::ClassAtom", "ir::Node", "codepointset::CodePointSet",
    "parse::ClassSetAlternativeStrings", "ir::Quantifier", "types::BracketContents",
}
SCOPE_RX = re.compile(r"^parse::")


def operand_locals(op):
    if op.get("k") in ("copy", "move"):
        return [(op["pl"]["l"], op["pl"]["p"], op["k"])]
    return []


def aliases(body, x):
    """Locals that hold a reference to (part of) x: `a = &x`, copies of such references, tuples of
    them, reborrows/projections through them. Flow-insensitive over-approximation."""
    A = set()
    changed = True
    while changed:
        changed = False
        for bi, i, s in body.iter_stmts():
            if s["k"] != "assign" or s["pl"]["p"]:
                continue
            d = s["pl"]["l"]
            if d in A or d == x:
                continue
            rv = s["rv"]
            k = rv["k"]
            hit = False
            if k in ("ref", "rawptr"):
                pl = rv["pl"]
                if pl["l"] == x or (pl["l"] in A and "*" in pl["p"]):
                    hit = True
            elif k == "use" and rv["op"]["k"] in ("copy", "move"):
                pl = rv["op"]["pl"]
                if pl["l"] in A and "*" not in pl["p"]:
                    hit = True
            elif k == "agg" and rv.get("ak") == "tuple":
                for op in rv["ops"]:
                    if op["k"] in ("copy", "move") and op["pl"]["l"] in A and "*" not in op["pl"]["p"]:
                        hit = True
            if hit:
                A.add(d)
                changed = True
    return A


def stmt_uses(s, x, A=frozenset()):
    """(uses, pure_move_dest) for statement s w.r.t. local x and the set A of references to x."""
    if s["k"] != "assign":
        return (False, None)
    rv = s["rv"]
    k = rv["k"]
    ops = []
    if k in ("use", "cast", "repeat"):
        ops = [rv["op"]]
    elif k == "bin":
        ops = [rv["a"], rv["b"]]
    elif k == "un":
        ops = [rv["a"]]
    elif k == "agg":
        ops = rv["ops"]
    elif k in ("ref", "rawptr"):
        return (False, None)  # taking a reference is not a use; what is done with it is (see aliases)
    elif k == "discr":
        return (False, None)  # reading only the discriminant is not a use
    for op in ops:
        for l, p, kind in operand_locals(op):
            if l == x:
                if k == "use" and not p and kind == "move" and not s["pl"]["p"]:
                    return (True, s["pl"]["l"])
                return (True, None)
            if l in A:
                if "*" in p:
                    return (True, None)  # a read of the value through a reference
                if k == "agg" and rv.get("ak") != "tuple":
                    return (True, None)  # the reference is stored in a struct/enum/closure
    return (False, None)


def ret_kind_of_assign(s):
    """If s assigns the return place, classify it as 'fail' / 'ok' / None (not an assignment to _0)."""
    if s["k"] != "assign" or s["pl"]["l"] != 0 or s["pl"]["p"]:
        return None
    rv = s["rv"]
    if rv["k"] == "agg" and rv.get("ak") == "adt":
        if rv["adt"].endswith("result::Result") and rv["variant"] == "Err":
            return "fail"
        if rv["adt"].endswith("option::Option") and rv["variant"] == "None":
            return "fail"
    return "ok"


FAIL_CALLS = ("parse::error", "std::ops::FromResidual::from_residual", "core::ops::FromResidual::from_residual")


def search(body, x, start, path_budget=20000):
    """Find a path from just after `start` on which x is never used before a successful return or an
    overwrite of x. Returns None if every path uses x, else a description of the offending path."""
    succ = body.succ()
    A = aliases(body, x)
    # state: (bb, idx, retkind)
    init = (start[0], start[1] + 1 if start[1] != -1 else None, None)
    stack = []
    if start[1] == -1:
        for s in succ.get(start[0], []):
            stack.append((s, 0, None, (start[0],)))
    else:
        stack.append((start[0], start[1] + 1, None, ()))
    seen = set()
    while stack:
        bb, idx, rk, trail = stack.pop()
        if (bb, idx, rk) in seen:
            continue
        seen.add((bb, idx, rk))
        if len(seen) > path_budget:
            return {"why": "path budget exceeded (fail closed)", "trail": list(trail)}
        blk = body.blocks[bb]
        stmts = blk["s"]
        i = idx
        stopped = False
        while i < len(stmts):
            s = stmts[i]
            used, mv = stmt_uses(s, x, A)
            if used:
                if mv is not None and mv != 0:
                    sub = search(body, mv, (bb, i))
                    if sub is not None:
                        sub = dict(sub)
                        sub.setdefault("final_local", mv)
                        sub["via"] = "moved into %s at line %s" % (body.local_name(mv) or "_%d" % mv, s.get("line"))
                        return sub
                stopped = True
                break
            if s["k"] == "assign" and s["pl"]["l"] == x and not s["pl"]["p"]:
                return {"why": "overwritten before any use", "line": s.get("line"), "trail": list(trail) + [bb]}
            k = ret_kind_of_assign(s)
            if k is not None:
                rk = k
            i += 1
        if stopped:
            continue
        t = blk["t"]
        tk = t["k"]
        if tk == "call":
            if any(l == x or l in A for a in t["args"] for l, p, kd in operand_locals(a)):
                continue
            if t["dest"]["l"] == x and not t["dest"]["p"]:
                return {"why": "overwritten by a call result before any use", "line": t.get("line"), "trail": list(trail) + [bb]}
            if t["dest"]["l"] == 0 and not t["dest"]["p"]:
                rk = "fail" if (t.get("callee") in FAIL_CALLS) else "ok"
        elif tk == "switch":
            if any(l == x for l, p, kd in operand_locals(t["discr"])):
                continue  # only integers/bools can be switched on directly; a fragment never is
        elif tk == "return":
            if rk != "fail":
                return {"why": "reaches a successful return unused", "line": t.get("line"), "trail": list(trail) + [bb]}
            continue
        elif tk == "drop":
            pass  # dropping is not using
        for s2 in succ.get(bb, []):
            stack.append((s2, 0, rk, trail + (bb,)))
    return None


def check(facts):
    r = RuleResult("MUSTUSE", RULE_TEXT)
    ndefs = 0
    nfn = 0
    for fn in sorted(facts.body_names()):
        if not SCOPE_RX.match(fn) or "{closure" in fn:
            continue
        body = facts.body(fn)
        nfn += 1
        reach = body.reachable()
        for l, ldecl in enumerate(body.locals):
            if l == 0 or ldecl["ty"] not in FRAGMENT_TYPES:
                continue
            if l <= body.argc:
                continue  # parameters are the caller's obligation
            for d in body.defs().get(l, []):
                bb, idx, kind, payload = d
                if bb not in reach:
                    continue
                pl = payload["pl"] if kind == "assign" else payload["dest"]
                if pl["p"]:
                    continue
                # chain heads only: `b = move a` with `a` itself a tracked fragment local is followed from a
                if kind == "assign" and payload["rv"]["k"] == "use" and payload["rv"]["op"]["k"] == "move" \
                        and not payload["rv"]["op"]["pl"]["p"] \
                        and body.locals[payload["rv"]["op"]["pl"]["l"]]["ty"] in FRAGMENT_TYPES \
                        and payload["rv"]["op"]["pl"]["l"] > body.argc:
                    continue
                # only values that come (directly or through `?` / pattern unwrapping) from a call: aggregates
                # and literals built locally are not parse results.
                if kind == "assign" and payload["rv"]["k"] != "use":
                    continue
                if kind == "assign" and payload["rv"]["op"]["k"] == "const":
                    continue
                ndefs += 1
                name = body.local_name(l) or "_tmp"
                line = payload.get("line")
                res = search(body, l, (bb, idx))
                if res is not None and res.get("final_local") is not None:
                    name = body.local_name(res["final_local"]) or name
                key = "%s local=%s:%s def@%s" % (fn, name, ldecl["ty"], def_desc(body, d))
                if res is None:
                    r.ok(key, nontrivial=bool(body.local_name(l)))
                    if body.local_name(l):
                        r.sample({"key": key, "verdict": "used on every successful path", "line": line})
                else:
                    r.fail(key, "parsed value `%s` (%s) defined at line %s is dropped unused: %s%s" % (
                        name, ldecl["ty"], line, res["why"], (" (" + res["via"] + ")") if res.get("via") else ""),
                        facts.loc(fn, line), {"path_blocks": res.get("trail"), "exit_line": res.get("line")})
    r.floor("fragment_definitions", ndefs, 100)
    r.stats["functions"] = nfn
    return r


def def_desc(body, d):
    bb, idx, kind, payload = d
    if kind == "call":
        return "call:" + payload.get("callee", "?").split("::")[-1]
    rv = payload["rv"]
    if rv["k"] == "use" and rv["op"]["k"] in ("copy", "move"):
        src = rv["op"]["pl"]
        # `?` unwrap: field 0 of a ControlFlow::Continue
        return "from:" + re.sub(r"_\d+", "_", place_str(src))
    if rv["k"] == "agg":
        return "agg:" + (rv.get("variant") or rv.get("ak"))
    return rv["k"]

"""COMMUTE — a symmetric binary operation on an enum treats (A, B) like (B, A) (C04, C15).

startpredicate::AbstractStartPredicate::disjunction(x, y) joins the start predicates of the two arms of an
alternation; the prefilter built from it (default build only — the utf16 build and the PikeVM do not use it) may skip
every position its byte set rejects, so the join must cover *both* operands. The function is a `match (x, y)`; for
every arm whose pattern pairs two different variants (A(p), B(q)) there must be a mirror arm (B(p'), A(q')), and
the two arm bodies must be the same tree once each binding is renamed after the variant it was bound from. An arm
pair (A, _) / (_, A) must have equal bodies. A one-sided edit (dropping `s1.set(s2[0])` in the Set|Sequence arm
only) makes `/[ab]|cd/` skip matches that start with `c`, while `/cd|[ab]/` still works.
"""
import copy
import json

from . import core, twin
from .report import RuleResult

RULE_TEXT = " ".join(x.strip() for x in __doc__.split("\n")[2:] if x.strip())


def pat_shape(p):
    k = p.get("k")
    if k == "wild":
        return "_"
    if k in ("tstruct", "path", "struct"):
        return (p.get("res") or {}).get("path", "?").split("::")[-1]
    if k == "bind":
        return "_"
    return "?" + str(k)


def bindings(p, tag, out):
    if isinstance(p, dict):
        if p.get("k") == "bind":
            out[p["id"]] = "%s.%d" % (tag, len([v for v in out.values() if v.startswith(tag + ".")]))
        for v in p.values():
            bindings(v, tag, out)
    elif isinstance(p, list):
        for v in p:
            bindings(v, tag, out)


def rename(t, m):
    if isinstance(t, dict):
        t = {k: rename(v, m) for k, v in t.items()}
        r = t.get("res")
        if t.get("k") == "path" and isinstance(r, dict) and r.get("r") == "local" and r.get("id") in m:
            t["res"] = dict(r, name=m[r["id"]])
        return t
    if isinstance(t, list):
        return [rename(v, m) for v in t]
    return t


def symmetric_matches(facts):
    out = []
    for fn, h in facts.hir.items():
        body = h["body"]
        e = body.get("expr") if body.get("k") == "block" and not body.get("stmts") else body
        if not isinstance(e, dict) or e.get("k") != "match":
            continue
        sc = e.get("scrut") or {}
        if sc.get("k") != "tup" or len(sc.get("elems", [])) != 2:
            continue
        tys = [x.get("ty") for x in sc["elems"]]
        if tys[0] != tys[1] or tys[0] not in facts.adts or any((x.get("res") or {}).get("r") != "local" for x in sc["elems"]):
            continue
        out.append((fn, e))
    return out


def check(facts):
    r = RuleResult("COMMUTE", RULE_TEXT)
    ms = symmetric_matches(facts)
    r.floor("symmetric_pair_matches", len(ms), 1)
    npairs = 0
    for fn, m in ms:
        arms = {}
        for a in m["arms"]:
            p = a["pat"]
            alts = p.get("pats", []) if p.get("k") == "or" else [p]
            for alt in alts:
                if alt.get("k") != "tuple" or len(alt.get("pats", [])) != 2:
                    r.fail("%s arm line %s" % (fn, a.get("line")), "arm pattern is not a pair", facts.loc(fn, a.get("line")))
                    continue
                sh = (pat_shape(alt["pats"][0]), pat_shape(alt["pats"][1]))
                # an or-pattern arm `(A(x), B(y)) | (B(y), A(x))` serves both orders with one body: each alternative is an arm of its own
                arms.setdefault(sh, {"pat": alt, "body": a["body"], "line": a.get("line")})
        for sh, a in sorted(arms.items()):
            if sh[0] == sh[1] or sh > (sh[1], sh[0]):
                continue
            mirror = arms.get((sh[1], sh[0]))
            key = "%s (%s, %s) ~ (%s, %s)" % (fn, sh[0], sh[1], sh[1], sh[0])
            npairs += 1
            if mirror is None:
                r.fail(key, "no mirror arm (%s, %s): the operation is not symmetric" % (sh[1], sh[0]), facts.loc(fn, a.get("line")))
                continue
            trees = []
            for arm, shape in ((a, sh), (mirror, (sh[1], sh[0]))):
                ren = {}
                for i in (0, 1):
                    bindings(arm["pat"]["pats"][i], shape[i], ren)
                trees.append(twin.norm(rename(copy.deepcopy(arm["body"]), ren)))
            if trees[0] == trees[1]:
                r.ok(key, json.dumps(trees[0])[:120])
                r.sample({"function": fn, "arms": [a.get("line"), mirror.get("line")], "normal_form": json.dumps(trees[0])[:200]})
            else:
                x, y = json.dumps(trees[0]), json.dumps(trees[1])
                r.fail(key, "the arms for (%s, %s) (line %s) and (%s, %s) (line %s) are not mirror images: %s vs %s — the join forgets one "
                            "operand in one order only, so the start-byte prefilter skips matches of that alternative" % (
                                sh[0], sh[1], a.get("line"), sh[1], sh[0], mirror.get("line"), x[:220], y[:220]), facts.loc(fn, a.get("line")))
    r.floor("mirror_arm_pairs", npairs, 2)
    return r

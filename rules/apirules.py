"""ESCAPE (C18) and SPLICE (C17): structural rules over api.rs.

ESCAPE  S = characters Parser::consume_term treats specially in any mode, E = characters `escape` prefixes with a
        backslash, I = characters whose identity escape consume_character_escape accepts unconditionally.
        Obligations: S <= E <= I; no character of E is special after a backslash in consume_term /
        consume_atom_escape (so `\\e` reaches the identity escape); consume_term's default arm is a literal
        char_node; every iteration of escape's loop pushes the character itself exactly once, preceded at most
        by the constant backslash.
SPLICE  replace / replace_with / replace_all / replace_all_with copy the unmatched text exactly: the haystack is
        only sliced as text[last_end .. m.start()] inside the loop (text[.. m.start()] for the single forms) and
        text[last_end ..] (text[m.end() ..]) after it, with last_end <- m.end() as the only update, in that order,
        and the inserted piece goes between them; inside the loop over matches no path from one iteration to the
        next avoids the gap copy, the insertion or the cursor update (no match is skipped).
SCANNER the `$` template scanner (expand_replacement) walks a Peekable<Chars>. A character taken with `next()` and
        thrown away must have been recognised first: the discarding call is dominated by the *recognising* edge of
        a test on the peeked character (the `'$'` / `'{'` value edge of a match on `*peek()`, or the true edge of a
        `char::is_*` predicate / `==` on it). A discarding `next()` on a default/else edge swallows an ordinary
        template character (`"US$ $1"` loses the blank).
"""
import re

from . import core, hirutil as H
from .report import RuleResult

DOC = __doc__


def _text(name):
    m = re.search(r"^%s\s+(.*?)(?=^[A-Z]+\s{2,}|\Z)" % name, DOC, re.S | re.M)
    return " ".join(m.group(1).split()) if m else name


def char_lits(pat):
    out = set()
    ranges = []

    def go(p):
        k = p.get("k")
        if k == "lit" and p.get("t") == "char":
            out.add(p["v"])
        elif k == "or":
            for x in p["pats"]:
                go(x)
        elif k == "range":
            lo, hi = p.get("lo") or {}, p.get("hi") or {}
            if lo.get("t") == "char" and hi.get("t") == "char":
                ranges.append((lo["v"], hi["v"] if p.get("incl") else hi["v"] - 1))
        elif k in ("ref", "bind") and p.get("pat" if k == "ref" else "sub"):
            go(p.get("pat") or p.get("sub"))
    go(pat)
    return out, ranges


def covers(pat, ch):
    lits, ranges = char_lits(pat)
    if ch in lits or any(a <= ch <= b for a, b in ranges):
        return True
    return False


def is_catchall(pat):
    return pat.get("k") in ("wild",) or (pat.get("k") == "bind" and not pat.get("sub"))


def char_matches(tree):
    """All `match` nodes over a char scrutinee, outermost first."""
    return H.find_matches(tree, r"^char$")


def check_escape(facts):
    r = RuleResult("ESCAPE", _text("ESCAPE"))
    he = facts.hir.get("api::escape")
    ht = facts.hir.get("parse::Parser::<I>::consume_term")
    hc = facts.hir.get("parse::Parser::<I>::consume_character_escape")
    ha = facts.hir.get("parse::Parser::<I>::consume_atom_escape")
    if not (he and ht and hc and ha):
        r.error("anchors missing (escape / consume_term / consume_character_escape / consume_atom_escape)")
        return r
    # E and the push discipline
    ms = char_matches(he["body"])
    if not ms:
        r.error("escape has no match over char")
        return r
    E = set()
    push_ok = True
    why = None
    for a in ms[0]["arms"]:
        pushes = []

        def visit(n, ps):
            if n.get("k") == "mcall" and n.get("name") in ("push", "push_str", "insert", "extend"):
                arg = n["args"][0] if n["args"] else {}
                arg = arg if arg.get("k") != "addrof" else arg["e"]
                if arg.get("k") == "lit":
                    pushes.append(("lit", arg.get("v")))
                elif arg.get("k") == "path" and arg.get("res", {}).get("r") == "local":
                    pushes.append(("var", arg["res"]["name"]))
                else:
                    pushes.append(("other", None))
        core.hir_walk(a["body"], visit)
        lits, ranges = char_lits(a["pat"])
        escapes = pushes[:1] == [("lit", 92)]
        if escapes:
            E |= lits
            if ranges:
                why = "escape uses a range pattern"
                push_ok = False
        vars_ = [p for p in pushes if p[0] == "var"]
        others = [p for p in pushes if p[0] != "var" and p != ("lit", 92)]
        if len(vars_) != 1 or others or (pushes and pushes[-1][0] != "var") or pushes.count(("lit", 92)) > 1:
            push_ok = False
            why = "arm at line %s pushes %s" % (a["line"], pushes)
    if not E:
        # `let needs_escape = matches!(c, '\\' | '^' | ..); if needs_escape { push('\\') } push(c);` — the classifying match
        # yields booleans, one `if` on that value pushes the backslash, and the character itself is pushed once outside it
        m0 = ms[0]
        def _is_bool(n, v):
            n = n if n.get("k") != "block" or n.get("stmts") else n.get("expr", n)
            return n.get("k") == "lit" and n.get("t") == "bool" and bool(n.get("v")) == v
        true_arms = [a for a in m0["arms"] if _is_bool(a["body"], True)]
        false_arms = [a for a in m0["arms"] if _is_bool(a["body"], False)]
        if true_arms and len(true_arms) + len(false_arms) == len(m0["arms"]):
            cand, bad_range = set(), False
            for a in true_arms:
                lits, ranges = char_lits(a["pat"])
                cand |= lits
                bad_range = bad_range or bool(ranges)
            allp = []

            def visit2(n, ps):
                if n.get("k") == "mcall" and n.get("name") in ("push", "push_str", "insert", "extend"):
                    arg = n["args"][0] if n["args"] else {}
                    arg = arg if arg.get("k") != "addrof" else arg["e"]
                    kind = ("lit", arg.get("v")) if arg.get("k") == "lit" else (
                        ("var", arg["res"]["name"]) if arg.get("k") == "path" and arg.get("res", {}).get("r") == "local" else ("other", None))
                    under_if = [q for q in ps if q.get("k") == "if" and q.get("cond", {}).get("k") not in ("let", "letexpr")]
                    allp.append((kind, len(under_if)))
            core.hir_walk(he["body"], visit2)
            bs = [p_ for p_ in allp if p_[0] == ("lit", 92)]
            vs = [p_ for p_ in allp if p_[0][0] == "var"]
            rest = [p_ for p_ in allp if p_ not in bs and p_ not in vs]
            if len(bs) == 1 and bs[0][1] == 1 and len(vs) == 1 and vs[0][1] == 0 and not rest and not bad_range and allp.index(bs[0]) < allp.index(vs[0]):
                E = cand
                push_ok = True
                why = None
    if push_ok:
        r.ok("escape pushes each character exactly once, preceded at most by a backslash")
    else:
        r.fail("escape pushes each character exactly once, preceded at most by a backslash",
               "escape rewrites or drops characters (%s): escape(s) no longer spells s" % why, facts.loc("api::escape"))
    # S: special characters of consume_term (outermost match over to_char_sat(c))
    mt = char_matches(ht["body"])
    if not mt:
        r.error("consume_term has no match over char")
        return r
    top = max(mt, key=lambda m: len(m["arms"]))
    S = set()
    default_ok = False
    for a in top["arms"]:
        lits, ranges = char_lits(a["pat"])
        S |= lits
        if is_catchall(a["pat"]) and not a.get("guard"):
            calls = H.calls_in(a["body"])
            default_ok = any(c.endswith("::char_node") for c in calls) and any(c.endswith("::consume") for c in calls)
    key = "S <= E"
    if S <= E:
        r.ok(key, "special in consume_term: %s; escaped: %s" % ("".join(sorted(map(chr, S))), "".join(sorted(map(chr, E)))))
        r.sample({"S": sorted(map(chr, S)), "E": sorted(map(chr, E))})
    else:
        r.fail(key, "consume_term treats %s specially but escape does not prefix them: escape(s) is not a literal pattern for such s" %
               sorted(map(chr, S - E)), facts.loc("api::escape"))
    if default_ok:
        r.ok("consume_term default arm is a literal char_node")
    else:
        r.fail("consume_term default arm is a literal char_node", "an unescaped ordinary character is no longer parsed as a literal",
               facts.loc("parse::Parser::<I>::consume_term"))
    # after a backslash: no character of E is intercepted before consume_character_escape
    intercepted = set()
    for m in mt:
        if m is top:
            continue
        for a in m["arms"]:
            lits, ranges = char_lits(a["pat"])
            intercepted |= {c for c in E if c in lits or any(x <= c <= y for x, y in ranges)}
    for m in char_matches(ha["body"]):
        for a in m["arms"]:
            lits, ranges = char_lits(a["pat"])
            intercepted |= {c for c in E if c in lits or any(x <= c <= y for x, y in ranges)}
    if not intercepted:
        r.ok("no escaped character is special after a backslash")
    else:
        r.fail("no escaped character is special after a backslash", "`\\%s` has a special meaning in consume_term / consume_atom_escape" %
               sorted(map(chr, intercepted)), facts.loc("parse::Parser::<I>::consume_atom_escape"))
    # I: identity escapes accepted unconditionally
    mc = char_matches(hc["body"])
    if not mc:
        r.error("consume_character_escape has no match over char")
        return r
    topc = max(mc, key=lambda m: len(m["arms"]))
    for ch in sorted(E):
        key = "identity escape \\%s accepted in every mode" % chr(ch)
        verdict = None
        for a in topc["arms"]:
            if covers(a["pat"], ch) or is_catchall(a["pat"]):
                body = H.strip_types(a["body"])
                ident = body.get("k") == "call" and (body.get("callee") or {}).get("path", "").endswith("::Ok") and \
                    body["args"] and body["args"][0].get("k") == "path" and body["args"][0].get("res", {}).get("name") == "c"
                if a.get("guard"):
                    if covers(a["pat"], ch):
                        verdict = "the first arm matching it (line %s) is guarded" % a["line"]
                        break
                    continue  # guarded catch-all: may not apply; keep looking
                verdict = True if ident else "the arm at line %s does not return the character itself" % a["line"]
                break
        if verdict is True:
            r.ok(key)
        else:
            r.fail(key, "escape() emits `\\%s` but consume_character_escape does not accept it as an identity escape in every mode (%s): "
                        "escape(s) fails to compile or changes meaning under u/v" % (chr(ch), verdict),
                   facts.loc("parse::Parser::<I>::consume_character_escape"))
    r.floor("escaped_characters", len(E), 14)
    return r


# ---- SPLICE ---------------------------------------------------------------------------------

def _root(b, op):
    if op.get("k") not in ("copy", "move"):
        return None
    cur = op["pl"]["l"]
    for _ in range(10):
        if b.local_name(cur) or 1 <= cur <= b.argc:
            return cur
        d = b.single_def(cur)
        if not d or d[2] != "assign" or d[3]["pl"]["p"]:
            return cur
        rv = d[3]["rv"]
        if rv["k"] == "use" and rv["op"]["k"] in ("copy", "move") and not rv["op"]["pl"]["p"]:
            cur = rv["op"]["pl"]["l"]
        elif rv["k"] == "ref" and (not rv["pl"]["p"] or rv["pl"]["p"] == ["*"]):
            cur = rv["pl"]["l"]
        else:
            return cur
    return cur


def _match_call(b, op):
    """('call', 'start'|'end', <match local>) if the operand is m.start() / m.end(), also through single-assignment locals
    (`let gap_end = m.start();`)."""
    cur = op
    for _ in range(8):
        if cur.get("k") not in ("copy", "move"):
            return None
        if cur["pl"]["p"]:
            # a component of a tuple built on the spot: `let (s, e) = (m.start(), m.end());`
            pr = cur["pl"]["p"]
            dt = b.single_def(cur["pl"]["l"])
            if len(pr) == 1 and isinstance(pr[0], dict) and str(pr[0].get("f", "")).isdigit() and dt and dt[2] == "assign" \
                    and dt[3]["rv"]["k"] == "agg" and dt[3]["rv"].get("ak") == "tuple" and int(pr[0]["f"]) < len(dt[3]["rv"].get("ops") or []):
                cur = dt[3]["rv"]["ops"][int(pr[0]["f"])]
                continue
            return None
        dd = b.single_def(cur["pl"]["l"])
        if not dd:
            return None
        if dd[2] == "call":
            cal = dd[3].get("callee") or ""
            if cal.startswith("api::Match::") and dd[3]["args"]:
                return ("call", cal.split("::")[-1], _root(b, dd[3]["args"][0]))
            return None
        rv = dd[3]["rv"]
        if rv["k"] == "use":
            cur = rv["op"]
            continue
        return None
    return None


def slices_of_text(b):
    """Calls `text[range]`: (bb, range aggregate variant, {field: description})."""
    out = []
    for bb, t in b.iter_calls():
        if not (t.get("callee") or "").endswith("ops::Index::index"):
            continue
        if _root(b, t["args"][0]) != 2:
            continue
        ra = t["args"][1]
        d = b.single_def(ra["pl"]["l"]) if ra["k"] in ("copy", "move") else None
        if not d or d[2] != "assign" or d[3]["rv"]["k"] != "agg":
            out.append((bb, "?", {}, t.get("line")))
            continue
        agg = d[3]["rv"]
        desc = {}
        for fname, op in zip(agg["fields"], agg["ops"]):
            if op["k"] == "const":
                desc[fname] = ("const", op.get("int"))
                continue
            mc = _match_call(b, op)
            if mc:
                desc[fname] = mc
            else:
                desc[fname] = ("local", _root(b, op))
        out.append((bb, agg["variant"], desc, t.get("line")))
    return out


def check_splice(facts):
    r = RuleResult("SPLICE", _text("SPLICE"))
    for fn, multi in (("api::Regex::replace_all", True), ("api::Regex::replace_all_with", True),
                      ("api::Regex::replace", False), ("api::Regex::replace_with", False)):
        if not facts.has_body(fn):
            r.error("anchor %s not found" % fn)
            continue
        b = facts.body(fn)
        key = "%s splices around each match" % fn
        sl = slices_of_text(b)
        probs = []
        names = {b.local_name(l): l for l in range(len(b.locals)) if b.local_name(l)}
        def by_type(pred):
            c = [l for l in range(b.argc + 1, len(b.locals)) if b.local_name(l) and pred(l)]
            return c[0] if len(c) == 1 else None
        # the match binding, the running cursor and the output buffer are found by role (type / initialiser), not by name
        m_l = by_type(lambda l: b.local_ty(l) == "api::Match")
        if m_l is None:
            m_l = names.get("m")
        pushes = [(bb, t) for bb, t in b.iter_calls() if (t.get("callee") or "").endswith("String::push_str")]
        if multi:
            le = by_type(lambda l: b.local_ty(l) == "usize" and any(
                d[2] == "assign" and d[3]["rv"]["k"] == "use" and d[3]["rv"]["op"].get("k") == "const" and d[3]["rv"]["op"].get("int") == 0
                for d in b.defs().get(l, [])))
            if le is None:
                le = names.get("last_end")
            if le is None or m_l is None:
                r.fail(key, "the cursor (a usize initialised to 0) / the match binding (an api::Match) were not found (unrecognised shape)", facts.loc(fn))
                continue
            pre = [s for s in sl if s[1] == "Range"]
            post = [s for s in sl if s[1] == "RangeFrom"]
            if len(pre) != 1 or len(post) != 1 or len(sl) != 2:
                probs.append("expected exactly text[last_end..m.start()] and text[last_end..], found %s" % [(s[1], s[2]) for s in sl])
            else:
                if pre[0][2].get("start") != ("local", le) or pre[0][2].get("end") != ("call", "start", m_l):
                    probs.append("the gap before a match is not text[last_end..m.start()] (%s)" % (pre[0][2],))
                if post[0][2].get("start") != ("local", le):
                    probs.append("the tail is not text[last_end..] (%s)" % (post[0][2],))
            # updates of last_end
            ups = [d for d in b.defs().get(le, [])]
            kinds = []
            for d in ups:
                if d[2] == "assign" and d[3]["rv"]["k"] == "use":
                    op = d[3]["rv"]["op"]
                    if op["k"] == "const":
                        kinds.append(("const", op.get("int"), d[0]))
                    else:
                        mc = _match_call(b, op)
                        if mc and mc[1] == "end" and mc[2] == m_l:
                            kinds.append(("end", None, d[0]))
                        else:
                            kinds.append(("other", None, d[0]))
                else:
                    kinds.append(("other", None, d[0]))
            if sorted(k[0] for k in kinds) != ["const", "end"] or [k for k in kinds if k[0] == "const"][0][1] != 0:
                probs.append("last_end must be initialised to 0 and only ever updated to m.end() (found %s)" % [k[:2] for k in kinds])
            elif pre and len(pre) == 1:
                endb = [k for k in kinds if k[0] == "end"][0][2]
                # order inside the loop: gap slice -> (insertion) -> last_end = m.end()
                if pre[0][0] not in b.dom()[endb]:
                    probs.append("last_end is advanced before the gap text[last_end..m.start()] is copied")
                ins = [bb for bb, t in pushes if bb not in (None,) and pre[0][0] in b.dom()[bb] and bb in b.dom()[endb] and bb != pre[0][0]]
                exp = [bb for bb, t in b.iter_calls() if (t.get("callee") or "").endswith("expand_replacement") and pre[0][0] in b.dom()[bb] and bb in b.dom()[endb]]
                if len(pushes) < 2:
                    probs.append("unmatched text is not pushed")
                if not exp and len(pushes) < 3:
                    probs.append("nothing is inserted between the gap and the cursor update")
            # every match is replaced: inside the loop over matches no path from one iteration to the next avoids the gap copy,
            # the insertion or the cursor update
            if pre and len(pre) == 1 and sorted(k[0] for k in kinds) == ["const", "end"]:
                from .lbseq import natural_loops
                endb = [k for k in kinds if k[0] == "end"][0][2]
                loops = [(h, ns) for h, ns in natural_loops(b).items() if pre[0][0] in ns and endb in ns]
                if not loops:
                    probs.append("the gap copy and the cursor update are not inside one loop over the matches")
                else:
                    h, ns = min(loops, key=lambda x: len(x[1]))
                    succ = b.succ()
                    musts = [("the copy of the unmatched gap", pre[0][0]), ("the cursor update last_end = m.end()", endb)]
                    insb = (exp or ins)
                    if insb:
                        musts.append(("the insertion of the replacement", insb[0]))
                    # the replacement is computed afresh for every match: captures differ between matches with equal text
                    fresh = [bb for bb, t in b.iter_calls() if bb in ns and ((t.get("callee") or "").endswith("expand_replacement")
                                                                             or (t.get("callee") or "").split("::")[-1] in ("call", "call_mut", "call_once"))]
                    if fresh:
                        musts.append(("expanding the template / calling the replacement function for this match", fresh[0]))
                    # the loop ends only when the iterator of matches is exhausted (no `break`)
                    for x in sorted(ns):
                        for y in succ.get(x, []):
                            if y in ns:
                                continue
                            tx = b.blocks[x]["t"]
                            exhausted = False
                            if tx["k"] == "switch" and tx["discr"].get("k") in ("copy", "move"):
                                dd = b.single_def(tx["discr"]["pl"]["l"])
                                if dd and dd[2] == "assign" and dd[3]["rv"]["k"] == "discr":
                                    src = b.single_def(dd[3]["rv"]["pl"]["l"])
                                    if src and src[2] == "call" and (src[3].get("callee") or "").endswith("Iterator::next"):
                                        exhausted = True
                            if not exhausted and y in b.reachable() and not b.blocks[y].get("cleanup"):
                                probs.append("the loop over matches is left at line %s before the match iterator is exhausted (a `break`): the "
                                             "remaining matches are not replaced" % (tx.get("line") or b.blocks[y]["t"].get("line")))
                    for what, blk in musts:
                        seen, stack, skipped = set(), [x for x in succ.get(h, []) if x in ns], False
                        while stack:
                            x = stack.pop()
                            if x in seen or x == blk or x not in ns:
                                continue
                            if x == h:
                                skipped = True
                                break
                            seen.add(x)
                            stack.extend(succ.get(x, []))
                        if skipped:
                            probs.append("an iteration of the loop over matches can reach the next one without %s (a `continue`/early exit "
                                         "skips a match: it is left unreplaced)" % what)
            # the only value returned is `result`, after the tail was pushed
            res_l = by_type(lambda l: b.local_ty(l).replace("alloc::", "std::") == "std::string::String")
            if res_l is None:
                res_l = names.get("result")
            rets = [(bi, i, s) for bi, i, s in b.iter_stmts() if s["k"] == "assign" and s["pl"]["l"] == 0 and not s["pl"]["p"]]
            rets_c = [bb for bb, t in b.iter_calls() if t["dest"]["l"] == 0 and not t["dest"]["p"]]
            if rets_c or len(rets) != 1 or not (rets[0][2]["rv"]["k"] == "use" and rets[0][2]["rv"]["op"]["k"] == "move"
                                                and rets[0][2]["rv"]["op"]["pl"]["l"] == res_l):
                probs.append("the function has a return path that does not return the spliced `result` (%d direct, %d call returns)" % (
                    len(rets), len(rets_c)))
            elif post and len(post) == 1 and post[0][0] not in b.dom()[rets[0][0]]:
                probs.append("`result` is returned on a path that skips the tail text[last_end..]")
        else:
            if m_l is None:
                r.fail(key, "local `m` not found (unrecognised shape)", facts.loc(fn))
                continue
            pre = [s for s in sl if s[1] == "RangeTo"]
            post = [s for s in sl if s[1] == "RangeFrom"]
            if len(pre) != 1 or len(post) != 1 or len(sl) != 2:
                probs.append("expected exactly text[..m.start()] and text[m.end()..], found %s" % [(s[1], s[2]) for s in sl])
            else:
                if pre[0][2].get("end") != ("call", "start", m_l):
                    probs.append("the head is not text[..m.start()] (%s)" % (pre[0][2],))
                if post[0][2].get("start") != ("call", "end", m_l):
                    probs.append("the tail is not text[m.end()..] (%s)" % (post[0][2],))
                if pre[0][0] not in b.dom()[post[0][0]]:
                    probs.append("the tail is pushed before the head")
        # what is inserted: the closure variants splice the closure's result verbatim (it is text, not a template), the template
        # variants go through expand_replacement
        closure_calls = [(bb, t) for bb, t in b.iter_calls() if (t.get("callee") or "").split("::")[-1] in ("call", "call_mut", "call_once")
                         and re.search(r"ops::(function::)?Fn(Once|Mut)?::call", t.get("callee") or "")]
        expands = [(bb, t) for bb, t in b.iter_calls() if (t.get("callee") or "").endswith("expand_replacement")]
        if closure_calls:
            if expands:
                probs.append("the result of the replacement closure is run through the `$` template expander (line %s): the closure returns "
                             "text, and a `$$`, `$1` or `${name}` in it must come out verbatim as it does in the sibling closure variant" % expands[0][1].get("line"))
            else:
                verb = False
                for bb, t in pushes:
                    if len(t["args"]) > 1 and t["args"][1].get("k") in ("copy", "move"):
                        l_ = t["args"][1]["pl"]["l"]
                        for _ in range(6):
                            d_ = b.single_def(b.root_of(l_)[0])
                            if d_ and d_[2] == "call" and d_[0] in [c[0] for c in closure_calls]:
                                verb = True
                                break
                            if d_ and d_[2] == "call" and d_[3]["args"] and d_[3]["args"][0].get("k") in ("copy", "move"):
                                l_ = d_[3]["args"][0]["pl"]["l"]   # deref / as_str / borrow of the returned String
                                continue
                            if d_ and d_[2] == "assign" and d_[3]["rv"]["k"] in ("ref", "use"):
                                l_ = (d_[3]["rv"].get("pl") or d_[3]["rv"]["op"].get("pl") or {"l": l_})["l"]
                                continue
                            break
                if not verb:
                    probs.append("no push_str of the replacement closure's result was found (it must be spliced verbatim)")
        elif not expands:
            probs.append("the template variant does not expand the replacement through expand_replacement")
        if probs:
            r.fail(key, "; ".join(probs) + ": unmatched text would be lost, duplicated or reordered", facts.loc(fn))
        else:
            r.ok(key, "head/gap, insertion, tail in order; cursor only moves to m.end()")
            r.sample({"function": fn, "slices": [(s[1], {k: str(v) for k, v in s[2].items()}) for s in sl]})
    return r


# ---- SCANNER --------------------------------------------------------------------------------

def _reads_of(b, l):
    import json as _j
    pat = re.compile(r'"l": %d[,}]' % l)
    n = 0
    for bi in b.reachable():
        blk = b.blocks[bi]
        for st in blk["s"]:
            if st["k"] in ("dead", "live"):
                continue
            txt = _j.dumps(st.get("rv")) if st["k"] == "assign" else _j.dumps(st)
            n += len(pat.findall(txt))
        t = dict(blk["t"])
        t.pop("dest", None)
        if t.get("k") == "drop":
            continue
        n += len(pat.findall(_j.dumps(t)))
    return n


def _from_peek(b, l, seen=None):
    seen = seen if seen is not None else set()
    if l in seen or (1 <= l <= b.argc):
        return False
    seen.add(l)
    for bi, si, kind, pay in b.defs().get(l, []):
        if kind == "call":
            cal = pay.get("callee") or ""
            if cal.endswith("::peek"):
                return True
            if "char::methods" in cal or cal.endswith("PartialEq::eq"):
                if any(a.get("k") in ("copy", "move") and _from_peek(b, a["pl"]["l"], seen) for a in pay["args"]):
                    return True
            continue
        rv = pay["rv"]
        ops = []
        for k in ("op", "a", "b"):
            if isinstance(rv.get(k), dict):
                ops.append(rv[k])
        if rv["k"] in ("ref", "discr", "copy_for_deref") and "pl" in rv:
            ops.append({"k": "copy", "pl": rv["pl"]})
        for o in ops:
            if o.get("k") in ("copy", "move") and _from_peek(b, o["pl"]["l"], seen):
                return True
    return False


def check_scanner(facts):
    r = RuleResult("SCANNER", _text("SCANNER"))
    root = "api::Regex::expand_replacement"
    if not facts.has_body(root):
        r.error("anchor %s not found" % root)
        return r
    # the scanner and every helper it hands the Peekable<Chars> to
    fns = [n for n in facts.body_names() if n.startswith("api::") and "{closure" not in n
           and any("Peekable<std::str::Chars" in (l.get("ty") or "") for l in facts.body(n).locals)]
    if root not in fns:
        fns.append(root)
    nd = 0
    npeek = 0
    for fn in sorted(fns):
        b = facts.body(fn)
        dom = b.dom()
        npeek += len([1 for bb, t in b.iter_calls() if (t.get("callee") or "").endswith("::peek")])
        for bb, t in b.iter_calls():
            cal = t.get("callee") or ""
            if not cal.endswith("Iterator::next"):
                continue
            if _reads_of(b, t["dest"]["l"]) > 0:
                continue  # the character is used (pushed / inspected)
            nd += 1
            key = "%s discarding next() #%d" % (fn, nd)
            ok = None
            for s in dom[bb]:
                ts = b.blocks[s]["t"]
                if ts["k"] != "switch" or ts["discr"].get("k") not in ("copy", "move"):
                    continue
                if not _from_peek(b, ts["discr"]["pl"]["l"]):
                    continue
                if ts.get("dty") == "bool":
                    edges = [ts["otherwise"]]
                elif ts.get("dty") in ("isize", "usize") or "Option" in str(ts.get("dty")):
                    continue  # Some/None test of the peek itself recognises nothing
                else:
                    edges = [tg for v, tg in ts["targets"]]
                for e in edges:
                    if e == bb or e in dom[bb]:
                        ok = ts.get("line")
            if ok is not None:
                r.ok(key, "recognised at line %s" % ok)
                r.sample({"function": fn, "discard_line": t.get("line"), "recognised_by_test_at_line": ok})
            else:
                r.fail(key, "the template character consumed at line %s is thrown away without having been recognised by a test on the peeked "
                            "character (it sits on a default/else edge): an ordinary character after `$` is swallowed" % t.get("line"),
                       facts.loc(fn, t.get("line")))
    # a scratch String that collects characters inside the scan loop starts empty for every reference
    from .lbseq import natural_loops as _nl
    for fn in sorted(fns):
        b = facts.body(fn)
        loops = _nl(b)
        dom = b.dom()
        for bb, t in b.iter_calls():
            if not (t.get("callee") or "").endswith("String::push") or not t["args"] or t["args"][0].get("k") not in ("copy", "move"):
                continue
            buf, _ = b.root_of(t["args"][0]["pl"]["l"])
            if buf <= b.argc or "String" not in b.local_ty(buf):
                continue  # the output parameter
            inloops = [(h, ns) for h, ns in loops.items() if bb in ns]
            if not inloops:
                continue
            h, ns = max(inloops, key=lambda x: len(x[1]))   # the outermost loop: one iteration = one template item
            resets = []
            for bi_, i_, st_ in b.iter_stmts():
                pass
            for b2, t2 in b.iter_calls():
                last2 = (t2.get("callee") or "").split("::")[-1]
                if last2 == "new" and (t2.get("callee") or "").endswith("String::new") and t2["dest"]["l"] == buf:
                    resets.append(b2)
                if last2 in ("clear",) and t2["args"] and t2["args"][0].get("k") in ("copy", "move") and b.root_of(t2["args"][0]["pl"]["l"])[0] == buf:
                    resets.append(b2)
            key = "%s buffer `%s` is fresh for each reference" % (fn, b.local_name(buf) or "_%d" % buf)
            if any(rb in ns and (rb == bb or rb in dom[bb]) for rb in resets):
                r.ok(key, "created / cleared inside the loop before characters are pushed")
            else:
                r.fail(key, "the buffer `%s` that collects the characters of a `${name}` reference (line %s) is not created or cleared on every "
                            "path through the scan loop before it is filled: a name that expands to nothing leaves its text in the buffer and "
                            "the next reference is looked up as <old><new>" % (b.local_name(buf) or "_%d" % buf, t.get("line")), facts.loc(fn, t.get("line")))
            break
    # the guard that opens a `$N` reference and the loop that reads its digits classify characters with one predicate
    preds = {}
    for fn in sorted(fns):
        b = facts.body(fn)
        for bb, t in b.iter_calls():
            cal = t.get("callee") or ""
            if "char::methods" in cal and cal.split("::")[-1].startswith("is_"):
                preds.setdefault(cal.split("::")[-1], []).append(t.get("line"))
    key = "%s digit predicate" % root
    if len(preds) == 1:
        r.ok(key, "%s at lines %s" % list(preds.items())[0])
    elif len(preds) > 1:
        r.fail(key, "the template scanner classifies characters with different predicates %s: the arm that opens a `$N` reference and the "
                    "loop that reads its digits disagree about what a digit is (`$` + a non-ASCII numeric character enters the arm, reads no "
                    "digit and inserts group 0)" % {k: v for k, v in sorted(preds.items())}, facts.loc(root, sorted(preds.items())[0][1][0]))
    else:
        r.error("no character predicate found in the template scanner")
    # digits are recognised only through that predicate: no test of a template character against one particular digit
    nchar = 0
    for fn in sorted(fns):
        b = facts.body(fn)
        hits = []
        for bi in sorted(b.reachable()):
            ts = b.blocks[bi]["t"]
            if ts["k"] == "switch" and ts.get("dty") == "char":
                nchar += 1
                hits += [(v, ts.get("line")) for v, tg in ts["targets"] if 0x30 <= v <= 0x39]
        for bi, i, st in b.iter_stmts():
            if st["k"] == "assign" and st["rv"]["k"] == "bin" and st["rv"].get("op") in ("Eq", "Ne"):
                for x in (st["rv"]["a"], st["rv"]["b"]):
                    if x.get("k") == "const" and "char" in str(x.get("ty", "")) and x.get("int") is not None and 0x30 <= x["int"] <= 0x39:
                        hits.append((x["int"], st.get("line")))
                if any("char" in str(x.get("ty", "")) or (x.get("k") in ("copy", "move") and b.local_ty(x["pl"]["l"]) == "char")
                       for x in (st["rv"]["a"], st["rv"]["b"])):
                    nchar += 1
        key = "%s treats all digits alike" % fn
        if hits:
            r.fail(key, "the template scanner tests a character against the single digit %r (line %s): `$` followed by a digit run is one "
                        "group number whatever its first digit is — a special case for one digit cuts `$01` into `$0` + \"1\"" % (
                            chr(hits[0][0]), hits[0][1]), facts.loc(fn, hits[0][1]))
        else:
            r.ok(key, "no test against a particular digit")
    r.floor("character_tests", nchar, 3)
    r.floor("discarding_next_calls", nd, 3)
    r.floor("peek_calls", npeek, 2)
    return r

"""BITGEOM — every accessor of a byte bitmap uses the same bit geometry, and whole-array operations sweep the whole array (C04, C15).

bytesearch::ByteBitmap ([u16; 16]) and AsciiBitmap ([u8; 16]) split a byte into (word index = b >> S, bit = b & M).
`set` fixes (S, M). Decided from the MIR constants:
 GEOM   `contains` of the same type uses the same `>> S` and `& M`; every other method of the type that shifts or masks
        (the chunked `unsafe_find_in_slice`, which handles four bytes per u32) uses `>> S` and masks whose every byte
        lane equals M. A lane mask of 0x07 instead of 0x0F reads the wrong word for bytes >= 0x80 — only in the
        unchecked build, only in the aligned middle of the haystack, so the prefilter skips real matches there.
 SWEEP  an index loop `for i in 0..E` inside a bitmap method has E = the array's `len()` itself (no arithmetic on it):
        `0..len-1` leaves the last word (bytes 0xF0..0xFF) out of a union.
"""
import re

from . import core
from .report import RuleResult

RULE_TEXT = " ".join(x.strip() for x in __doc__.split("\n")[2:] if x.strip())
TYPES = ("ByteBitmap", "AsciiBitmap")


def consts_of(b):
    out = []
    for bi, i, s in b.iter_stmts():
        if s["k"] == "assign" and s["rv"]["k"] in ("bin", "checked_bin") and s["rv"].get("op") in ("Shr", "BitAnd", "ShrUnchecked"):
            cb = b.const_of_operand(s["rv"]["b"])
            ca = b.const_of_operand(s["rv"]["a"])
            c = cb if cb is not None else ca
            if c is not None:
                out.append(("Shr" if s["rv"]["op"].startswith("Shr") else "BitAnd", c, s["line"]))
    return out


def lanes(v):
    out = set()
    while True:
        out.add(v & 0xFF)
        v >>= 8
        if v == 0:
            break
    return out


def check(facts):
    r = RuleResult("BITGEOM", RULE_TEXT)
    ngeom = 0
    nsweep = 0
    for ty in TYPES:
        fns = [n for n in facts.body_names() if re.search(r"bytesearch::%s\b" % ty, n) and "{closure" not in n]
        setf = [n for n in fns if n.endswith("%s::set" % ty)]
        conf = [n for n in fns if n.endswith("::contains")]
        if not setf or not conf:
            r.error("%s::set / contains not found" % ty)
            continue
        geo = {(op, c) for op, c, _ in consts_of(facts.body(setf[0]))}
        S = {c for op, c in geo if op == "Shr"}
        M = {c for op, c in geo if op == "BitAnd"}
        if len(S) != 1 or len(M) != 1:
            r.fail("%s::set geometry" % ty, "cannot read one (shift, mask) pair from set: %s" % sorted(geo), facts.loc(setf[0]))
            continue
        cg = {(op, c) for op, c, _ in consts_of(facts.body(conf[0]))}
        key = "%s contains ~ set" % ty
        ngeom += 1
        if geo <= cg:
            r.ok(key, ">> %d, & %#x" % (list(S)[0], list(M)[0]))
            r.sample({"type": ty, "shift": list(S)[0], "mask": list(M)[0]})
        else:
            r.fail(key, "%s::contains does not use the geometry %s::set writes with (set: %s, contains: %s): bytes are looked up in a "
                        "different bit than they were stored in" % (ty, ty, sorted(geo), sorted(cg)), facts.loc(conf[0]))
        for fn in sorted(fns):
            if fn in (setf[0], conf[0]):
                continue
            b = facts.body(fn)
            cs = consts_of(b)
            if cs:
                ngeom += 1
                bad = [(op, c, ln) for op, c, ln in cs if (op == "Shr" and c not in S) or (op == "BitAnd" and lanes(c) != M)]
                key = "%s geometry" % fn
                if bad:
                    r.fail(key, "%s shifts/masks with %s but %s::set uses >> %d and & %#x per byte: for some byte values a different word/bit "
                                "is probed than `contains` would probe" % (fn, ["%s %#x (line %s)" % x for x in bad], ty, list(S)[0], list(M)[0]),
                           facts.loc(fn, bad[0][2]))
                else:
                    r.ok(key, "all %d shift/mask constants are lane copies of set's" % len(cs))
            for bi, i, s in b.iter_stmts():
                if s["k"] == "assign" and s["rv"]["k"] == "agg" and str(s["rv"].get("adt", "")).endswith("ops::Range"):
                    nsweep += 1
                    ops = s["rv"]["ops"]
                    key = "%s index sweep" % fn
                    ok = b.const_of_operand(ops[0]) == 0 and ops[1].get("k") in ("copy", "move")
                    if ok:
                        d = b.single_def(b.root_of(ops[1]["pl"]["l"])[0])
                        ok = bool(d) and d[2] == "call" and (d[3].get("callee") or "").split("::")[-1] == "len"
                        if not ok and d and d[2] == "assign" and d[3]["rv"]["k"] in ("len", "ptr_metadata", "un"):
                            ok = True
                    if ok:
                        r.ok(key, "0..len()")
                    else:
                        r.fail(key, "the index loop at line %s does not run over 0..len() of the bitmap's array (its end is computed): part of "
                                    "the array is skipped, so bytes of the other operand are missing from the result" % s["line"], facts.loc(fn, s["line"]))
    # whole-array operations written with iterators (`a.iter_mut().zip(b.iter())`) visit every word unless a partial adaptor is used
    PARTIAL = {"take", "skip", "step_by", "take_while", "skip_while", "chunks", "chunks_exact", "split_at", "get", "nth", "first", "last"}
    for ty in TYPES:
        for fn in sorted(n for n in facts.body_names() if re.search(r"bytesearch::%s::(bitor|bitnot|count_bits)$" % ty, n)):
            b = facts.body(fn)
            calls = [(t.get("callee") or "").split("::")[-1] for _, t in b.iter_calls()]
            has_range = any(s["k"] == "assign" and s["rv"]["k"] == "agg" and str(s["rv"].get("adt", "")).endswith("ops::Range") for _, _, s in b.iter_stmts())
            if has_range:
                continue  # decided by the sweep clause above
            nsweep += 1
            key = "%s whole-array iteration" % fn
            bad = sorted(set(calls) & PARTIAL)
            if ("iter" in calls or "iter_mut" in calls or "into_iter" in calls) and not bad:
                r.ok(key, "iterator over the whole array")
            else:
                r.fail(key, "the word-wise operation does not iterate the whole array (partial adaptors: %s)" % bad, facts.loc(fn))
    r.floor("geometry_instances", ngeom, 3)
    r.floor("index_sweeps", nsweep, 1)
    return r

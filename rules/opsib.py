"""OPSIB — the two interpreters agree per opcode (C02).

 1. neither opcode dispatch (`match` over insn::Insn in MatchAttempter::try_at_pos and in
    pikevm::try_match_state) has a catch-all arm, and both cover every Insn variant;
 2. for each variant, the multiset of semantic primitives called from the arm (input probes, character
    predicates, matchers, set membership; `scm::X.matches` expanded to the primitives of its impl) is equal
    in both executors, modulo the reviewed difference table;
 3. the arms written twice verbatim (WordBoundary, WordBoundaryUnicodeICase, StartOfLine, EndOfLine,
    BackRef) have equal normalised HIR trees (locals renamed by binding order; `s.pos` ~ `pos`;
    `self.s.groups.mat(i)` ~ `&mut s.groups[i]`; the two dispatch epilogues ~ COND(e));
 4. Lookahead runs its body Forward and Lookbehind Backward in both.
"""
import collections
import json
import re

from . import core, hirutil as H
from .report import RuleResult

RULE_TEXT = " ".join(x.strip() for x in __doc__.split("\n")[2:] if x.strip())
BT = "classicalbacktrack::MatchAttempter::<'a, Input>::try_at_pos"
PV = "pikevm::try_match_state"
INSN_RX = r"^&?(mut )?insn::Insn$"

PRIMS = {
    "indexing::InputIndexer::peek_left": "peek_left", "indexing::InputIndexer::peek_right": "peek_right",
    "matchers::CharProperties::is_word_char": "is_word_char",
    "matchers::CharProperties::is_word_char_unicode_icase": "is_word_char_unicode_icase",
    "matchers::CharProperties::is_line_terminator": "is_line_terminator",
    "matchers::CharProperties::bracket": "bracket",
    "matchers::backref": "backref", "matchers::backref_icase": "backref_icase",
    "cursor::next": "next", "cursor::next_byte": "next_byte", "cursor::try_match_lit": "try_match_lit",
    "bytesearch::charset_contains": "charset_contains", "bytesearch::ByteSet::contains": "set_contains",
    "bytesearch::ByteArraySet::<ArraySet>::contains": "set_contains",
    "types::GroupData::<Position>::as_range": "as_range", "types::GroupData::<Position>::reset": "group_reset",
}
# reviewed differences: variant -> (primitives only in backtracker, only in pikevm, reason)
DIFF = {}

VERBATIM = ["WordBoundary", "WordBoundaryUnicodeICase", "StartOfLine", "EndOfLine", "BackRef"]
EPILOGUES = {"next_or_bt", "nextinsn_or_fail"}


def dispatch(facts, fn, r):
    h = facts.hir.get(fn)
    if h is None:
        r.error("anchor %s not found" % fn)
        return None
    ms = H.find_matches(h["body"], INSN_RX)
    if not ms:
        r.error("no match over insn::Insn in %s" % fn)
        return None
    return max(ms, key=lambda m: len(m["arms"]))


def scm_impl(facts, recv_ty):
    m = re.match(r"^&?(?:mut )?(scm::\w+)", recv_ty or "")
    if not m:
        return None
    base = m.group(1)
    for n in facts.hir:
        if n.startswith("<" + base) and n.endswith("SingleCharMatcher<Input, Dir>>::matches"):
            return n
    return None


def prims_of(facts, expr, depth=0):
    c = collections.Counter()

    def visit(n, ps):
        k = n.get("k")
        path = None
        if k == "call":
            cal = n.get("callee") or {}
            if cal.get("r") == "def":
                path = cal["path"]
        elif k == "mcall":
            path = n.get("def")
            if path == "scm::SingleCharMatcher::matches" and depth < 2:
                impl = scm_impl(facts, n.get("recv_ty"))
                if impl:
                    c.update(prims_of(facts, facts.hir[impl]["body"], depth + 1))
                    c["scm:" + impl.split(" as ")[0].lstrip("<").split("<")[0]] += 0
                    return
                c["scm:unresolved"] += 1
        elif k == "path":
            r_ = n.get("res", {})
            if r_.get("r") == "def" and r_.get("dk") in ("fn", "assocfn"):
                path = r_["path"]
        if path in PRIMS:
            c[PRIMS[path]] += 1
    core.hir_walk(expr, visit)
    return +c


def signature(tree):
    """Arrangement-insensitive summary of an arm: the sorted multiset of operators, literals, resolved callees and field
    names; every callee is tagged with the boolean conditions it sits under (`if c` then/else, match-arm guards and the
    arms after a guarded arm), so swapping the two branches of a test changes the summary while rewriting if/else as a
    match, hoisting a `let` or renaming a local does not. Locals, patterns and the if/match/let structure are ignored;
    the dispatch epilogues count as one token."""
    out = []

    def toks(n, acc, with_locals):
        if isinstance(n, list):
            for x in n:
                toks(x, acc, with_locals)
            return
        if not isinstance(n, dict):
            return
        k = n.get("k")
        if k == "bin":
            acc.append({">": "<", ">=": "<="}.get(n.get("op"), n.get("op")))
        elif k in ("un", "assignop"):
            acc.append("%s:%s" % (k, n.get("op")))
        elif k == "lit":
            acc.append("lit:%r" % (n.get("v"),))
        elif k == "mcall":
            name = (n.get("def") or n.get("name") or "").split("::")[-1]
            if name not in ("clone", "as_ref", "as_mut", "into", "borrow", "deref", "mat"):
                acc.append("call:" + name)
        elif k == "call":
            path = ((n.get("callee") or {}).get("path") or "")
            if path:
                acc.append("call:" + path.split("::")[-1])
        elif k == "field":
            if n.get("name") not in ("pos", "s", "groups", "0"):
                acc.append("field:" + str(n.get("name")))
        elif k == "path":
            r0 = n.get("res") or {}
            if r0.get("r") == "def" and str(r0.get("dk", "")).startswith(("ctor", "const", "assoc")):
                acc.append("def:" + str(r0.get("path", "")).split("::")[-1])
            elif r0.get("r") == "local" and with_locals:
                acc.append("v:" + str(r0.get("name")))
        for key, v in n.items():
            if key in ("pat", "res", "ty", "recv_ty", "scrut_ty"):
                continue
            toks(v, acc, with_locals)

    def cond_sig(c):
        acc = []
        toks(c, acc, True)
        return "|".join(sorted(acc))

    def go(n, ctx):
        if isinstance(n, list):
            for x in n:
                go(x, ctx)
            return
        if not isinstance(n, dict):
            return
        k = n.get("k")
        if k == "if" and n.get("mac") in EPILOGUES:
            out.append("EPILOGUE")
            go(n.get("cond"), ctx)
            return
        if k == "if" and "cond" in n and isinstance(n["cond"], dict) and n["cond"].get("k") not in ("let", "letexpr"):
            cs = cond_sig(n["cond"])
            go(n["cond"], ctx)
            go(n.get("then"), ctx + ("T:" + cs,))
            if n.get("else") is not None:
                go(n.get("else"), ctx + ("F:" + cs,))
            return
        if k == "match" and isinstance(n.get("arms"), list):
            go(n.get("scrut"), ctx)
            extra = ()
            for arm in n["arms"]:
                g = arm.get("guard")
                if g is not None:
                    gs = cond_sig(g)
                    go(g, ctx + extra)
                    go(arm.get("body"), ctx + extra + ("T:" + gs,))
                    extra = extra + ("F:" + gs,)
                else:
                    go(arm.get("body"), ctx + extra)
            return
        acc = []
        # this node's own token only (children are reached by the recursion below)
        toks({kk: vv for kk, vv in n.items() if not isinstance(vv, list) and (kk in ("callee",) or not isinstance(vv, dict))}, acc, False)
        for t in acc:
            out.append(t + ("@" + ",".join(sorted(ctx)) if t.startswith("call:") and ctx else ""))
        for key, v in n.items():
            if key in ("pat", "res", "ty", "recv_ty", "scrut_ty", "callee"):
                continue
            go(v, ctx)
    go(tree, ())
    return sorted(out)


def normalise(tree):
    """Canonical string of an arm body for verbatim comparison."""
    names = {}

    def local(name):
        if name not in names:
            names[name] = "v%d" % len(names)
        return names[name]

    def go(n):
        if isinstance(n, list):
            return [go(x) for x in n]
        if not isinstance(n, dict):
            return n
        k = n.get("k")
        # dispatch epilogue macros
        if k == "if" and n.get("mac") in EPILOGUES:
            return {"k": "COND", "e": go(n["cond"])}
        if k == "block" and not n.get("stmts") and "expr" in n and not n.get("unsafe"):
            return go(n["expr"])
        # `s.pos` ~ `pos`
        if k == "field" and n.get("name") == "pos":
            return {"k": "POS"}
        if k == "path" and n.get("res", {}).get("r") == "local" and n["res"]["name"] == "pos":
            return {"k": "POS"}
        # group access idioms
        if k == "mcall" and n.get("name") == "mat":
            return {"k": "GROUP", "i": go(n["args"][0])}
        if k == "index" and "groups" in json.dumps(H.strip_types(n["e"])):
            return {"k": "GROUP", "i": go(n["i"])}
        if k == "addrof":
            return go(n["e"])
        if k == "un" and n.get("op") == "*":
            return go(n["a"])
        if k == "block":
            # declarations without initialiser (`let matched;`) carry no meaning of their own
            n = dict(n)
            n["stmts"] = [st for st in n.get("stmts", []) if not (st.get("k") == "let" and "init" not in st)]
            # `{ x = e; }` ~ `{ x = e }` (a trailing unit-valued assignment with or without the semicolon)
            if "expr" not in n and n["stmts"] and n["stmts"][-1].get("k") == "semi" and n["stmts"][-1]["e"].get("k") == "assign":
                n["expr"] = n["stmts"][-1]["e"]
                n["stmts"] = n["stmts"][:-1]
            if not n["stmts"] and "expr" in n and not n.get("unsafe"):
                return go(n["expr"])
        out = {}
        for key, v in n.items():
            if key in ("line", "ty", "mac", "recv_ty", "base_ty", "scrut_ty", "id", "mode", "src"):
                continue
            if key == "res" and isinstance(v, dict) and v.get("r") == "local":
                out["res"] = local(v["name"])
            elif key == "name" and k == "bind":
                out["name"] = local(v)
            elif isinstance(v, (dict, list)):
                out[key] = go(v)
            else:
                out[key] = v
        return out
    return json.dumps(go(tree), sort_keys=True)


def direction_of(facts, fn, m, arm):
    """Which Direction the lookaround body runs with, from the resolved calls (MIR) inside the arm's line range:
    the generic argument of run_lookaround / the `<X as Direction>::new()` passed to try_at_pos."""
    arms = sorted(a["line"] for a in m["arms"])
    lo = arm["line"]
    later = [x for x in arms if x > lo]
    hi = (later[0] - 1) if later else 10 ** 9
    b = facts.body(fn)
    found = set()
    for bb, t in b.iter_calls():
        if t.get("line") is None or not (lo <= t["line"] <= hi):
            continue
        cal = t.get("callee") or ""
        res = t.get("resolved") or ""
        if cal.endswith("run_lookaround") or cal.endswith("Direction::new") or cal.endswith("try_at_pos"):
            for d in ("Forward", "Backward"):
                if ("cursor::" + d) in (t.get("gargs") or "") or ("cursor::" + d) in res:
                    found.add(d)
    return "+".join(sorted(found))


def check(facts):
    r = RuleResult("OPSIB", RULE_TEXT)
    mb, mp = dispatch(facts, BT, r), dispatch(facts, PV, r)
    if mb is None or mp is None:
        return r
    variants = [v["name"] for v in facts.adts["insn::Insn"]["variants"]]
    ab, ap = H.arms_by_variant(mb), H.arms_by_variant(mp)
    for name, av, fn in (("backtracker", ab, BT), ("pikevm", ap, PV)):
        if "_" in av:
            r.fail("%s dispatch has no catch-all" % name, "the opcode dispatch of %s has a catch-all arm: a new opcode would be silently "
                   "ignored by one executor" % fn, facts.loc(fn, av["_"][0]["line"]))
        else:
            r.ok("%s dispatch has no catch-all" % name)
        missing = [v for v in variants if v not in av]
        if missing:
            r.fail("%s dispatch covers every opcode" % name, "no arm for %s" % missing, facts.loc(fn))
    n = 0
    for v in variants:
        if v not in ab or v not in ap:
            continue
        n += 1
        pb = collections.Counter()
        pp = collections.Counter()
        for a in ab[v]:
            pb.update(prims_of(facts, a["body"]))
        for a in ap[v]:
            pp.update(prims_of(facts, a["body"]))
        key = "opcode=%s primitives" % v
        only_b = pb - pp
        only_p = pp - pb
        allowed = DIFF.get(v)
        if not only_b and not only_p:
            r.ok(key, "%s" % dict(pb) if pb else "no input primitive", nontrivial=bool(pb))
            if pb:
                r.sample({"opcode": v, "primitives": dict(pb)})
        elif allowed and dict(only_b) == allowed[0] and dict(only_p) == allowed[1]:
            r.ok(key, "reviewed difference: %s" % allowed[2])
        else:
            r.fail(key, "the executors use different primitives for Insn::%s: only the backtracker %s, only the PikeVM %s" % (
                v, dict(only_b) or "{}", dict(only_p) or "{}"), "%s / %s" % (facts.loc(BT, ab[v][0]["line"]), facts.loc(PV, ap[v][0]["line"])))
    r.floor("opcodes", n, 42)
    for v in VERBATIM:
        if v not in ab or v not in ap:
            r.error("verbatim arm %s missing" % v)
            continue
        key = "opcode=%s verbatim" % v
        tb, tp = normalise(ab[v][0]["body"]), normalise(ap[v][0]["body"])
        if tb == tp:
            r.ok(key, "normalised trees equal (%d chars)" % len(tb))
        elif signature(ab[v][0]["body"]) == signature(ap[v][0]["body"]):
            # same operators, literals, callees and fields, differently arranged control flow (if/else vs match, hoisted lets):
            # a refactoring of one copy, not a semantic divergence the tree comparison is meant to catch
            r.ok(key, "trees differ in arrangement only: operator / literal / callee / field multisets equal")
        else:
            # locate first difference for the message
            i = next((i for i, (x, y) in enumerate(zip(tb, tp)) if x != y), min(len(tb), len(tp)))
            r.fail(key, "the two copies of the Insn::%s arm differ after normalisation (or use an unrecognised idiom) near: backtracker …%s… / "
                        "pikevm …%s…" % (v, tb[max(0, i - 60):i + 60], tp[max(0, i - 60):i + 60]),
                   "%s / %s" % (facts.loc(BT, ab[v][0]["line"]), facts.loc(PV, ap[v][0]["line"])))
    for v, want in (("Lookahead", "Forward"), ("Lookbehind", "Backward")):
        for name, av, fn in (("backtracker", ab, BT), ("pikevm", ap, PV)):
            if v not in av:
                continue
            d = direction_of(facts, fn, mb if name == "backtracker" else mp, av[v][0])
            key = "%s opcode=%s runs %s" % (name, v, want)
            if d == want:
                r.ok(key)
            else:
                r.fail(key, "Insn::%s body is run with direction %r in the %s (expected %s)" % (v, d, name, want), facts.loc(fn, av[v][0]["line"]))
    return r

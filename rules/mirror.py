"""MIRROR — direction-generic code steps symmetrically (C01, C06).

In every function generic over the cursor direction (`Dir: Direction`), a *stepping primitive*
(InputIndexer::next_left / next_right / next_left_pos / next_right_pos / try_move_left /
try_move_right, `pos += n` / `pos -= n` on a position) must be selected by a branch on
`<Dir as Direction>::FORWARD`, and the two arms of that branch must use mirror-image primitives
(left <-> right, += <-> -=). A step that ignores the direction, or an arm whose twin steps the same
way, walks the wrong way inside a lookbehind (out of bounds in the unchecked build). UNITSTEP: try_move_left /
try_move_right count code units; outside indexing.rs they only turn the caller's offset into a position (initial_position) —
the executors step over characters with next_*_pos / next_* — and inside indexing.rs only the one-unit-per-character indexers
(AsciiInput, Ucs2Input) pass them a constant amount. DIRBLIND: an executor helper without a direction parameter that is called from
direction-generic code uses no stepping primitive and no byte peek of one side only (both mirror twins, as in a word-boundary test, are fine).

DIRSTATE — the emitter's and the IR walkers' `in_lookbehind` flag follows a save/set/restore discipline:
every store to a field named in_lookbehind writes either the `backwards` field of the
LookaroundAssertion being entered, or a value loaded from the same field *before* it was
overwritten (restore); constructors initialise it to false.
"""
import collections
import re

from . import core
from .report import RuleResult

MIRROR_TEXT = __doc__.split("\n\n")[1].replace("\n", " ")
DIRSTATE_TEXT = __doc__.split("\n\n")[2].replace("\n", " ")

MIRROR_OF = {"next_left": "next_right", "next_right": "next_left", "next_left_pos": "next_right_pos",
             "next_right_pos": "next_left_pos", "try_move_left": "try_move_right", "try_move_right": "try_move_left",
             "add_assign": "sub_assign", "sub_assign": "add_assign"}


def fwd_switches(b):
    out = []
    for bb in b.reachable():
        t = b.blocks[bb]["t"]
        if t["k"] != "switch":
            continue
        d = t["discr"]
        item = d.get("item")
        if d["k"] in ("copy", "move") and not d["pl"]["p"]:
            df = b.single_def(d["pl"]["l"])
            if df and df[2] == "assign" and df[3]["rv"]["k"] == "use":
                item = df[3]["rv"]["op"].get("item")
        if item and item.endswith("Direction::FORWARD"):
            out.append(bb)
    return out


def step_calls(b):
    out = []
    for bb, t in b.iter_calls():
        cal = t.get("callee") or ""
        c = cal.split("::")[-1]
        if c not in MIRROR_OF:
            continue
        if "InputIndexer::" in cal:
            out.append((bb, c, t.get("line")))
        elif "ops::" in cal and c in ("add_assign", "sub_assign"):
            ty = t["args"][0].get("pl", {}).get("ty", "")
            if "Position" in ty:
                out.append((bb, c, t.get("line")))
    return out


def is_dir_generic(b):
    return any(l["ty"] == "Dir" for l in b.locals)


def check(facts):
    r = RuleResult("MIRROR", MIRROR_TEXT)
    nsw = 0
    for fn in sorted(facts.body_names()):
        b = facts.body(fn)
        sws = fwd_switches(b)
        steps = step_calls(b)
        if not sws and not (steps and is_dir_generic(b)):
            continue
        dom = b.dom()
        covered = set()
        for sw in sws:
            nsw += 1
            t = b.blocks[sw]["t"]
            f_target = [tgt for v, tgt in t["targets"] if v == 0]
            t_target = t["otherwise"]
            if not f_target:
                continue
            f_target = f_target[0]
            region_t = {x for x in b.reachable() if t_target in dom[x]}
            region_f = {x for x in b.reachable() if f_target in dom[x]}
            pt = collections.Counter(c for bb, c, _ in steps if bb in region_t)
            pf = collections.Counter(c for bb, c, _ in steps if bb in region_f)
            covered |= {bb for bb, _, _ in steps if bb in region_t or bb in region_f}
            key = "%s switch@%s" % (fn, "+".join(sorted(pt)) or "nostep")
            if not pt and not pf:
                r.ok(key, "no stepping primitive under this direction test", nontrivial=False)
                continue
            mirrored = collections.Counter({MIRROR_OF[c]: n for c, n in pt.items()})
            if mirrored == pf:
                r.ok(key, "FORWARD arm %s / backward arm %s" % (dict(pt), dict(pf)))
                r.sample({"function": fn, "line": t.get("line"), "forward": dict(pt), "backward": dict(pf)})
            else:
                r.fail(key, "the two arms of `if Dir::FORWARD` are not mirror images: forward arm steps with %s, backward arm with %s" %
                       (dict(pt) or "{}", dict(pf) or "{}"), facts.loc(fn, t.get("line")))
        if is_dir_generic(b) or sws:
            for bb, c, line in steps:
                if bb not in covered:
                    r.fail("%s step=%s outside a direction test" % (fn, c),
                           "direction-generic function steps with %s unconditionally (line %s): the step ignores whether the cursor "
                           "moves forwards or backwards" % (c, line), facts.loc(fn, line))
    r.floor("direction_switches", nsw, 10)
    # DIRBLIND: an executor helper that has no direction parameter but is called from direction-generic code (try_at_pos also runs
    # lookbehind bodies right to left) may not look at one particular side of the cursor: no stepping primitive and no byte peek
    # (`peek_byte_right` / `peek_byte_left`) unless it uses both mirror twins (a word-boundary style test reads both sides)
    cg = facts.callgraph()
    PEEKS = {"peek_byte_right": "peek_byte_left", "peek_byte_left": "peek_byte_right", "peek_right": "peek_left", "peek_left": "peek_right"}
    nblind = 0
    for fn in sorted(facts.body_names()):
        if "::tests::" in fn or "{closure" in fn or not fn.startswith(("classicalbacktrack::", "pikevm::", "matchers::", "scm::", "<scm::")):
            continue
        b = facts.body(fn)
        if is_dir_generic(b) or fwd_switches(b):
            continue
        callers = [c for c, outs in cg.items() if fn in outs and facts.has_body(c) and is_dir_generic(facts.body(c))]
        if not callers:
            continue
        used = collections.Counter()
        lines = {}
        for bb, t in b.iter_calls():
            last = (t.get("callee") or "").split("::")[-1]
            if (last in PEEKS or last in MIRROR_OF) and "InputIndexer" in (t.get("callee") or ""):
                used[last] += 1
                lines.setdefault(last, t.get("line"))
        if not used:
            continue
        nblind += 1
        key = "%s has no direction but is called from direction-generic code" % fn
        twin = {**PEEKS, **MIRROR_OF}
        lonely = sorted(c for c in used if twin.get(c) not in used)
        if lonely:
            r.fail(key, "%s looks at one side of the cursor only (%s, line %s) and takes no direction, yet %s calls it while matching in "
                        "either direction: inside a lookbehind the text to compare lies on the other side (`(?<=ab|cd)x` loses its "
                        "second arm)" % (fn.split("::")[-1], ", ".join(lonely), lines[lonely[0]], callers[0].split("::")[-1]),
                   facts.loc(fn, lines[lonely[0]]))
        else:
            r.ok(key, "reads both sides (%s)" % sorted(used))
    # UNITSTEP: try_move_left / try_move_right move by code *units*. Outside indexing.rs they are only used to turn the caller's
    # offset into a position (initial_position); the executors step over text with the character-aware next_*_pos / next_*.
    # Inside indexing.rs a constant amount is passed only by the single-unit-per-character indexers (AsciiInput, Ucs2Input).
    nmove = 0
    for fn in sorted(facts.body_names()):
        if "::tests::" in fn:
            continue
        b = facts.body(fn)
        for bb, t in b.iter_calls():
            last = (t.get("callee") or "").split("::")[-1]
            if last not in ("try_move_left", "try_move_right"):
                continue
            nmove += 1
            base = fn.split("::{closure")[0]
            in_indexing = base.startswith("indexing::") or base.startswith("<indexing::")
            amt = t["args"][2] if len(t["args"]) > 2 else None
            const_amt = b.const_of_operand(amt) if amt is not None else None
            key = "%s %s by units" % (base, last)
            if not in_indexing:
                if base.endswith("::initial_position"):
                    r.ok(key, "offset to position")
                else:
                    r.fail(key, "%s steps a position with %s (line %s), which counts code units: a character step in the executors must use "
                                "next_left_pos / next_right_pos — one byte back from behind a multi-byte character lands inside it" % (
                                    base.split("::")[-1], last, t.get("line")), facts.loc(fn, t.get("line")))
            elif const_amt is not None and not any(x in base for x in ("AsciiInput", "Ucs2Input")):
                r.fail(key, "a multi-unit indexer moves by the constant %s units (line %s)" % (const_amt, t.get("line")), facts.loc(fn, t.get("line")))
            else:
                r.ok(key)
    r.floor("unit_moves", nmove, 8)
    return r


def check_dirstate(facts):
    r = RuleResult("DIRSTATE", DIRSTATE_TEXT)
    n = 0
    for fn in sorted(facts.body_names()):
        b = facts.body(fn)
        for bi, i, s in b.iter_stmts():
            if s["k"] != "assign":
                continue
            fields = core.proj_fields(s["pl"])
            if not fields or fields[-1] != "in_lookbehind":
                continue
            n += 1
            key = "%s store in_lookbehind#%d" % (fn, sum(1 for k in r.instances if k["key"].startswith("DIRSTATE " + fn)) + 1)
            rv = s["rv"]
            if rv["k"] != "use":
                r.fail(key, "in_lookbehind assigned from a computed value", facts.loc(fn, s["line"]))
                continue
            op = rv["op"]
            if op["k"] == "const":
                r.fail(key, "in_lookbehind overwritten with a constant (%s): leaving a nested lookaround must restore the enclosing "
                            "direction, entering one must take the assertion's own direction" % op.get("int"), facts.loc(fn, s["line"]))
                continue
            verdict = classify_source(b, op, (bi, i))
            if verdict[0]:
                r.ok(key, verdict[1])
                r.sample({"key": key, "line": s["line"], "source": verdict[1]})
            else:
                r.fail(key, verdict[1], facts.loc(fn, s["line"]))
    # constructors: aggregates initialising in_lookbehind must use const false
    for fn in sorted(facts.body_names()):
        b = facts.body(fn)
        for bi, i, s in b.iter_stmts():
            if s["k"] == "assign" and s["rv"]["k"] == "agg" and "in_lookbehind" in s["rv"].get("fields", []):
                n += 1
                op = s["rv"]["ops"][s["rv"]["fields"].index("in_lookbehind")]
                key = "%s init in_lookbehind" % fn
                if op["k"] == "const" and op.get("int") == 0:
                    r.ok(key, "initialised to false", nontrivial=False)
                elif op["k"] in ("copy", "move") and b.const_of_operand(op) == 0:
                    r.ok(key, "initialised to false", nontrivial=False)
                elif fn.endswith("clone"):
                    r.ok(key, "field-wise clone", nontrivial=False)
                else:
                    r.fail(key, "in_lookbehind is not initialised to false", facts.loc(fn, s["line"]))
    r.floor("in_lookbehind_stores", n, 6)
    return r


def classify_source(b, op, at):
    """Where does the stored value come from? Follow copies back to a load."""
    l = op["pl"]["l"]
    pl = op["pl"]
    for _ in range(8):
        fields = core.proj_fields(pl)
        if fields and fields[-1] == "backwards":
            return (True, "takes the direction of the LookaroundAssertion being entered (`backwards`)")
        if fields and fields[-1] in ("in_lookbehind", "prev_in_lookbehind"):
            if fields[-1] == "in_lookbehind":
                return (False, "stores in_lookbehind into itself")
            # a saved copy carried in a work item: find where such items are built and check the save precedes the set there
            return saved_in_work_item(b, fields[-1])
        if pl["p"] == ["*"]:
            # a deref of a reference: where does the reference point?
            root, proj = b.root_of(l)
            pf = [x["f"] for x in proj if isinstance(x, dict) and "f" in x]
            if pf and pf[-1] == "backwards":
                return (True, "takes the direction of the LookaroundAssertion being entered (`backwards`)")
            return (False, "in_lookbehind assigned through a reference to %s" % (pf[-1] if pf else "an unknown place"))
        if pl["p"]:
            return (False, "in_lookbehind assigned from an unrecognised place")
        d = b.single_def(l)
        if not d or d[2] != "assign" or d[3]["rv"]["k"] != "use" or d[3]["rv"]["op"]["k"] not in ("copy", "move"):
            return (False, "in_lookbehind assigned from an unrecognised definition")
        src = d[3]["rv"]["op"]["pl"]
        sf = core.proj_fields(src)
        if sf and sf[-1] == "in_lookbehind":
            # a load of the flag: it must happen before any store to the flag that it could otherwise observe,
            # i.e. no store to in_lookbehind lies on a path between function entry ... simpler: the load must not be
            # dominated by a store in the same function that itself dominates `at` (save-after-set).
            load_pt = (d[0], d[1])
            for bi, i, s in b.iter_stmts():
                if s["k"] == "assign" and core.proj_fields(s["pl"])[-1:] == ["in_lookbehind"] and (bi, i) != at:
                    if b.dominates((bi, i), load_pt):
                        return (False, "the 'saved' value is loaded after in_lookbehind was already overwritten (line %s): the restore "
                                       "writes back the new value" % s.get("line"))
            return (True, "restores a value loaded from in_lookbehind before it was overwritten (line %s)" % d[3].get("line"))
        pl = src
        l = src["l"]
    return (False, "in_lookbehind assigned from an unrecognised chain")


def saved_in_work_item(b, field):
    """The restore reads `item.prev_in_lookbehind`: every aggregate with that field must be fed by a load of
    in_lookbehind that precedes the store of the new direction in the same block sequence."""
    found = False
    for bi, i, s in b.iter_stmts():
        if s["k"] == "assign" and s["rv"]["k"] == "agg" and field in s["rv"].get("fields", []):
            found = True
            op = s["rv"]["ops"][s["rv"]["fields"].index(field)]
            if op["k"] not in ("copy", "move"):
                return (False, "%s is built from a constant" % field)
            # follow to the load
            l = op["pl"]["l"]
            load = None
            for _ in range(6):
                d = b.single_def(l)
                if not d or d[2] != "assign" or d[3]["rv"]["k"] != "use" or d[3]["rv"]["op"]["k"] not in ("copy", "move"):
                    break
                src = d[3]["rv"]["op"]["pl"]
                if core.proj_fields(src)[-1:] == ["in_lookbehind"]:
                    load = (d[0], d[1], d[3].get("line"))
                    break
                if src["p"]:
                    break
                l = src["l"]
            if load is None:
                return (False, "%s is not a copy of in_lookbehind" % field)
            # the load must come before the store of the new direction that dominates this aggregate
            for bj, j, s2 in b.iter_stmts():
                if s2["k"] == "assign" and core.proj_fields(s2["pl"])[-1:] == ["in_lookbehind"]:
                    src_fields = core.proj_fields(s2["rv"]["op"]["pl"]) if s2["rv"]["k"] == "use" and s2["rv"]["op"]["k"] in ("copy", "move") else []
                    # only stores of a *new* direction matter here
                    if b.dominates((bj, j), (load[0], load[1])) and b.dominates((bj, j), (bi, i)) and bj == load[0]:
                        return (False, "the enclosing direction is saved (line %s) after in_lookbehind was already set to the new "
                                       "direction (line %s): the restore writes back the new value" % (load[2], s2.get("line")))
    if not found:
        return (False, "no work item carries %s" % field)
    return (True, "restores the value saved in the work item before the new direction was set")

"""TYPES — a compiled regex is deeply immutable and shareable (C19).

Obligations, all discharged by the type system / trait solver on the current tree:
 1. witness crate: Regex, Match, Error, Flags are Send + Sync (compile-pass) and the twin with one
    extra line fails with E0277 (the witness can fail);
 2. deep type walk from the roots: no UnsafeCell, raw pointer, &mut, dyn or closure anywhere in
    local or third-party ADTs; std ADTs answer Freeze + Send + Sync and only their type arguments
    are walked;
 3. no `static mut`, no non-Freeze static, no thread_local;
 4. public Regex/Match methods never take `&mut self`; executors hold `&CompiledRegex`;
    no function outside emit.rs takes `&mut CompiledRegex` / `&mut Regex`;
 5. user-written pointer casts to `*mut` and transmutes are exactly the triaged set.
"""
import os
import re
import shutil
import subprocess
import tempfile

from . import core
from .report import RuleResult

ROOTS = ["api::Regex", "api::Match", "parse::Error", "api::Flags", "insn::CompiledRegex"]
NONNULL_RX = re.compile(r"^(std|core)::ptr::NonNull<")

# obligation 5: triaged user-written casts (function, from, to) -> reason
TRIAGED_CASTS = {
    ("position::RefPosition::<'_>::new", "*const u8", "*mut u8"):
        "haystack byte pointer wrapped in NonNull; never written through (RefPosition exposes only reads)",
}


def check_witness(r, repo):
    src_dir = os.path.join(core.VERIF, "witness", "autotraits")
    tmp = tempfile.mkdtemp(prefix="regress-witness-")
    try:
        def build(extra_line):
            d = os.path.join(tmp, "fail" if extra_line else "pass")
            os.makedirs(os.path.join(d, "src"))
            toml = open(os.path.join(src_dir, "Cargo.toml.in")).read().replace("@REPO@", repo)
            open(os.path.join(d, "Cargo.toml"), "w").write(toml)
            lock = os.path.join(repo, "Cargo.lock")
            if os.path.exists(lock):
                shutil.copy(lock, os.path.join(d, "Cargo.lock"))
            body = open(os.path.join(src_dir, "src", "pass.rs")).read()
            if extra_line:
                body = body.replace("    // WITNESS-LINE\n", open(os.path.join(src_dir, "src", "fail_line.txt")).read())
            open(os.path.join(d, "src", "lib.rs"), "w").write(body)
            env = dict(os.environ, CARGO_NET_OFFLINE="true", CARGO_TARGET_DIR=os.path.join(tmp, "target"))
            for attempt in (1, 2):
                p = subprocess.run(["cargo", "check", "--offline", "--message-format=short"], cwd=d, env=env,
                                   stdout=subprocess.PIPE, stderr=subprocess.STDOUT, text=True)
                # a compiler killed from outside (signal) is not a verdict of the type checker: run it once more
                if p.returncode == 0 or "error[E" in p.stdout or "(signal:" not in p.stdout:
                    break
            return p.returncode, p.stdout
        rc, out = build(False)
        if rc == 0:
            r.ok("witness compile-pass: Regex, Match, Error, Flags: Send + Sync; &'static Regex: Send + Sync; Regex: Clone")
            r.sample({"obligation": "auto-trait witness", "verdict": "compiles", "file": "witness/autotraits/src/pass.rs"})
        else:
            errs = [l for l in out.splitlines() if "error" in l][:6]
            r.fail("witness compile-pass", "auto-trait witness no longer compiles: a public value type lost Send/Sync/Clone: %s"
                   % " / ".join(errs), "witness/autotraits/src/pass.rs", {"output": out[-3000:]})
        rc2, out2 = build(True)
        if rc2 != 0 and "E0277" in out2:
            r.ok("witness compile-fail twin: Rc<Regex> is rejected with E0277 (the witness can fail)", nontrivial=False)
        else:
            r.error("compile-fail twin did not fail with E0277: the witness harness is broken\n" + out2[-1500:])
    finally:
        shutil.rmtree(tmp, ignore_errors=True)


def check(facts):
    r = RuleResult("TYPES", __doc__.split("\n\n")[1].replace("\n", " "))
    repo = core.REPO
    # 1. witness
    check_witness(r, repo)

    # 2. deep type walk
    for root in ROOTS:
        w = facts.typewalk.get(root)
        if w is None:
            r.error("root type %s not found" % root)
            continue
        for tr in ("freeze", "send", "sync"):
            if w[tr] is True:
                r.ok("%s: %s" % (root, tr.capitalize()))
            else:
                r.fail("%s: %s" % (root, tr.capitalize()), "%s is not %s (trait solver)" % (root, tr.capitalize()),
                       facts.adts.get(root, {}).get("file"))
        bad = 0
        nforeign = 0
        for f in w["findings"]:
            what = f["what"]
            path = " -> ".join(f["path"][-3:])
            if what in ("unsafecell", "rawptr", "mutref", "dyn", "closure"):
                bad += 1
                r.fail("%s reaches %s %s" % (root, what, f["ty"]),
                       "%s reachable from %s via %s: interior mutability / aliasing hazard in shared compiled state"
                       % (what, root, path), None, {"path": f["path"], "ty": f["ty"]})
            elif what == "foreign":
                nforeign += 1
                if not (f["freeze"] and f["send"] and f["sync"]):
                    bad += 1
                    r.fail("%s reaches foreign %s" % (root, f["ty"]),
                           "foreign type %s (via %s) is not Freeze+Send+Sync" % (f["ty"], path), None, f)
            elif what in ("param", "alias"):
                bad += 1
                r.fail("%s reaches generic %s" % (root, f["ty"]), "unexpected generic parameter in a concrete root", None, f)
        if not bad:
            r.ok("%s deep walk: %d local ADTs, %d foreign types, no UnsafeCell / raw pointer / &mut / dyn" % (
                root, len(w["local_adts"]), nforeign))
            r.sample({"obligation": "deep type walk", "root": root, "local_adts": w["local_adts"][:8],
                      "foreign_checked": nforeign})

    # 3. statics
    nst = 0
    for s in facts.statics:
        nst += 1
        key = "static %s" % s["path"]
        if s["mut"] or not s["freeze"] or s["thread_local"]:
            r.fail(key, "static %s is %s: state that outlives a search" % (
                s["path"], "mut" if s["mut"] else ("thread_local" if s["thread_local"] else "not Freeze (interior mutability)")),
                "%s:%s" % (s["file"], s["line"]))
        else:
            r.ok(key, nontrivial=False)
    r.stats["statics"] = nst

    # 4. signatures
    npub = 0
    for name, fn in facts.fns.items():
        ins = fn.get("inputs")
        if ins is None:
            continue
        for t in ins:
            if re.search(r"&(?:'\w+ )?mut (api::Regex|insn::CompiledRegex)\b", t):
                if name.startswith("emit::"):
                    continue
                r.fail("sig %s" % name, "function takes %s: the compiled program is mutable through this path" % t,
                       facts.loc(name))
        if fn.get("vis_public") and fn.get("impl_self") in ("api::Regex", "api::Match") and ins:
            first = ins[0]
            if fn.get("impl_self") in first:
                npub += 1
                if "mut " in first.split(fn["impl_self"])[0]:
                    r.fail("pub %s" % name, "public method takes &mut self", facts.loc(name))
                else:
                    r.ok("pub %s takes %s" % (name, first))
    r.floor("public_methods", npub, 20)
    for adt, field in (("classicalbacktrack::MatchAttempter", "re"), ("pikevm::MatchAttempter", "re")):
        a = facts.adts.get(adt)
        if a is None:
            if adt.startswith("pikevm") and facts.config == "alloc-nopike":
                continue
            r.error("executor type %s not found" % adt)
            continue
        tys = [f["ty"] for v in a["variants"] for f in v["fields"] if f["name"] == field]
        if tys and re.match(r"&'\w+ insn::CompiledRegex$", tys[0]):
            r.ok("%s.%s: %s" % (adt, field, tys[0]))
        else:
            r.fail("%s.%s" % (adt, field), "executor no longer borrows the compiled regex immutably: %s" % tys, a.get("file"))

    # MIR: no mutable borrow / raw mut pointer of a place inside CompiledRegex outside emit
    nb = 0
    for name in facts.body_names():
        if name.startswith("emit::"):
            continue
        b = facts.body(name)
        for bi, i, s in b.iter_stmts():
            if s["k"] != "assign":
                continue
            rv = s["rv"]
            if rv["k"] in ("ref", "rawptr") and ("mut" in rv["m"].lower()) and "Fake" not in rv["m"]:
                tys = [b.local_ty(rv["pl"]["l"])] + [p.get("ty", "") for p in rv["pl"]["p"] if isinstance(p, dict)]
                nb += 1
                # only places *inside* a CompiledRegex/Regex (the type occurs as a base, not as the borrowed leaf type
                # of an owned local being built)
                bases = tys[:-1] if len(tys) > 1 else []
                if any(re.search(r"\b(insn::CompiledRegex|api::Regex)\b", t) for t in bases):
                    r.fail("mutborrow %s %s" % (name, core.place_str(rv["pl"])),
                           "mutable borrow of a place inside the compiled regex", facts.loc(name, s["line"]))
    r.stats["mut_borrows_scanned"] = nb

    # 5. casts
    seen = set()
    for name in facts.body_names():
        b = facts.body(name)
        for bi, i, s in b.iter_stmts():
            if s["k"] != "assign" or s["rv"]["k"] != "cast":
                continue
            rv = s["rv"]
            frm, to = rv["from"], rv["to"]
            suspicious = False
            if rv["ck"] == "Transmute":
                if NONNULL_RX.match(frm) and to.startswith("*const"):
                    continue  # compiler-generated Box deref lowering
                suspicious = True
            elif "*mut" in to and "*mut" not in frm and "&mut" not in frm and "&'" not in frm:
                suspicious = True
            elif "*mut" in to and frm.startswith("&") and not frm.startswith("&mut") and "mut " not in frm[:12]:
                suspicious = True
            if not suspicious:
                continue
            k = (name, frm, to)
            if k in seen:
                continue
            seen.add(k)
            if k in TRIAGED_CASTS:
                r.ok("cast %s %s -> %s (triaged: %s)" % (name, frm, to, TRIAGED_CASTS[k]))
            else:
                r.fail("cast %s %s -> %s" % (name, frm, to),
                       "untriaged pointer cast/transmute (%s): may create a mutable alias of shared data" % rv["ck"],
                       facts.loc(name, s["line"]))
    if facts.config in ("default", "pu", "utf16", "pattern", "alloc"):
        missing = [k for k in TRIAGED_CASTS if k not in seen]
        if missing:
            # positive control for the cast detector: the known cast must be seen in pointer-position configs
            r.error("cast detector positive control failed: triaged cast %s not observed" % (missing,))
    return r

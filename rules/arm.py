"""ARM — analysis functions over the IR vs. the semantics of IR nodes (C03, C04).

Each function below is a structural recursion over ir::Node. For every Node variant the arm that
handles it (first matching arm, or-patterns and catch-alls included) is summarised symbolically from
the type-checked HIR (recursive calls and *which child* they receive, iterator idioms over children,
guards, constants, constructors), and the summary is compared with what the ECMAScript semantics of
that node kind allow (tables/ir_semantics.json). An arm the summariser cannot classify fails by name.
"""
import json
import os

from . import core, hirutil as H
from .report import RuleResult

RULE_TEXT = __doc__.split("\n\n")[1].replace("\n", " ")
NODE_RX = r"^&?(mut )?ir::Node$"


def load_sem():
    with open(os.path.join(core.VERIF, "tables", "ir_semantics.json")) as fh:
        return json.load(fh)


# --------------------------------------------------------------------------------------------
# symbolic summariser


class Sym:
    def __init__(self, facts, fn_name, self_names=()):
        self.facts = facts
        self.fn = fn_name
        self.env = {}  # local name -> summary
        self.fields = {}  # binding name -> field name of the matched variant

    def bind_pattern(self, pat, variant_fields):
        """Record binding name -> field (by position or name) for a variant pattern."""
        k = pat.get("k")
        if k in ("ref", "box", "deref"):
            return self.bind_pattern(pat["pat"], variant_fields)
        if k == "tstruct":
            for i, p in enumerate(pat["pats"]):
                name = bind_name(p)
                if name:
                    self.fields[name] = variant_fields[i] if i < len(variant_fields) else str(i)
        elif k == "struct":
            for fname, p in pat["fields"]:
                name = bind_name(p)
                if name:
                    self.fields[name] = fname
        elif k == "or":
            for p in pat["pats"]:
                self.bind_pattern(p, variant_fields)

    def child_of(self, e):
        """If e denotes (a reference to / deref of / as_ref of) a pattern binding, return its field name."""
        e = peel(e)
        if e.get("k") == "path" and e.get("res", {}).get("r") == "local":
            n = e["res"]["name"]
            if n in self.fields:
                return self.fields[n]
            return None
        if e.get("k") == "mcall" and e.get("name") in ("as_ref", "as_mut", "as_slice", "iter", "deref", "as_deref"):
            return self.child_of(e["recv"])
        return None

    def is_self_fn(self, path):
        return path == self.fn

    def closure_is_rec(self, e):
        """|n| f(n, ...) or a bare path to f: a call of the analysed function on the closure's parameter."""
        e = peel(e)
        if e.get("k") == "path" and e.get("res", {}).get("path") == self.fn:
            return True
        if e.get("k") == "closure":
            params = [bind_name(p) for p in e.get("params", [])]
            body = peel(e["body"])
            if body.get("k") == "call" and (body.get("callee") or {}).get("path") == self.fn and body["args"]:
                a0 = peel(body["args"][0])
                if a0.get("k") == "path" and a0.get("res", {}).get("name") in params:
                    return True
        return False

    def ev(self, e):
        e0 = e
        e = peel(e)
        k = e.get("k")
        if k == "lit":
            if e.get("t") == "bool":
                return ("const", e["v"])
            return ("lit", e.get("v"))
        if k == "path":
            r = e.get("res", {})
            if r.get("r") == "local":
                n = r["name"]
                if n in self.env:
                    return self.env[n]
                if n in self.fields:
                    return ("field", self.fields[n])
                return ("local", n)
            if r.get("r") == "def":
                p = r["path"]
                if p.endswith("::None") and r.get("dk", "").startswith(("ctor", "variant")):
                    return ("none",)
                return ("ctor", p, [])
            return ("opaque", "path")
        if k == "un":
            a = self.ev(e["a"])
            if e["op"] == "!":
                return ("not", a)
            if e["op"] == "*":
                return a
            return ("opaque", "un" + e["op"])
        if k == "bin":
            a, b = self.ev(e["a"]), self.ev(e["b"])
            op = e["op"]
            if op == "&&":
                return ("and", a, b)
            if op == "||":
                return ("or", a, b)
            return ("cmp", op, a, b)
        if k == "field":
            base = self.ev(e["e"])
            return ("proj", base, e["name"])
        if k == "call":
            callee = (e.get("callee") or {})
            path = callee.get("path", "")
            args = e["args"]
            if self.is_self_fn(path) and args:
                ch = self.child_of(args[0])
                return ("rec", ch if ch is not None else "?")
            if path.endswith("::Some") and callee.get("dk", "").startswith("ctor") and args:
                return ("some", self.ev(args[0]))
            if callee.get("dk", "").startswith("ctor") or callee.get("dk") in ("variant", "struct"):
                return ("ctor", path, [self.ev(a) for a in args])
            return ("call", path, [self.ev(a) for a in args])
        if k == "mcall":
            name = e["name"]
            recv = e["recv"]
            if name == "is_empty":
                ch = self.child_of(recv)
                return ("is_empty", ch if ch is not None else self.ev(recv))
            # iterator idioms over a child list
            if name in ("all", "any") and e["args"]:
                inner = peel(recv)
                if inner.get("k") == "mcall" and inner["name"] in ("iter", "iter_mut"):
                    ch = self.child_of(inner["recv"])
                    if ch is not None and self.closure_is_rec(e["args"][0]):
                        return (name, ch)
                return ("opaque", "iterator %s over unrecognised receiver/closure" % name)
            if name == "next":
                inner = peel(recv)
                if inner.get("k") == "mcall" and inner["name"] == "filter_map" and inner["args"]:
                    it = peel(inner["recv"])
                    if it.get("k") == "mcall" and it["name"] == "iter":
                        ch = self.child_of(it["recv"])
                        if ch is not None and self.closure_is_rec(inner["args"][0]):
                            return ("first_some", ch)
                return ("opaque", "next() on unrecognised iterator")
            if name == "find_map" and e["args"]:
                # `iter().find_map(f)` is `iter().filter_map(f).next()`
                it = peel(recv)
                if it.get("k") == "mcall" and it["name"] == "iter":
                    ch = self.child_of(it["recv"])
                    if ch is not None and self.closure_is_rec(e["args"][0]):
                        return ("first_some", ch)
                return ("opaque", "find_map on unrecognised iterator")
            if name == "is_some_and" and e["args"]:
                inner = peel(recv)
                if inner.get("k") == "mcall" and inner["name"] == "first":
                    ch = self.child_of(inner["recv"])
                    if ch is not None and self.closure_is_rec(e["args"][0]):
                        return ("first_rec", ch)
                return ("opaque", "is_some_and on unrecognised receiver")
            if name in ("clone", "to_vec", "as_ref", "as_slice", "iter", "collect", "map", "copied", "into"):
                return ("data", self.ev(recv))
            return ("mcall", e.get("def") or name, [self.ev(recv)] + [self.ev(a) for a in e["args"]])
        if k == "block":
            saved = dict(self.env)
            out = None
            for st in e["stmts"]:
                if st["k"] == "let":
                    nm = bind_name(st["pat"])
                    if nm and "init" in st:
                        self.env[nm] = self.ev(st["init"])
                    elif nm:
                        self.env[nm] = ("uninit", nm)
                elif st["k"] in ("semi", "expr"):
                    inner = peel(st["e"])
                    if inner.get("k") == "ret":
                        out = ("return", self.ev(inner["e"]) if "e" in inner else ("unit",))
                        break
                    if inner.get("k") == "assign":
                        lhs = peel(inner["lhs"])
                        if lhs.get("k") == "path" and lhs.get("res", {}).get("r") == "local":
                            self.env[lhs["res"]["name"]] = self.ev(inner["rhs"])
                    elif inner.get("k") == "if":
                        r = self.ev(inner)
                        if has_return(r):
                            out = ("seq_if", r)
                            # keep going: the rest is the fallthrough
                            rest = self._rest_block(e, st)
                            self.env = saved
                            return ("if_ret", r, rest)
            if out is None:
                out = self.ev(e["expr"]) if "expr" in e else ("unit",)
            self.env = saved
            return out
        if k == "if":
            cond = peel(e["cond"])
            if cond.get("k") == "letexpr":
                return ("iflet", pat_shape(cond["pat"]), self.ev(cond["init"]), self.ev(e["then"]),
                        self.ev(e["else"]) if "else" in e else ("unit",))
            return ("if", self.ev(cond), self.ev(e["then"]), self.ev(e["else"]) if "else" in e else ("unit",))
        if k == "match":
            if str(e.get("src", "")).startswith("TryDesugar"):
                sc = peel(e["scrut"])
                inner = sc["args"][0] if sc.get("k") == "call" and sc.get("args") else sc
                return ("try", self.ev(inner))
            # `match xs.first() { Some(x) => f(x), None => false }` is `xs.first().is_some_and(f)`
            sc = peel(e["scrut"])
            if sc.get("k") == "mcall" and sc.get("name") == "first" and len(e["arms"]) == 2 and not any(a.get("guard") for a in e["arms"]):
                ch = self.child_of(sc["recv"])
                shapes = {pat_shape(a["pat"])[0] if isinstance(pat_shape(a["pat"]), tuple) else None: a for a in e["arms"]}
                some_arm = next((a for a in e["arms"] if str(pat_shape(a["pat"])[0]).endswith("Some")), None)
                none_arm = next((a for a in e["arms"] if a is not some_arm), None)
                if ch is not None and some_arm is not None and none_arm is not None:
                    nb = self.ev(none_arm["body"])
                    bname = None
                    pp = some_arm["pat"].get("pats") or []
                    if len(pp) == 1:
                        bname = bind_name(pp[0])
                    body_ = peel(some_arm["body"])
                    is_rec = body_.get("k") == "call" and self.is_self_fn((body_.get("callee") or {}).get("path", "")) and len(body_.get("args") or []) >= 1 \
                        and peel(body_["args"][0]).get("k") == "path" and peel(body_["args"][0]).get("res", {}).get("name") == bname and bname
                    if is_rec and nb == ("const", False):
                        return ("first_rec", ch)
            return ("match", self.ev(e["scrut"]), [(pat_shape(a["pat"]), self.ev(a["guard"]) if a.get("guard") else None,
                                                     self.ev(a["body"])) for a in e["arms"]])
        if k == "tup":
            return ("tuple", [self.ev(x) for x in e["elems"]])
        if k == "ret":
            return ("return", self.ev(e["e"]) if "e" in e else ("unit",))
        if k == "struct":
            return ("ctor", e.get("res", {}).get("path", "?"), [self.ev(v) for _, v in e["fields"]])
        if k == "addrof" or k == "cast":
            return self.ev(e["e"])
        if k == "closure":
            return ("closure",)
        if k == "index":
            return ("index", self.ev(e["e"]), self.ev(e["i"]))
        if k == "array":
            return ("array", [self.ev(x) for x in e["elems"]])
        return ("opaque", k)

    def _rest_block(self, blk, after_stmt):
        idx = blk["stmts"].index(after_stmt)
        rest = {"k": "block", "stmts": blk["stmts"][idx + 1:]}
        if "expr" in blk:
            rest["expr"] = blk["expr"]
        return self.ev(rest)


def has_return(s):
    if isinstance(s, tuple):
        if s and s[0] == "return":
            return True
        return any(has_return(x) for x in s)
    if isinstance(s, list):
        return any(has_return(x) for x in s)
    return False


def peel(e):
    while isinstance(e, dict) and e.get("k") == "block" and not e.get("stmts") and "expr" in e and not e.get("unsafe"):
        e = e["expr"]
    while isinstance(e, dict) and e.get("k") in ("addrof",) and "e" in e:
        e = e["e"]
    while isinstance(e, dict) and e.get("k") == "un" and e.get("op") == "*":
        e = e["a"]
    while isinstance(e, dict) and e.get("k") == "block" and not e.get("stmts") and "expr" in e and not e.get("unsafe"):
        e = e["expr"]
    return e


def bind_name(p):
    k = p.get("k")
    if k == "bind":
        return p["name"]
    if k in ("ref", "box", "deref"):
        return bind_name(p["pat"])
    return None


def pat_shape(p):
    k = p.get("k")
    if k in ("tstruct",):
        return (H.short(p["res"].get("path", "?")), [pat_shape(x) for x in p["pats"]])
    if k == "struct":
        return (H.short(p["res"].get("path", "?")), [(n, pat_shape(x)) for n, x in p["fields"]])
    if k == "path":
        return (H.short(p["res"].get("path", "?")), [])
    if k == "tuple":
        return ("tuple", [pat_shape(x) for x in p["pats"]])
    if k == "bind":
        return ("bind", p["name"])
    if k == "wild":
        return ("_",)
    if k in ("ref", "box", "deref"):
        return pat_shape(p["pat"])
    if k == "lit":
        return ("lit", p.get("v"))
    if k == "or":
        return ("or", [pat_shape(x) for x in p["pats"]])
    return (k,)


# --------------------------------------------------------------------------------------------


def variant_fields(facts, variant):
    for v in facts.adts["ir::Node"]["variants"]:
        if v["name"] == variant:
            return [f["name"] for f in v["fields"]]
    return []


def arm_for_variant(m, variant):
    """First arm whose pattern covers the variant (or a catch-all). Returns (arm, via_wildcard)."""
    for a in m["arms"]:
        vs = H.pat_variants(a["pat"])
        if any(v != "_" and H.short(v) == variant for v in vs):
            return a, False
        if "_" in vs and not any(v != "_" for v in vs):
            return a, True
    return None, False


def guard_fields(a):
    """Sub-patterns of a variant pattern that constrain fields (e.g. anchor_type: StartOfLine)."""
    out = {}
    p = a["pat"]
    while p.get("k") in ("ref", "box", "deref"):
        p = p["pat"]
    if p.get("k") == "struct":
        for fname, sub in p["fields"]:
            vs = [v for v in H.pat_variants(sub) if v != "_"]
            if vs:
                out[fname] = [H.short(v) for v in vs]
    return out


def summarise_function(facts, fn, r):
    h = facts.hir.get(fn)
    if h is None:
        r.error("anchor %s not found" % fn)
        return None
    ms = H.find_matches(h["body"], NODE_RX)
    ms = [m for m in ms if len(m["arms"]) >= 2]
    if not ms:
        r.error("%s has no match over ir::Node" % fn)
        return None
    m = max(ms, key=lambda mm: len(mm["arms"]))
    # let-bindings preceding the match at function level (e.g. `let arbitrary = Some(Arbitrary)`)
    pre_env = {}
    body = h["body"]
    if body.get("k") == "block":
        s0 = Sym(facts, fn)
        for st in body["stmts"]:
            if st["k"] == "let" and "init" in st and bind_name(st["pat"]):
                s0.env[bind_name(st["pat"])] = s0.ev(st["init"])
        pre_env = s0.env
    out = {}
    variants = [v["name"] for v in facts.adts["ir::Node"]["variants"]]
    for v in variants:
        # a variant may be covered by several arms with field constraints (Anchor{StartOfLine}) before a catch-all
        sums = []
        for a in m["arms"]:
            vs = H.pat_variants(a["pat"])
            named = [x for x in vs if x != "_" and x.startswith("ir::Node::")]
            covers = any(H.short(x) == v for x in named)
            catch = ("_" in vs and not named)
            if not (covers or catch):
                continue
            sy = Sym(facts, fn)
            sy.env = dict(pre_env)
            if covers:
                sy.bind_pattern(a["pat"], variant_fields(facts, v))
            res = sy.ev(a["body"])
            g = sy.ev(a["guard"]) if a.get("guard") else None
            sums.append({"summary": res, "guard": g, "constraints": guard_fields(a) if covers else {}, "wild": catch, "line": a["line"]})
            if catch or (covers and not a.get("guard") and not guard_fields(a)):
                break
        out[v] = sums
    return out, m


# ---- obligations ---------------------------------------------------------------------------


def bool_paths(s):
    """Can the boolean summary evaluate to True? Returns set of 'reasons' for possibly-true outcomes:
    'const', ('rec', child), ('all', child), ('any', child), ('first_rec', child), ('not_is_empty', child), 'opaque:..'"""
    t = s[0]
    if t == "const":
        return {"const"} if s[1] else set()
    if t == "rec":
        return {("rec", s[1])}
    if t in ("all", "any", "first_rec"):
        return {(t, s[1])}
    if t == "not":
        inner = s[1]
        if inner[0] == "is_empty":
            return {("not_is_empty", inner[1] if isinstance(inner[1], str) else "?")}
        if inner[0] == "const":
            return set() if inner[1] else {"const"}
        if inner[0] in ("local", "field", "proj"):
            return {("not_flag", flat(inner))}
        return {"opaque:not(%s)" % inner[0]}
    if t == "is_empty":
        return {("is_empty", s[1] if isinstance(s[1], str) else "?")}
    if t == "and":
        a, b = bool_paths(s[1]), bool_paths(s[2])
        if not a or not b:
            return set()
        return {("and", frozenset(a), frozenset(b))}
    if t == "or":
        return bool_paths(s[1]) | bool_paths(s[2])
    if t == "if":
        return bool_paths(s[2]) | bool_paths(s[3])
    if t in ("local", "field", "proj"):
        return {("flag", flat(s))}
    if t == "cmp":
        return {("cmp", flat(s))}
    if t == "return":
        return bool_paths(s[1])
    if t == "if_ret":
        return bool_paths(s[1]) | bool_paths(s[2])
    if t == "unit":
        return set()
    return {"opaque:%s" % (s[1] if t == "opaque" else t)}


def flat(s):
    if isinstance(s, tuple):
        if s[0] in ("local", "field"):
            return s[1]
        if s[0] == "proj":
            return "%s.%s" % (flat(s[1]), s[2])
        if s[0] == "cmp":
            return "%s %s %s" % (flat(s[2]), s[1], flat(s[3]))
        if s[0] == "lit":
            return str(s[1])
        if s[0] == "const":
            return str(s[1]).lower()
        return s[0]
    return str(s)


def rec_children(reasons):
    out = set()
    for x in reasons:
        if isinstance(x, tuple):
            if x[0] in ("rec", "all", "any", "first_rec"):
                out.add(x[1])
            elif x[0] == "and":
                out |= rec_children(x[1]) | rec_children(x[2])
    return out


def check(facts):
    r = RuleResult("ARM", RULE_TEXT)
    sem = load_sem()
    variants = [v["name"] for v in facts.adts["ir::Node"]["variants"]]
    missing = [v for v in variants if v not in sem["variants"]]
    if missing:
        r.error("ir::Node has variants with no entry in tables/ir_semantics.json: %s" % missing)
        return r
    info = sem["variants"]
    narms = 0

    def each(fn):
        s = summarise_function(facts, fn, r)
        if s is None:
            return []
        sums, m = s
        return [(v, sums[v]) for v in variants]

    # 1. matches_exactly_one_char: true only for one_char variants; set-like ones only through !is_empty
    fn = "ir::Node::matches_exactly_one_char"
    for v, sums in each(fn):
        narms += 1
        key = "%s variant=%s" % (fn, v)
        if not sums:
            r.fail(key, "no arm covers Node::%s" % v, facts.loc(fn))
            continue
        reasons = set().union(*[bool_paths(x["summary"]) for x in sums])
        width = info[v]["width"]
        if not reasons:
            r.ok(key, "false", nontrivial=(width == "one_char"))
            continue
        if width != "one_char":
            r.fail(key, "may answer true for Node::%s, which does not always match exactly one character (%s): a loop over it would be "
                        "promoted to the 1-char fast path" % (v, width), facts.loc(fn, sums[0]["line"]))
        elif info[v].get("set_like") and not all(isinstance(x, tuple) and x[0] == "not_is_empty" for x in reasons):
            r.fail(key, "answers true for the set-like Node::%s without excluding the empty set (an empty set matches nothing)" % v,
                   facts.loc(fn, sums[0]["line"]))
        elif any(isinstance(x, str) and x.startswith("opaque") for x in reasons):
            r.fail(key, "unclassified arm: %s" % sorted(map(str, reasons)), facts.loc(fn, sums[0]["line"]))
        else:
            r.ok(key, "true via %s" % sorted(map(str, reasons)))

    # 2. match_always_fails: true only for set-like variants through is_empty
    fn = "ir::Node::match_always_fails"
    for v, sums in each(fn):
        narms += 1
        key = "%s variant=%s" % (fn, v)
        reasons = set().union(*[bool_paths(x["summary"]) for x in sums]) if sums else set()
        if not reasons:
            r.ok(key, "false", nontrivial=bool(info[v].get("set_like")))
            continue
        if info[v].get("set_like") and all(isinstance(x, tuple) and x[0] == "is_empty" for x in reasons):
            r.ok(key, "true only when the set is empty")
        else:
            r.fail(key, "may claim Node::%s always fails via %s: only an empty set can never match" % (v, sorted(map(str, reasons))),
                   facts.loc(fn, sums[0]["line"]))

    # 3. is_unrollable: never true / recursing for Loop, Loop1CharBody
    fn = "optimizer::is_unrollable"
    for v, sums in each(fn):
        narms += 1
        key = "%s variant=%s" % (fn, v)
        reasons = set().union(*[bool_paths(x["summary"]) for x in sums]) if sums else set()
        if v in ("Loop", "Loop1CharBody"):
            if reasons:
                r.fail(key, "a loop body containing a nested Node::%s is reported unrollable (%s): unrolling multiplies loops" %
                       (v, sorted(map(str, reasons))), facts.loc(fn, sums[0]["line"]))
            else:
                r.ok(key, "false")
        else:
            kids = set(info[v].get("children", []))
            got = rec_children(reasons)
            if kids and reasons and not kids <= got and "const" in reasons:
                r.fail(key, "answers true for Node::%s without looking at its children %s (a nested loop below it would be missed)" %
                       (v, sorted(kids - got)), facts.loc(fn, sums[0]["line"]))
            elif any(isinstance(x, str) and x.startswith("opaque") for x in reasons):
                r.fail(key, "unclassified arm: %s" % sorted(map(str, reasons)), facts.loc(fn, sums[0]["line"]))
            else:
                r.ok(key, "%s" % (sorted(map(str, reasons)) or "false"), nontrivial=bool(kids))

    # 4. contains_capture_groups
    fn = "optimizer::contains_capture_groups"
    for v, sums in each(fn):
        narms += 1
        key = "%s variant=%s" % (fn, v)
        reasons = set().union(*[bool_paths(x["summary"]) for x in sums]) if sums else set()
        if v == "CaptureGroup":
            if "const" in reasons:
                r.ok(key, "true")
            else:
                r.fail(key, "Node::CaptureGroup is not reported as containing a capture group", facts.loc(fn))
            continue
        kids = set(info[v].get("children", [])) if info[v].get("can_contain_group") else set()
        got = rec_children(reasons)
        if kids - got:
            r.fail(key, "does not look into child %s of Node::%s, which can contain a capture group: propagate_early_fails may discard "
                        "a group" % (sorted(kids - got), v), facts.loc(fn, sums[0]["line"] if sums else None))
        elif any(isinstance(x, str) and x.startswith("opaque") for x in reasons):
            r.fail(key, "unclassified arm: %s" % sorted(map(str, reasons)), facts.loc(fn, sums[0]["line"]))
        else:
            r.ok(key, "%s" % (sorted(map(str, reasons)) or "false"), nontrivial=bool(kids))

    # 5. is_start_anchored
    fn = "startpredicate::is_start_anchored"
    for v, sums in each(fn):
        narms += 1
        key = "%s variant=%s" % (fn, v)
        bad = None
        notes = []
        for x in sums:
            reasons = bool_paths(x["summary"])
            if not reasons:
                continue
            if v == "Anchor":
                cons = x["constraints"].get("anchor_type")
                if cons != ["StartOfLine"]:
                    bad = "true for an Anchor that is not constrained to StartOfLine"
                elif not all(isinstance(q, tuple) and q[0] == "not_flag" and q[1] == "multiline" for q in reasons):
                    bad = "StartOfLine anchor accepted without requiring !multiline (%s)" % sorted(map(str, reasons))
                notes.append("StartOfLine && !multiline")
            elif v == "Cat":
                if reasons != {("first_rec", "0")}:
                    bad = "Cat must be anchored through its first child only (got %s)" % sorted(map(str, reasons))
                notes.append("first child")
            elif v == "CaptureGroup":
                if reasons != {("rec", "contents")}:
                    bad = "CaptureGroup must delegate to its contents (got %s)" % sorted(map(str, reasons))
                notes.append("contents")
            elif v == "Alt":
                ok = len(reasons) == 1 and isinstance(list(reasons)[0], tuple) and list(reasons)[0][0] == "and" and \
                    rec_children(reasons) == {"0", "1"}
                if not ok:
                    bad = "Alt is anchored only if BOTH branches are (got %s)" % sorted(map(str, reasons))
                notes.append("left && right")
            else:
                bad = "Node::%s can be reported start-anchored (%s); only ^ (non-multiline), Cat-first, CaptureGroup and Alt-both can" % (
                    v, sorted(map(str, reasons)))
        if bad:
            r.fail(key, bad + ": the StartAnchored shortcut would skip offsets where a match can start",
                   facts.loc(fn, sums[0]["line"] if sums else None))
        else:
            r.ok(key, ", ".join(notes) or "false", nontrivial=bool(notes))

    # 6. compute_start_predicate
    fn = "startpredicate::compute_start_predicate"
    for v, sums in each(fn):
        narms += 1
        key = "%s variant=%s" % (fn, v)
        if not sums:
            r.fail(key, "no arm covers Node::%s" % v, facts.loc(fn))
            continue
        verdict = None
        for x in sums:
            verdict = csp_shape(v, info[v], x["summary"])
            if verdict is not True:
                break
        if verdict is True:
            r.ok(key, csp_describe(sums[0]["summary"]))
            r.sample({"key": key, "summary": csp_describe(sums[0]["summary"])})
        else:
            r.fail(key, "start-predicate abstraction unsound or unclassified for Node::%s: %s" % (v, verdict),
                   facts.loc(fn, sums[0]["line"]))
    r.floor("arms", narms, 6 * 19)
    return r


def is_arb(s):
    return s == ("some", ("ctor", "startpredicate::AbstractStartPredicate::Arbitrary", []))


def csp_describe(s):
    if is_arb(s):
        return "Arbitrary"
    if s == ("none",):
        return "None"
    if s[0] == "rec":
        return "delegate(%s)" % s[1]
    if s[0] == "first_some":
        return "first non-None child of %s" % s[1]
    if s[0] == "if":
        return "if %s {%s} else {%s}" % (flat(s[1]), csp_describe(s[2]), csp_describe(s[3]))
    if s[0] == "iflet":
        return "if let both Some {%s} else {%s}" % (csp_describe(s[3]), csp_describe(s[4]))
    if s[0] == "some":
        return "Some(%s)" % (s[1][1].split("::")[-1] if s[1][0] == "ctor" else s[1][0])
    if s[0] == "call":
        return "%s(..)" % s[1].split("::")[-1]
    return s[0]


def csp_shape(v, info, s):
    """True if the summary is an allowed shape for the variant, else a reason string."""
    width = info["width"]
    if is_arb(s):
        return True
    if s == ("none",):
        return True if width == "zero" else "returns None (\"contributes nothing\") for a node that can consume input or fail"
    if s[0] == "block" or s[0] == "unit":
        return "unclassified block"
    if s[0] == "rec":
        if v == "CaptureGroup" and s[1] == "contents":
            return True
        return "delegates to child %s unconditionally" % s[1]
    if s[0] == "first_some":
        if v == "Cat" and s[1] == "0":
            return True
        return "first-non-None over %s is only sound for Cat" % s[1]
    if s[0] == "if":
        cond, a, b = s[1], s[2], s[3]
        if v in ("Loop", "Loop1CharBody"):
            # delegate only under min >= 1
            c = flat(cond)
            if c in ("quant.min > 0", "quant.min >= 1", "quant.min != 0", "0 < quant.min", "1 <= quant.min") and a == ("rec", "loopee") and is_arb(b):
                return True
            if c in ("quant.min == 0", "quant.min < 1") and is_arb(a) and b == ("rec", "loopee"):
                return True
            return "a loop may delegate to its body only under a guard equivalent to quant.min >= 1 (got `%s`)" % c
        ra, rb = csp_shape(v, info, a), csp_shape(v, info, b)
        if ra is True and rb is True:
            return True
        return ra if ra is not True else rb
    if s[0] == "iflet":
        pat, scrut, a, b = s[1], s[2], s[3], s[4]
        if v == "Alt":
            both = pat == ("tuple", [("Some", [("bind", "x")]), ("Some", [("bind", "y")])]) or \
                (pat[0] == "tuple" and len(pat[1]) == 2 and all(p[0] == "Some" for p in pat[1]))
            recs = scrut == ("tuple", [("rec", "0"), ("rec", "1")])
            disj = a[0] == "some" and a[1][0] == "call" and a[1][1].endswith("AbstractStartPredicate::disjunction")
            if both and recs and disj and is_arb(b):
                return True
            return "Alt must be disjunction(left, right) when both are Some and Arbitrary otherwise"
        return "unexpected if-let"
    if s[0] == "match" and v == "Alt":
        # `match (csp(left), csp(right)) { (Some(x), Some(y)) => Some(disjunction(x, y)), _ => arbitrary }` — the if-let written as a match
        scrut, arms_ = s[1], s[2]
        recs = scrut == ("tuple", [("rec", "0"), ("rec", "1")])
        if recs and len(arms_) == 2:
            (p0, g0, b0), (p1, g1, b1) = arms_
            both = p0[0] == "tuple" and len(p0[1]) == 2 and all(pp[0] == "Some" for pp in p0[1]) and g0 is None
            disj = b0[0] == "some" and b0[1][0] == "call" and b0[1][1].endswith("AbstractStartPredicate::disjunction")
            if both and disj and p1 == ("_",) and g1 is None and is_arb(b1):
                return True
        return "Alt must be disjunction(left, right) when both are Some and Arbitrary otherwise"
    if s[0] == "try" or has_try(s):
        return "propagates a child's None with `?`: an alternation/sequence with a zero-width branch would be treated as zero-width"
    if s[0] == "some":
        inner = s[1]
        if inner[0] == "ctor" and inner[1].endswith(("AbstractStartPredicate::Set", "AbstractStartPredicate::Sequence")):
            if width in ("one_char", "data") and not info.get("children"):
                if refs_only_own_data(inner):
                    return True
                return "leaf predicate is not built from the node's own data"
            return "a concrete byte predicate for Node::%s (%s), which is not a consuming leaf" % (v, width)
        return "unclassified Some(..)"
    if s[0] == "block":
        return "unclassified block"
    return "unclassified summary %s" % (s[0],)


def has_try(s):
    if isinstance(s, tuple):
        return (s and s[0] == "try") or any(has_try(x) for x in s)
    if isinstance(s, list):
        return any(has_try(x) for x in s)
    return False


def refs_only_own_data(s):
    """No recursion and no foreign locals inside a leaf predicate expression."""
    if isinstance(s, tuple):
        if s and s[0] == "rec":
            return False
        return all(refs_only_own_data(x) for x in s[1:])
    if isinstance(s, list):
        return all(refs_only_own_data(x) for x in s)
    return True


# ---- REMOVEEMPTY ----------------------------------------------------------------------------

def check_removeempty(facts):
    """optimizer::remove_empties may delete a node only when the node can match nothing but the empty string and carries no
    capture: per ir::Node variant, the conditions under which its arm answers PassAction::Remove are summarised from HIR
    (if / && / || / !) into a disjunction of conjunctions, and every conjunction must contain the variant's emptiness facts:
    Alt — both arms `is_empty()`; Loop — the body `is_empty()`, or `max == Some(0)` with no enclosed groups; ByteSequence —
    `is_empty()`; LookaroundAssertion — not negated and contents `is_empty()`; Cat — nothing left after `retain(!is_empty)`;
    every other variant never. (Deleting `(?:|a)` because its first arm is empty drops the second arm: `/(?:|a)b/` on "ab".)"""
    r = RuleResult("REMOVEEMPTY", " ".join(check_removeempty.__doc__.split()))
    fn = "optimizer::remove_empties"
    s = summarise_function(facts, fn, r)
    if s is None:
        if not r.errors and not r.findings:
            r.error("cannot summarise %s" % fn)
        return r
    sums, m = s
    variants = [v["name"] for v in facts.adts["ir::Node"]["variants"]]

    def is_remove(x):
        return isinstance(x, (list, tuple)) and x and x[0] == "ctor" and str(x[1]).endswith("PassAction::Remove")

    def conj(c, pol=True):
        """DNF of a condition: list of frozensets of (atom-json, polarity)."""
        if isinstance(c, (list, tuple)) and c and c[0] == "and":
            if pol:
                out = [frozenset()]
                for sub in c[1:]:
                    out = [a | b for a in out for b in conj(sub, True)]
                return out
            return [d for sub in c[1:] for d in conj(sub, False)]
        if isinstance(c, (list, tuple)) and c and c[0] == "or":
            if pol:
                return [d for sub in c[1:] for d in conj(sub, True)]
            out = [frozenset()]
            for sub in c[1:]:
                out = [a | b for a in out for b in conj(sub, False)]
            return out
        if isinstance(c, (list, tuple)) and c and c[0] == "not":
            return conj(c[1], not pol)
        return [frozenset([(json.dumps(c), pol)])]

    def remove_paths(x, ctx):
        """conjunctions (frozensets) under which summary x yields Remove; None if a shape is not understood"""
        if is_remove(x):
            return [ctx]
        if isinstance(x, (list, tuple)) and x and x[0] == "ctor":
            return []
        if isinstance(x, (list, tuple)) and x and x[0] == "if":
            out = []
            for d in conj(x[1], True):
                rp = remove_paths(x[2], ctx | d)
                if rp is None:
                    return None
                out += rp
            for d in conj(x[1], False):
                rp = remove_paths(x[3], ctx | d) if len(x) > 3 and x[3] is not None else []
                if rp is None:
                    return None
                out += rp
            return out
        if isinstance(x, (list, tuple)) and x and x[0] == "match":
            out = []
            for arm in x[2]:
                rp = remove_paths(arm[2], ctx | frozenset([("match " + json.dumps(x[1]) + " = " + json.dumps(arm[0]), True)]))
                if rp is None:
                    return None
                out += rp
            return out
        if "PassAction::Remove" in json.dumps(x):
            return None
        return []
    need = {
        "Alt": [{'["is_empty", "0"]', '["is_empty", "1"]'}],
        "ByteSequence": [{'["is_empty", "0"]'}],
        "LookaroundAssertion": [{'["is_empty", "contents"]', '!["field", "negate"]'}],
        "Loop": [{'["is_empty", "loopee"]'}, {"max == Some(0)", "enclosed_groups.start == enclosed_groups.end"}],
    }
    n = 0
    for v in variants:
        for one in sums.get(v) or []:
            n += 1
            key = "%s variant=%s" % (fn, v)
            rp = remove_paths(one["summary"], frozenset())
            if rp is None:
                r.fail(key, "cannot tell under which conditions the arm removes the node: %s" % json.dumps(one["summary"])[:200], facts.loc(fn, one.get("line")))
                continue
            if not rp:
                r.ok(key, "never removed")
                continue
            if v == "Cat":
                ok = all(any("len" in a and '["lit", 0]' in a for a, p in d) for d in rp)
                if ok:
                    r.ok(key, "removed only when no child is left")
                else:
                    r.fail(key, "Cat is removed on a path that does not test `nodes.len()` against 0: %s" % [sorted(d) for d in rp][:2], facts.loc(fn, one.get("line")))
                continue
            alts = need.get(v)
            if not alts:
                r.fail(key, "Node::%s can be removed (%s) although it can match a non-empty string or carries a capture" % (v, [sorted(d) for d in rp][:1]),
                       facts.loc(fn, one.get("line")))
                continue

            def norm_atoms(d):
                out = set()
                for a, p in d:
                    if a == '["is_empty", "loopee"]' or a.startswith('["is_empty"'):
                        out.add(a if p else "!" + a)
                    elif a == '["field", "negate"]':
                        out.add(("" if p else "!") + a)
                    elif '"max"' in a and '["some", ["lit", 0]]' in a and '"=="' in a and p:
                        out.add("max == Some(0)")
                    elif '"enclosed_groups"' in a and '"start"' in a and '"end"' in a and '"=="' in a and p:
                        out.add("enclosed_groups.start == enclosed_groups.end")
                    else:
                        out.add(("" if p else "!") + a)
                return out
            bad = [d for d in rp if not any(alt <= norm_atoms(d) for alt in alts)]
            if bad:
                r.fail(key, "Node::%s is removed under %s, which does not establish %s: the node may still match something (or hold a group), "
                            "and the alternative / iteration it stood for is lost" % (v, sorted(norm_atoms(bad[0])), " or ".join(str(sorted(a)) for a in alts)),
                       facts.loc(fn, one.get("line")))
            else:
                r.ok(key, "removed only when %s" % " or ".join(str(sorted(a)) for a in alts))
                r.sample({"variant": v, "remove_conditions": [sorted(norm_atoms(d)) for d in rp]})
    r.floor("arms", n, 15)
    return r

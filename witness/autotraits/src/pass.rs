//! Compile-pass witness for C19: the public value types are Send + Sync (and Regex: Clone).
//! Built by rules/types.py with `cargo check`; must compile.
fn assert_send_sync<T: Send + Sync>() {}
fn assert_clone<T: Clone>() {}
pub fn witness() {
    assert_send_sync::<regress::Regex>();
    assert_send_sync::<regress::Match>();
    assert_send_sync::<regress::Error>();
    assert_send_sync::<regress::Flags>();
    assert_send_sync::<&'static regress::Regex>();
    assert_clone::<regress::Regex>();
    // WITNESS-LINE
}
